"""Compile fonts with generated features and project GPOS / GDEF + the UFO-side reference data."""
import io

from . import absfont, otproject, project


def _writers(case):
    from ufo2ft.featureWriters import CursFeatureWriter, GdefFeatureWriter, KernFeatureWriter, MarkFeatureWriter
    from ufo2ft.featureWriters.kernFeatureWriter2 import KernFeatureWriter as KernFeatureWriter2

    w = case.get("writers", "default")
    q = case.get("q", 1)
    if w == "default":
        return None
    kern = KernFeatureWriter2 if case.get("writer") == "kern2" else KernFeatureWriter
    ws = []
    for name in w:
        if name == "kern":
            ws.append(kern(quantization=q, **(case.get("kernOpts") or {})))
        elif name == "mark":
            ws.append(MarkFeatureWriter(quantization=q, **(case.get("markOpts") or {})))
        elif name == "curs":
            ws.append(CursFeatureWriter())
        elif name == "gdef":
            ws.append(GdefFeatureWriter())
    return ws


def _two_master_family(case):
    """the case's UFO as the default master plus a copy with wider advances: the layout data of both is the same, so the
    variable font (and each interpolatable master) must carry exactly the layout of the static font"""
    import copy

    from . import dsbuild

    u0 = copy.deepcopy(case["ufo"])
    u1 = copy.deepcopy(case["ufo"])
    for g in u1["glyphs"].values():
        if g["w"]:
            g["w"] += 20 * 1024
    u1["info"] = dict(u1.get("info") or {}, styleName="Wide")
    kw = dict(case.get("kwargs") or {})
    skip = kw.pop("skipExportGlyphs", None)
    if skip is None:
        skip = (u0.get("lib") or {}).get("public.skipExportGlyphs")
    masters = [{"loc": {"Weight": 0}, "ufo": u0, "name": "M0"}, {"loc": {"Weight": 8}, "ufo": u1, "name": "M1"}]
    if case.get("otherFirst"):
        # the NON-default master is listed first and carries other (or no) glyph categories: layout data that is not
        # interpolated comes from the default source, wherever it is listed
        lib1 = dict(u1.get("lib") or {})
        if case.get("otherCats") is None:
            lib1.pop("public.openTypeCategories", None)
        else:
            lib1["public.openTypeCategories"] = dict(case["otherCats"])
        u1["lib"] = lib1
        masters.reverse()
    fam = {"axes": [{"name": "Weight", "tag": "wght", "min": 0, "default": 0, "max": 8}], "masters": masters,
           "lib": {"public.skipExportGlyphs": list(skip)} if skip else {}}
    return dsbuild.build_designspace(fam, case.get("lib", "ufoLib2")), kw


def compile_layout(case, flavor="tt", writer_objs=None, via="static"):
    """`writer_objs`: already initialised writer instances to use instead of building the list the case describes
    (a caller may hand the same instances to several compiles).
    `via`: "static" | "vf" (variable features) | "vf-merge" (per-master layout merged by varLib) | "interp" (master 0 of
    compileInterpolatable*FromDS) -- the designspace paths need default writers."""
    import ufo2ft

    if via != "static":
        ds, kw = _two_master_family(case)
        kw.setdefault("useProductionNames", False)
        dbg = io.StringIO()
        kw["debugFeatureFile"] = dbg
        if via == "interp":
            fn = ufo2ft.compileInterpolatableTTFsFromDS if flavor == "tt" else ufo2ft.compileInterpolatableOTFsFromDS
            otf = fn(ds, **kw).sources[1 if case.get("otherFirst") else 0].font
        else:
            fn = ufo2ft.compileVariableTTF if flavor == "tt" else ufo2ft.compileVariableCFF2
            otf = fn(ds, variableFeatures=(via == "vf"), **kw)
        data, f2 = project.save_reload(otf)
        return f2, dbg.getvalue(), data
    font = absfont.build_font(case["ufo"], case.get("lib", "ufoLib2"))
    fn = ufo2ft.compileTTF if flavor == "tt" else ufo2ft.compileOTF
    kw = dict(case.get("kwargs") or {})
    kw.setdefault("useProductionNames", False)
    ws = writer_objs if writer_objs is not None else _writers(case)
    if ws is not None:
        kw["featureWriters"] = ws
    dbg = io.StringIO()
    kw["debugFeatureFile"] = dbg
    otf = fn(font, **kw)
    data, f2 = project.save_reload(otf)
    return f2, dbg.getvalue(), data


def compile_sequence(case):
    """[case] + case["then"]: one list of writer instances (built from the first case) serves all of them in turn, as
    it does for the masters of a family or for a caller that keeps its writers.  Yields (case, font, fea)."""
    ws = _writers(case)
    for c in [case] + list(case.get("then") or []):
        f2, fea, data = compile_layout(c, writer_objs=ws)
        yield c, f2, fea


def kern_record(case, f2, tid):
    order = f2.getGlyphOrder()
    gid = {n: i for i, n in enumerate(order)}
    props = otproject.glyph_properties(f2)
    F = {"gpos": otproject.gpos(f2), "gdef": otproject.gdef(f2)}
    ufo = case["ufo"]

    def key(k, side):
        prefix = "public.kern1." if side == 1 else "public.kern2."
        if k.startswith(prefix):
            return {"c": k}
        return {"g": gid.get(k, -1)}

    kerning = [{"l": key(l, 1), "r": key(r, 2), "v": int(v)} for l, r, v in ufo.get("kerning", [])]
    groups = []
    for name, members in ufo.get("groups", []):
        side = 1 if name.startswith("public.kern1.") else 2 if name.startswith("public.kern2.") else 0
        if side:
            groups.append({"name": name, "side": side, "members": [gid.get(m, -1) for m in members]})
    tags = []
    for s in F["gpos"]["scripts"]:
        sc = otproject.script_of_tag(s["tag"])
        sc = otproject.ALIASES.get(sc, sc)
        tags.append({"tag": s["tag"], "script": sc, "rtl": otproject.script_is_rtl(sc)})
    declared = bool((ufo.get("lib") or {}).get("public.openTypeCategories")) or "GlyphClassDef" in (ufo.get("fea") or "")
    return {"tid": tid, "n": len(order), "order": order, "glyphs": [props[n] for n in order], "kerning": kerning, "groups": groups,
            "q": int(case.get("q", 1)), "tags": tags, "F": F, "declared": declared}


import re

_LIGNUM = re.compile(r"([0-9]+)$")
ABVM_SCRIPTS = None


def parse_anchor(name):
    """independent lexical parse of an anchor name -> (isMark, key, number)"""
    number = 0
    key = name
    m = _LIGNUM.search(name)
    if m:
        num = m.group(1)
        k = name[: -len(num)]
        if k.endswith("_"):
            key = k[:-1]
            number = int(num)
    is_mark = name.startswith("_") and bool(key) and number == 0 and len(key) > 1
    if is_mark:
        key = key[1:]
    if name.startswith("_") and number and key == "":
        return False, "", number
    return is_mark, key, number


def mark_record(case, f2, tid):
    from ufo2ft.constants import INDIC_SCRIPTS, USE_SCRIPTS

    abvm_scripts = set(INDIC_SCRIPTS) | set(USE_SCRIPTS) | {"Khmr"}
    order = f2.getGlyphOrder()
    props = otproject.glyph_properties(f2)
    F = {"gpos": otproject.gpos(f2), "gdef": otproject.gdef(f2)}
    ufo = case["ufo"]
    cats = (ufo.get("lib") or {}).get("public.openTypeCategories", {})
    glyphs = []
    for n in order:
        g = ufo["glyphs"].get(n)
        anchors = []
        for a in (g or {}).get("anchors", []):
            is_mark, key, num = parse_anchor(a["n"])
            if key and not key[0].isalpha():
                continue
            if a["n"].startswith("*"):
                continue
            anchors.append({"name": a["n"], "key": key, "num": num, "isMark": is_mark, "x": a["x"] * 4 // 1024, "y": a["y"] * 4 // 1024})
        glyphs.append({"cat": cats.get(n, ""), "abvm": bool(set(props[n]["scripts"]) & abvm_scripts), "anchors": anchors,
                       "scripts": props[n]["scripts"], "bidi": props[n]["bidi"], "sc": props[n]["sc"]})
    tags = []
    for s in F["gpos"]["scripts"]:
        sc = otproject.script_of_tag(s["tag"])
        tags.append({"tag": s["tag"], "script": sc, "rtl": otproject.script_is_rtl(sc)})
    rec = {"tid": tid, "n": len(order), "order": order, "glyphs": glyphs, "q": int(case.get("q", 1)),
           "hasCats": bool(cats), "tags": tags, "F": F}
    # inputs of the writer model (specs/MarkWriter.tla): the two orders the writer sorts anchor classes by, its grouping
    # option, and whether this font lies in the model's domain (distinct anchor names per glyph, no contextual anchors, no
    # hand-written mark features / mark classes / GDEF block, static compile)
    keys = sorted({a["key"] for g in glyphs for a in g["anchors"] if a["key"]})
    rec["keysByKey"] = keys
    rec["keysByClass"] = sorted(keys, key=lambda k: re.sub(r"[^A-Za-z0-9._]", "", "MC_" + k))
    rec["group"] = bool((case.get("markOpts") or {}).get("groupMarkClasses", False))
    fea = ufo.get("fea") or ""
    modelled = not case.get("var") and not re.search(r"markClass|feature\s+(mark|mkmk|abvm|blwm)\b|table\s+GDEF", fea)
    for n in order:
        names = [a["n"] for a in (ufo["glyphs"].get(n) or {}).get("anchors", [])]
        if len(set(names)) != len(names) or any(x.startswith("*") for x in names):
            modelled = False
    rec["model"] = bool(modelled)
    return rec


def ltr_glyphs(f2, extra=None):
    """Glyphs of left-to-right scripts the way the cursive writer classifies them: Script property of the
    code point, closed over GSUB (and over the designspace rule substitutions `extra`: {glyph: {replacements}})
    together with the direction-neutral glyphs."""
    from fontTools import subset, unicodedata

    cmap = f2.getBestCmap() or {}
    ltr, neutral = set(), set()
    for cp, g in cmap.items():
        sc = unicodedata.script(chr(cp))
        if sc in ("Zyyy", "Zinh"):
            neutral.add(g)
        elif unicodedata.script_horizontal_direction(sc, "LTR") == "LTR":
            ltr.add(g)
    has_gsub = "GSUB" in f2 and f2["GSUB"].table.LookupList
    if not has_gsub and not extra:
        return ltr

    def close(gl):
        cur = set(gl)
        while True:
            new = set(cur)
            if has_gsub:
                s = subset.Subsetter()
                s.glyphs = set(new)
                f2["GSUB"].closure_glyphs(s)
                new = set(s.glyphs)
            for a, bs in (extra or {}).items():
                if a in new:
                    new |= set(bs)
            if new == cur:
                return cur
            cur = new

    n = close(neutral) if neutral else set()
    return close(ltr | n) - n if ltr else set()


def gdefcurs_record(case, f2, tid, extra=None):
    order = f2.getGlyphOrder()
    gid = {n: i for i, n in enumerate(order)}
    F = {"gpos": otproject.gpos(f2), "gdef": otproject.gdef(f2)}
    ufo = case["ufo"]
    cats = (ufo.get("lib") or {}).get("public.openTypeCategories", {})
    ltr = ltr_glyphs(f2, extra)
    all_anchor_names = {a["n"] for n in order if n in ufo["glyphs"] for a in ufo["glyphs"][n].get("anchors", [])}
    pairs = []
    if "entry" in all_anchor_names and "exit" in all_anchor_names:
        pairs.append("-")
    for an in all_anchor_names:
        if an.startswith("entry.") and "exit." + an[6:] in all_anchor_names:
            pairs.append(an[6:])
    glyphs = []
    for n in order:
        g = ufo["glyphs"].get(n, {"anchors": []})
        carets = []
        curs = {}
        for a in g.get("anchors", []):
            nm = a["n"]
            if nm.startswith("caret_"):
                carets.append(a["x"] * 4 // 1024)
            elif nm.startswith("vcaret_"):
                carets.append(a["y"] * 4 // 1024)
            elif nm == "entry" or nm.startswith("entry.") or nm == "exit" or nm.startswith("exit."):
                kind, _, suf = nm.partition(".")
                c = curs.setdefault(suf or "-", {"pair": suf or "-", "suffix": "RTL" if suf.endswith("RTL") else "LTR" if suf.endswith("LTR") else "",
                                                 "hasEntry": False, "ex": 0, "ey": 0, "hasExit": False, "xx": 0, "xy": 0})
                if kind == "entry" and not c["hasEntry"]:
                    c.update(hasEntry=True, ex=a["x"] * 4 // 1024, ey=a["y"] * 4 // 1024)
                elif kind == "exit" and not c["hasExit"]:
                    c.update(hasExit=True, xx=a["x"] * 4 // 1024, xy=a["y"] * 4 // 1024)
        glyphs.append({"cat": cats.get(n, ""), "ltr": n in ltr, "carets": carets, "curs": list(curs.values())})
    uc = case.get("userClasses")
    user_classes = []
    if uc:
        for n in uc["base"]:
            if n in gid:
                user_classes.append([gid[n], 1])
        for n in uc["mark"]:
            if n in gid:
                user_classes.append([gid[n], 3])
    ucar = case.get("userCarets") or {}
    return {"tid": tid, "n": len(order), "order": order, "glyphs": glyphs, "pairs": pairs, "userDefinesClasses": bool(uc),
            "userClasses": user_classes, "userDefinesCarets": bool(ucar),
            "userCarets": [[gid[n], [list(v) for v in vals]] for n, vals in sorted(ucar.items()) if n in gid],
            "userDefinesCurs": False, "F": F}
