"""Compile fonts with generated features and project GPOS / GDEF + the UFO-side reference data."""
import io

from . import absfont, otproject, project


def _writers(case):
    from ufo2ft.featureWriters import CursFeatureWriter, GdefFeatureWriter, KernFeatureWriter, MarkFeatureWriter
    from ufo2ft.featureWriters.kernFeatureWriter2 import KernFeatureWriter as KernFeatureWriter2

    w = case.get("writers", "default")
    q = case.get("q", 1)
    if w == "default":
        return None
    kern = KernFeatureWriter2 if case.get("writer") == "kern2" else KernFeatureWriter
    ws = []
    for name in w:
        if name == "kern":
            ws.append(kern(quantization=q, **(case.get("kernOpts") or {})))
        elif name == "mark":
            ws.append(MarkFeatureWriter(quantization=q, **(case.get("markOpts") or {})))
        elif name == "curs":
            ws.append(CursFeatureWriter())
        elif name == "gdef":
            ws.append(GdefFeatureWriter())
    return ws


def compile_layout(case, flavor="tt"):
    import ufo2ft

    font = absfont.build_font(case["ufo"], case.get("lib", "ufoLib2"))
    fn = ufo2ft.compileTTF if flavor == "tt" else ufo2ft.compileOTF
    kw = dict(case.get("kwargs") or {})
    kw.setdefault("useProductionNames", False)
    ws = _writers(case)
    if ws is not None:
        kw["featureWriters"] = ws
    dbg = io.StringIO()
    kw["debugFeatureFile"] = dbg
    otf = fn(font, **kw)
    data, f2 = project.save_reload(otf)
    return f2, dbg.getvalue(), data


def kern_record(case, f2, tid):
    order = f2.getGlyphOrder()
    gid = {n: i for i, n in enumerate(order)}
    props = otproject.glyph_properties(f2)
    F = {"gpos": otproject.gpos(f2), "gdef": otproject.gdef(f2)}
    ufo = case["ufo"]

    def key(k, side):
        prefix = "public.kern1." if side == 1 else "public.kern2."
        if k.startswith(prefix):
            return {"c": k}
        return {"g": gid.get(k, -1)}

    kerning = [{"l": key(l, 1), "r": key(r, 2), "v": int(v)} for l, r, v in ufo.get("kerning", [])]
    groups = []
    for name, members in ufo.get("groups", []):
        side = 1 if name.startswith("public.kern1.") else 2 if name.startswith("public.kern2.") else 0
        if side:
            groups.append({"name": name, "side": side, "members": [gid.get(m, -1) for m in members]})
    tags = []
    for s in F["gpos"]["scripts"]:
        sc = otproject.script_of_tag(s["tag"])
        sc = otproject.ALIASES.get(sc, sc)
        tags.append({"tag": s["tag"], "script": sc, "rtl": otproject.script_is_rtl(sc)})
    return {"tid": tid, "n": len(order), "order": order, "glyphs": [props[n] for n in order], "kerning": kerning, "groups": groups,
            "q": int(case.get("q", 1)), "tags": tags, "F": F}


import re

_LIGNUM = re.compile(r".*?(\d+)$")
ABVM_SCRIPTS = None


def parse_anchor(name):
    """independent lexical parse of an anchor name -> (isMark, key, number)"""
    number = 0
    key = name
    m = _LIGNUM.match(name)
    if m:
        num = m.group(1)
        k = name[: -len(num)] if name.endswith(num) else name
        k = name.rstrip(num)
        if k.endswith("_"):
            key = k[:-1]
            number = int(num)
    is_mark = name.startswith("_") and bool(key) and number == 0 and len(key) > 1
    if is_mark:
        key = key[1:]
    if name.startswith("_") and number and key == "":
        return False, "", number
    return is_mark, key, number


def mark_record(case, f2, tid):
    from ufo2ft.constants import INDIC_SCRIPTS, USE_SCRIPTS

    abvm_scripts = set(INDIC_SCRIPTS) | set(USE_SCRIPTS) | {"Khmr"}
    order = f2.getGlyphOrder()
    props = otproject.glyph_properties(f2)
    F = {"gpos": otproject.gpos(f2), "gdef": otproject.gdef(f2)}
    ufo = case["ufo"]
    cats = (ufo.get("lib") or {}).get("public.openTypeCategories", {})
    glyphs = []
    for n in order:
        g = ufo["glyphs"].get(n)
        anchors = []
        for a in (g or {}).get("anchors", []):
            is_mark, key, num = parse_anchor(a["n"])
            if key and not key[0].isalpha():
                continue
            if a["n"].startswith("*"):
                continue
            anchors.append({"name": a["n"], "key": key, "num": num, "isMark": is_mark, "x": a["x"] * 4 // 1024, "y": a["y"] * 4 // 1024})
        glyphs.append({"cat": cats.get(n, ""), "abvm": bool(set(props[n]["scripts"]) & abvm_scripts), "anchors": anchors,
                       "scripts": props[n]["scripts"], "bidi": props[n]["bidi"], "sc": props[n]["sc"]})
    tags = []
    for s in F["gpos"]["scripts"]:
        sc = otproject.script_of_tag(s["tag"])
        tags.append({"tag": s["tag"], "script": sc, "rtl": otproject.script_is_rtl(sc)})
    return {"tid": tid, "n": len(order), "order": order, "glyphs": glyphs, "q": int(case.get("q", 1)),
            "hasCats": bool(cats), "tags": tags, "F": F}
