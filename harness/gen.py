"""Random generators over the exact domain (DESIGN.md 4.1). All values are scaled integers."""
import random

from .absfont import MS, PS, Inexact, check_exact_domain

Q = PS // 4  # quarter unit

# 2x2 palettes at scale MS (xx, xy, yx, yy)
M_IDENT = [64, 0, 0, 64]
PALETTE = [
    M_IDENT,
    M_IDENT,
    [128, 0, 0, 128],      # scale 2
    [32, 0, 0, 32],        # scale 1/2
    [-64, 0, 0, 64],       # mirror x   (det < 0)
    [64, 0, 0, -64],       # mirror y   (det < 0)
    [0, 64, -64, 0],       # rotate 90
    [64, 0, 32, 64],       # shear
    [96, 0, 0, 32],        # non-uniform 1.5 x 0.5
    [-32, 0, 0, -32],      # point reflection, det > 0
    [0, 64, 64, 0],        # swap axes (det < 0)
    [96, 0, 0, 96],        # 1.5
]
PALETTE_TT = [m for m in PALETTE]  # all |e| < 2 except scale 2 == 2.0 (clamped by glyf) -> handled by caller

NAMES = ["a", "b", "c", "d", "e", "f", "g", "h", "k", "m"]


def coord(rng, lo=-300, hi=300):
    """A k/4 value (scaled) with ties over-represented, both signs."""
    base = rng.randint(lo, hi) * PS
    r = rng.random()
    if r < 0.35:
        return base + PS // 2        # x.5 tie (for negative base: -x + .5 -> tie as well)
    if r < 0.45:
        return base + PS // 4
    if r < 0.55:
        return base + 3 * PS // 4
    return base


def contour(rng, kind=None):
    kind = kind or rng.choice(["line", "line", "cubic", "quad", "mixed"])
    pts = []
    n = rng.randint(3, 5)
    if kind == "line":
        for _ in range(n):
            pts.append([coord(rng), coord(rng), "line"])
    elif kind == "cubic":
        for k in range(rng.randint(2, 3)):
            pts.append([coord(rng), coord(rng), "curve" if k else "line"])
            if True:
                pts.append([coord(rng), coord(rng), "off"])
                pts.append([coord(rng), coord(rng), "off"])
        # rotate so the contour starts with an on-curve and the off-curves precede a "curve" point
        pts = _fix_types(pts, "curve")
    elif kind == "quad":
        for k in range(rng.randint(2, 3)):
            pts.append([coord(rng), coord(rng), "qcurve"])
            for _ in range(rng.randint(1, 2)):
                pts.append([coord(rng), coord(rng), "off"])
        pts = _fix_types(pts, "qcurve")
    else:
        pts.append([coord(rng), coord(rng), "line"])
        pts.append([coord(rng), coord(rng), "line"])
        pts.append([coord(rng), coord(rng), "off"])
        pts.append([coord(rng), coord(rng), "off"])
        pts.append([coord(rng), coord(rng), "curve"])
        pts = _fix_types(pts, "curve")
    return pts


def _fix_types(pts, curve_type):
    """Make segment types consistent for a closed contour: an on-curve point preceded (cyclically) by
    off-curve points has type `curve_type`, otherwise "line"."""
    n = len(pts)
    out = []
    for i, (x, y, t) in enumerate(pts):
        if t == "off":
            out.append([x, y, "off"])
        else:
            prev = pts[(i - 1) % n]
            out.append([x, y, curve_type if prev[2] == "off" else "line"])
    return out


def component(rng, base, palette=PALETTE, offsets=True):
    m = list(rng.choice(palette))
    if offsets and rng.random() < 0.8:
        d = [rng.randint(-160, 160) * Q * rng.choice([1, 1, 2, 4]), rng.randint(-160, 160) * Q * rng.choice([1, 2, 4])]
    else:
        d = [0, 0]
    return {"b": base, "m": m, "d": d}


ANCHOR_NAMES = ["top", "bottom", "_top", "_bottom", "ogonek", "top_1", "top_2"]


def glyphset(rng, nmin=3, nmax=7, max_depth=3, palette=PALETTE, kinds=None, anchors=True, mixed=True,
             unicodes=False, tries=200):
    """Random acyclic glyph set in the exact domain: dict name -> abstract glyph."""
    for _ in range(tries):
        n = rng.randint(nmin, nmax)
        names = rng.sample(NAMES, n)
        glyphs = {}
        depth = {}
        for idx, name in enumerate(names):
            g = {"cs": [], "comps": [], "anchors": [], "w": coord(rng, 0, 700), "h": 0, "u": []}
            earlier = [m for m in names[:idx] if depth[m] < max_depth]
            r = rng.random()
            make_comps = earlier and r < 0.6
            make_contours = (not make_comps) or (mixed and rng.random() < 0.3)
            if idx == 0 or (make_contours and rng.random() < 0.95):
                for _k in range(rng.randint(1, 2)):
                    g["cs"].append(contour(rng, rng.choice(kinds) if kinds else None))
            elif not make_comps and rng.random() < 0.5:
                pass  # empty glyph
            if make_comps:
                for _k in range(rng.randint(1, 3)):
                    g["comps"].append(component(rng, rng.choice(earlier), palette))
            depth[name] = 1 + max(depth[c["b"]] for c in g["comps"]) if g["comps"] else 0
            if anchors and rng.random() < 0.5:
                for an in rng.sample(ANCHOR_NAMES, rng.randint(1, 2)):
                    g["anchors"].append({"n": an, "x": coord(rng), "y": coord(rng)})
            if unicodes and rng.random() < 0.7:
                g["u"] = [0x41 + idx]
            glyphs[name] = g
        try:
            check_exact_domain(glyphs)
        except Inexact:
            continue
        return glyphs
    raise RuntimeError("could not generate an exact-domain glyph set")


def subset(rng, names, p=0.5):
    return sorted(n for n in names if rng.random() < p)


def perturb_master(rng, glyphs, palette=PALETTE, change_2x2=0.15, drop=0.0):
    """A point-compatible second master: same structure, moved points / offsets / widths.
    With probability `change_2x2` one component gets a different 2x2 (incompatible for TrueType).
    With probability `drop` per glyph the glyph is left out (sparse master)."""
    import copy

    for _ in range(100):
        out = {}
        for name, g in glyphs.items():
            if drop and rng.random() < drop and g["cs"]:
                continue
            h = copy.deepcopy(g)
            for c in h["cs"]:
                for p in c:
                    p[0] += rng.randint(-40, 40) * Q
                    p[1] += rng.randint(-40, 40) * Q
            for c in h["comps"]:
                c["d"][0] += rng.randint(-40, 40) * Q
                c["d"][1] += rng.randint(-40, 40) * Q
                if rng.random() < change_2x2:
                    # keep the orientation: a component mirrored in one master only is not a compatible family
                    sign = (c["m"][0] * c["m"][3] - c["m"][1] * c["m"][2]) > 0
                    same = [m for m in palette if ((m[0] * m[3] - m[1] * m[2]) > 0) == sign]
                    c["m"] = list(rng.choice(same))
            for a in h["anchors"]:
                a["x"] += rng.randint(-40, 40) * Q
                a["y"] += rng.randint(-40, 40) * Q
            h["w"] = max(0, h["w"] + rng.randint(-80, 80) * Q)
            out[name] = h
        try:
            check_exact_domain(out)
        except Inexact:
            continue
        return out
    raise RuntimeError("could not perturb")


# ---------------------------------------------------------------------------------------------
# "rich" UFOs: glyphs with code points, anchors, kerning, groups, features -- used by the purity,
# layout and variable-font checks.

LATIN = [("A", 0x41), ("B", 0x42), ("V", 0x56), ("o", 0x6F), ("a", 0x61), ("e", 0x65), ("period", 0x2E), ("one", 0x31)]
MARKS = [("acutecomb", 0x301), ("gravecomb", 0x300), ("dotbelowcomb", 0x323)]


def _box(x0, y0, w, h):
    return [[x0 * PS, y0 * PS, "line"], [(x0 + w) * PS, y0 * PS, "line"], [(x0 + w) * PS, (y0 + h) * PS, "line"],
            [x0 * PS, (y0 + h) * PS, "line"]]


def _blob(rng, x0, y0):
    c = [[x0 * PS, y0 * PS, "line"], [(x0 + 100) * PS, y0 * PS, "line"],
         [(x0 + 160) * PS + PS // 2, (y0 + 40) * PS, "off"], [(x0 + 160) * PS, (y0 + 120) * PS, "off"],
         [(x0 + 100) * PS, (y0 + 200) * PS, "curve"], [x0 * PS, (y0 + 200) * PS + PS // 2, "line"]]
    return c


def rich_ufo(rng, kerning=True, anchors=True, features=True, composites=True, family="Test Family", style="Regular"):
    glyphs = {}
    order = []
    for name, cp in LATIN:
        g = {"cs": [_blob(rng, rng.randint(10, 60), 0) if rng.random() < 0.6 else _box(rng.randint(10, 60), 0, rng.randint(100, 300), rng.randint(300, 700))],
             "comps": [], "anchors": [], "w": rng.randint(300, 700) * PS + rng.choice([0, PS // 2]), "h": 0, "u": [cp]}
        if anchors and name in ("A", "o", "a", "e"):
            g["anchors"].append({"n": "top", "x": rng.randint(100, 300) * PS + rng.choice([0, PS // 2]), "y": rng.randint(500, 750) * PS})
            g["anchors"].append({"n": "bottom", "x": rng.randint(100, 300) * PS, "y": -rng.randint(0, 50) * PS})
        glyphs[name] = g
        order.append(name)
    for name, cp in MARKS:
        g = {"cs": [_box(-80, 550 if name != "dotbelowcomb" else -150, 60, 60)], "comps": [], "anchors": [], "w": 0, "h": 0, "u": [cp]}
        if anchors:
            if name == "dotbelowcomb":
                g["anchors"].append({"n": "_bottom", "x": -50 * PS, "y": -60 * PS})
            else:
                g["anchors"].append({"n": "_top", "x": -50 * PS + rng.choice([0, PS // 2]), "y": 540 * PS})
                g["anchors"].append({"n": "top", "x": -50 * PS, "y": 700 * PS})
        glyphs[name] = g
        order.append(name)
    if composites:
        glyphs["aacute"] = {"cs": [], "comps": [{"b": "a", "m": [64, 0, 0, 64], "d": [0, 0]},
                                               {"b": "acutecomb", "m": [64, 0, 0, 64], "d": [rng.randint(200, 300) * PS, rng.randint(0, 20) * PS]}],
                            "anchors": [], "w": glyphs["a"]["w"], "h": 0, "u": [0xE1]}
        glyphs["a.alt"] = {"cs": [_box(20, 0, 200, 400)], "comps": [], "anchors": [], "w": 450 * PS, "h": 0, "u": []}
        # the same base twice (a colon made of two periods)
        glyphs["colon"] = {"cs": [], "comps": [{"b": "period", "m": [64, 0, 0, 64], "d": [0, rng.randint(250, 350) * PS]},
                                               {"b": "period", "m": [64, 0, 0, 64], "d": [0, 0]}],
                           "anchors": [], "w": glyphs["period"]["w"], "h": 0, "u": [0x3A]}
        order += ["aacute", "a.alt", "colon"]
    ufo = {"glyphs": glyphs, "order": order,
           "info": {"unitsPerEm": 1000, "ascender": 800, "descender": -200, "xHeight": 500, "capHeight": 700,
                    "familyName": family, "styleName": style}}
    if kerning:
        ufo["groups"] = [["public.kern1.O", ["o", "e"]], ["public.kern2.O", ["o", "e"]], ["public.kern1.A", ["A"]],
                         ["public.kern2.A", ["A", "a"]]]
        ufo["kerning"] = [["A", "V", -rng.randint(20, 90) * 4 - 2], ["V", "public.kern2.O", -rng.randint(10, 60) * 4],
                          ["public.kern1.O", "public.kern2.A", rng.randint(-30, 30) * 4 + 1], ["V", "period", -80 * 4],
                          ["public.kern1.O", "V", -30 * 4], ["one", "one", 20 * 4],
                          # exceptions at two precedence levels
                          ["V", "o", rng.randint(5, 30) * 4], ["o", "A", -rng.randint(5, 30) * 4 + 2], ["e", "public.kern2.A", 44]]
        ufo["kernScale"] = 4
    if features:
        ufo["fea"] = ("languagesystem DFLT dflt;\nlanguagesystem latn dflt;\n"
                      + ("feature ss01 { sub a by a.alt; } ss01;\n" if composites else ""))
    return ufo


def rich_family(rng, n_masters=2, axes=1, **kw):
    """Compatible 2-3 master family on a 'Weight' axis (and optionally 'Width')."""
    # (a base whose perturbations cannot be kept inside the exact domain is drawn again: this only happens where the call
    #  used to fail, so the random streams of all other cases stay what they were)
    for _attempt in range(20):
        try:
            return _rich_family(rng, n_masters, axes, **kw)
        except RuntimeError:
            continue
    raise RuntimeError("could not build a family")


def _rich_family(rng, n_masters=2, axes=1, **kw):
    base = rich_ufo(rng, style="Regular", **kw)
    masters = [{"loc": {"Weight": 400}, "ufo": base, "name": "Regular"}]
    locs = [{"Weight": 700}] if n_masters == 2 else [{"Weight": 700}, {"Weight": 550}]
    import copy

    for k, loc in enumerate(locs):
        m = copy.deepcopy(base)
        m["glyphs"] = perturb_master(rng, base["glyphs"], change_2x2=0.0)
        m["info"]["styleName"] = f"Bold{k}"
        if "colon" in m["glyphs"] and rng.random() < 0.4:
            # the upper dot is enlarged in this master only (a 2x2 that differs between masters cannot be kept as a component)
            # (which of the two: decided by a value drawn earlier, so that no further random draw is consumed)
            m["glyphs"]["colon"]["comps"][(base["glyphs"]["colon"]["comps"][0]["d"][1] // PS) % 2]["m"] = [80, 0, 0, 80]
        if "kerning" in m:
            m["kerning"] = [[l, r, v + rng.randint(-20, 20) * 4] for l, r, v in m["kerning"]]
            if rng.random() < 0.6 and len(m["kerning"]) > 2:
                # a pair present in some masters only; preferably an exception, so that the DS+UFO fallback matters
                exc = [i for i, e in enumerate(m["kerning"]) if (e[0], e[1]) in (("V", "o"), ("o", "A"), ("e", "public.kern2.A"))]
                m["kerning"].pop(rng.choice(exc) if exc and rng.random() < 0.7 else rng.randrange(len(m["kerning"])))
            if rng.random() < 0.15:
                m["kerning"] = []          # a full master that kerns nothing: every pair is 0 there
        masters.append({"loc": loc, "ufo": m, "name": f"Bold{k}"})
    if len(masters) == 3:
        # any listing order of the sources (the default need not come first) ...
        rng.shuffle(masters)
        # ... and non-monotonic values: the first- and last-listed masters agree on some kerning values / anchors while the
        # one listed between them differs
        if rng.random() < 0.6:
            a, c = masters[0]["ufo"], masters[2]["ufo"]
            ka = {(l, r): v for l, r, v in a.get("kerning", [])}
            c["kerning"] = [[l, r, ka.get((l, r), v) if rng.random() < 0.6 else v] for l, r, v in c.get("kerning", [])]
            for n, g in c["glyphs"].items():
                if rng.random() < 0.5 and n in a["glyphs"] and len(g["anchors"]) == len(a["glyphs"][n]["anchors"]):
                    g["anchors"] = copy.deepcopy(a["glyphs"][n]["anchors"])
    fam = {"axes": [{"name": "Weight", "tag": "wght", "min": 400, "default": 400, "max": 700}], "masters": masters}
    return fam


def class_kerning_family(rng, n=13):
    """Two masters with n x n sparse class kerning (few non-zero pairs per row): GPOS table compaction
    (fontTools.otlLib.optimize.gpos:COMPRESSION_LEVEL) then really changes the PairPos subtables."""
    import copy

    glyphs, order, groups, kerning = {}, [], [], []
    for i in range(n):
        for side, base in (("l", 0x41), ("r", 0x61)):
            nm = f"{side}{i}"
            glyphs[nm] = {"cs": [_box(20, 0, 200 + 5 * i, 400)], "comps": [], "anchors": [], "w": (400 + 10 * i) * PS, "h": 0, "u": [base + i]}
            order.append(nm)
        groups.append([f"public.kern1.L{i}", [f"l{i}"]])
        groups.append([f"public.kern2.R{i}", [f"r{i}"]])
    for i in range(n):
        for j in {i, (i * 3 + 1) % n, (i + 5) % n}:
            kerning.append([f"public.kern1.L{i}", f"public.kern2.R{j}", -(10 + (i * 7 + j * 3) % 60) * 4])
    base = {"glyphs": glyphs, "order": order, "info": {"unitsPerEm": 1000, "ascender": 800, "descender": -200, "familyName": "Compact", "styleName": "Regular"},
            "groups": groups, "kerning": kerning, "kernScale": 4, "fea": "languagesystem DFLT dflt;\nlanguagesystem latn dflt;\n"}
    bold = copy.deepcopy(base)
    bold["info"]["styleName"] = "Bold"
    bold["kerning"] = [[l, r, v - 8 * (k % 3)] for k, (l, r, v) in enumerate(kerning)]
    for g in bold["glyphs"].values():
        g["w"] += 40 * PS
    return {"axes": [{"name": "Weight", "tag": "wght", "min": 400, "default": 400, "max": 700}],
            "masters": [{"loc": {"Weight": 400}, "ufo": base, "name": "Regular"}, {"loc": {"Weight": 700}, "ufo": bold, "name": "Bold"}]}
