"""Building designspace documents (in memory or on disk) from abstract master families."""
import os

from fontTools.designspaceLib import (AxisDescriptor, DesignSpaceDocument, InstanceDescriptor, RuleDescriptor,
                                      SourceDescriptor)

from . import absfont


def build_designspace(family, lib="ufoLib2"):
    """family: {"axes": [{"name","tag","min","default","max", "map": [[u, d]...]}],
                "masters": [{"loc": {axisName: value}, "ufo": abstract ufo, "layer": None|layerName, "name": str}],
                "instances": [...], "rules": [...], "lib": {...}}
    A master with "layer" set shares the font object of master index "of" (sparse layer master)."""
    ds = DesignSpaceDocument()
    for a in family["axes"]:
        if a.get("values") is not None:
            # a discrete axis: each of its values is an interpolable sub-space of its own
            from fontTools.designspaceLib import DiscreteAxisDescriptor

            ax = DiscreteAxisDescriptor()
            ax.name, ax.tag = a["name"], a["tag"]
            ax.values, ax.default = list(a["values"]), a["default"]
            ds.addAxis(ax)
            continue
        ax = AxisDescriptor()
        ax.name, ax.tag = a["name"], a["tag"]
        ax.minimum, ax.default, ax.maximum = a["min"], a["default"], a["max"]
        if a.get("map"):
            ax.map = [tuple(m) for m in a["map"]]
        ds.addAxis(ax)
    fonts = []
    for k, m in enumerate(family["masters"]):
        s = SourceDescriptor()
        if m.get("layer"):
            font = fonts[m["of"]]
            s.layerName = m["layer"]
        else:
            font = absfont.build_font(m["ufo"], lib)
        fonts.append(font)
        s.font = font
        s.location = dict(m["loc"])
        s.name = m.get("name", f"master_{k}")
        s.familyName = (m.get("ufo") or {}).get("info", {}).get("familyName", "Test")
        s.styleName = (m.get("ufo") or {}).get("info", {}).get("styleName", f"M{k}")
        ds.addSource(s)
    for k, inst in enumerate(family.get("instances", [])):
        i = InstanceDescriptor()
        i.location = dict(inst["loc"])
        i.familyName = inst.get("familyName", "Test")
        i.styleName = inst.get("styleName", f"I{k}")
        i.name = f"instance_{k}"
        ds.addInstance(i)
    for r in family.get("rules", []):
        rd = RuleDescriptor()
        rd.name = r["name"]
        rd.conditionSets = [[dict(c) for c in cs] for cs in r["conditionSets"]]
        rd.subs = [tuple(s) for s in r["subs"]]
        ds.addRule(rd)
    for k, v in (family.get("lib") or {}).items():
        ds.lib[k] = v
    for vf in family.get("variableFonts", []):
        from fontTools.designspaceLib import RangeAxisSubsetDescriptor, ValueAxisSubsetDescriptor, VariableFontDescriptor

        # "subsets": {axisName: {"min", "default", "max"} (each optional) | {"value": v}}; axes not named span their range
        subs = []
        for a in family["axes"]:
            sp = (vf.get("subsets") or {}).get(a["name"])
            if sp is None and a.get("values") is not None:
                continue        # (a discrete axis left out of the subsets: the variable font sits at the axis default)
            if sp is None:
                subs.append(RangeAxisSubsetDescriptor(name=a["name"]))
            elif "value" in sp:
                subs.append(ValueAxisSubsetDescriptor(name=a["name"], userValue=sp["value"]))
            else:
                kw = {}
                if "min" in sp:
                    kw["userMinimum"] = sp["min"]
                if "max" in sp:
                    kw["userMaximum"] = sp["max"]
                if "default" in sp:
                    kw["userDefault"] = sp["default"]
                subs.append(RangeAxisSubsetDescriptor(name=a["name"], **kw))
        d = VariableFontDescriptor(name=vf["name"], axisSubsets=subs)
        d.lib = dict(vf.get("lib") or {})
        ds.addVariableFont(d)
    return ds


def save_designspace(ds, directory, lib="ufoLib2"):
    """Write the sources as UFOs + a .designspace; return the path (for disk round trips)."""
    os.makedirs(directory, exist_ok=True)
    seen = {}
    for k, s in enumerate(ds.sources):
        if id(s.font) not in seen:
            path = os.path.join(directory, f"m{k}.ufo")
            s.font.save(path, overwrite=True) if lib == "ufoLib2" else s.font.save(path)
            seen[id(s.font)] = path
        s.path = seen[id(s.font)]
        s.filename = os.path.basename(s.path)
    p = os.path.join(directory, "family.designspace")
    ds.write(p)
    return p


def load_designspace(path, lib="ufoLib2"):
    mod = absfont.ufo_module(lib)
    ds = DesignSpaceDocument.fromfile(path)
    cache = {}
    for s in ds.sources:
        if s.path not in cache:
            cache[s.path] = mod.Font.open(s.path) if hasattr(mod.Font, "open") else mod.Font(s.path)
        s.font = cache[s.path]
    return ds


def open_font(path, lib="ufoLib2"):
    mod = absfont.ufo_module(lib)
    return mod.Font.open(path) if hasattr(mod.Font, "open") else mod.Font(path)
