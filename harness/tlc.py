"""Running TLC: design checks, case generation and batch trace validation."""
import json
import os
import re
import shutil
import subprocess
import tempfile
import time
from concurrent.futures import ThreadPoolExecutor

VERIF = os.path.dirname(os.path.dirname(os.path.abspath(__file__)))
SPECS = os.path.join(VERIF, "specs")
BUILD = os.path.join(VERIF, "build")
TLA_CP = "/opt/veriftools/tla/tla2tools.jar:/opt/veriftools/tla/CommunityModules-deps.jar"


class TLCError(Exception):
    pass


def _errtext(out, err="", limit=2500):
    """the informative part of a TLC output: from the first error marker on"""
    for marker in ("***Parse Error***", "Semantic errors", "Error:", "Exception"):
        k = out.find(marker)
        if k >= 0:
            return out[max(0, k - 200): k + limit] + "\n" + err[-800:]
    return out[-limit:] + "\n" + err[-800:]


def _java(args, env=None, timeout=None, heap="2g"):
    cmd = ["java", "-XX:+UseParallelGC", f"-Xmx{heap}", "-cp", TLA_CP, "tlc2.TLC"] + args
    e = dict(os.environ)
    if env:
        e.update(env)
    t0 = time.time()
    try:
        p = subprocess.run(cmd, cwd=SPECS, env=e, capture_output=True, text=True, timeout=timeout)
    except subprocess.TimeoutExpired as ex:
        out = ex.stdout.decode() if isinstance(ex.stdout, bytes) else (ex.stdout or "")
        return {"rc": -9, "out": out, "err": "timeout", "wall": time.time() - t0, "timeout": True}
    return {"rc": p.returncode, "out": p.stdout, "err": p.stderr, "wall": time.time() - t0, "timeout": False}


def _metadir(tag):
    d = os.path.join(BUILD, "tlc", f"{tag}-{os.getpid()}-{time.time_ns()}")
    os.makedirs(d, exist_ok=True)
    return d


_STATES = re.compile(r"(\d+) states generated, (\d+) distinct states found")
_INV = re.compile(r"Invariant (\S+) is violated")
_PROP = re.compile(r"(?:Action|Temporal) propert(?:y|ies) (\S+)? ?(?:is|were) violated")


def model_check(module, cfg, workers=8, timeout=600, env=None, coverage=False, heap="4g", simulate=None,
                depth=None, seed=None):
    """Exhaustive (or simulated) design check. Returns dict(ok, states, distinct, violated, out, wall)."""
    md = _metadir(module)
    args = ["-workers", str(workers), "-metadir", md, "-noGenerateSpecTE", "-config", cfg]
    if coverage:
        args += ["-coverage", "1"]
    if simulate:
        args += ["-simulate", f"num={simulate}"]
        if depth:
            args += ["-depth", str(depth)]
        if seed is not None:
            args += ["-seed", str(seed)]
    args.append(module)
    r = _java(args, env=env, timeout=timeout, heap=heap)
    shutil.rmtree(md, ignore_errors=True)
    out = r["out"]
    res = {"out": out, "wall": r["wall"], "timeout": r["timeout"], "rc": r["rc"], "violated": None,
           "states": 0, "distinct": 0, "ok": False}
    m = None
    for m in _STATES.finditer(out):
        pass
    if m:
        res["states"], res["distinct"] = int(m.group(1)), int(m.group(2))
    mi = _INV.search(out)
    if mi:
        res["violated"] = mi.group(1)
    elif "is violated" in out or "was violated" in out:
        res["violated"] = "property"
    if r["timeout"]:
        res["error"] = "timeout"
        return res
    if "Model checking completed. No error has been found." in out or (simulate and r["rc"] == 0):
        res["ok"] = True
    elif res["violated"] is None:
        res["error"] = _errtext(out, r["err"])
    return res


def parse_printed(out, head):
    """Extract TLA+ values printed with PrintT(<<"head", ...>>) -- returns the raw text of each tuple."""
    res = []
    key = re.compile(r'<<\s*"' + re.escape(head) + '"')
    i = 0
    n = len(out)
    while True:
        mm = key.search(out, i)
        if not mm:
            break
        j = mm.start()
        depth = 0
        k = j
        in_str = False
        while k < n:
            ch = out[k]
            if in_str:
                if ch == "\\":
                    k += 1
                elif ch == '"':
                    in_str = False
            elif ch == '"':
                in_str = True
            elif out.startswith("<<", k):
                depth += 1
                k += 1
            elif out.startswith(">>", k):
                depth -= 1
                k += 1
                if depth == 0:
                    break
            k += 1
        res.append(out[j:k + 1])
        i = k + 1
    return res


def _tla_strings(tup):
    """split a printed tuple <<"A", "b", 3, "c">> into python values (strings / ints only)."""
    inner = tup.strip()[2:-2]
    vals = []
    for m in re.finditer(r'"((?:[^"\\]|\\.)*)"|(-?\d+)|(TRUE|FALSE)', inner):
        if m.group(1) is not None:
            vals.append(m.group(1).replace('\\"', '"').replace("\\\\", "\\"))
        elif m.group(2) is not None:
            vals.append(int(m.group(2)))
        else:
            vals.append(m.group(3) == "TRUE")
    return vals


def generate(module, cfg, timeout=900, workers=1, env=None):
    """Run a *_gen config; yield the JSON payload of every PrintT(<<"CASE", ToJson(x)>>) line."""
    md = _metadir(module + "-gen")
    args = ["-workers", str(workers), "-metadir", md, "-noGenerateSpecTE", "-config", cfg, module]
    r = _java(args, env=env, timeout=timeout, heap="4g")
    shutil.rmtree(md, ignore_errors=True)
    if r["timeout"] or "No error has been found" not in r["out"]:
        raise TLCError(f"generator {module}/{cfg} failed:\n{r['out'][-3000:]}\n{r['err'][-1000:]}")
    cases = []
    for tup in parse_printed(r["out"], "CASE"):
        vals = _tla_strings(tup)
        cases.append(json.loads(vals[1]))
    m = None
    for m in _STATES.finditer(r["out"]):
        pass
    stats = {"states": int(m.group(1)) if m else 0, "distinct": int(m.group(2)) if m else 0, "wall": r["wall"]}
    return cases, stats


def _validate_shard(module, cfg, path, timeout, extra_env):
    md = _metadir(module + "-trace")
    args = ["-workers", "1", "-metadir", md, "-noGenerateSpecTE", "-config", cfg, module]
    env = {"TRACE_FILE": path}
    if extra_env:
        env.update(extra_env)
    r = _java(args, env=env, timeout=timeout, heap="3g")
    shutil.rmtree(md, ignore_errors=True)
    return r


def validate(module, cfg, records, shards=8, timeout=900, tag=None, extra_env=None, keep=False, group_key=None):
    """Batch trace validation.

    `records`: list of JSON-serialisable dicts, each with a unique "tid". The trace module prints one
    <<"VERDICT", tid, firstFailingPropertyClause, firstFailingModelClause>> per record.
    Returns (verdicts: {tid: (pfail, mfail)}, stats). Raises TLCError on machinery failure (missing
    verdicts, TLC crash) -- never a silent pass.
    """
    if not records:
        return {}, {"states": 0, "distinct": 0, "wall": 0.0, "shards": 0}
    rundir = os.path.join(BUILD, "run", f"{tag or module}-{os.getpid()}-{time.time_ns()}")
    os.makedirs(rundir, exist_ok=True)
    shards = max(1, min(shards, len(records)))
    if group_key:
        # records of one group stay together (and in order) in one shard
        groups = {}
        for rec in records:
            groups.setdefault(rec[group_key], []).append(rec)
        shards = max(1, min(shards, len(groups)))
        parts = [[] for _ in range(shards)]
        for k, g in enumerate(sorted(groups)):
            parts[k % shards].extend(groups[g])
    else:
        parts = [records[s::shards] for s in range(shards)]
    paths = []
    for s in range(shards):
        part = parts[s]
        p = os.path.join(rundir, f"shard{s}.ndjson")
        with open(p, "w") as f:
            for rec in part:
                f.write(json.dumps(rec, separators=(",", ":")) + "\n")
        paths.append((p, part))
    t0 = time.time()
    with ThreadPoolExecutor(max_workers=shards) as ex:
        results = list(ex.map(lambda pp: _validate_shard(module, cfg, pp[0], timeout, extra_env), paths))
    verdicts = {}
    states = distinct = 0
    for (p, part), r in zip(paths, results):
        if r["timeout"]:
            raise TLCError(f"trace validation timed out on {p}")
        for tup in parse_printed(r["out"], "VERDICT"):
            vals = _tla_strings(tup)
            verdicts[vals[1]] = (vals[2], vals[3]) + tuple(vals[4:])
        m = None
        for m in _STATES.finditer(r["out"]):
            pass
        if m:
            states += int(m.group(1))
            distinct += int(m.group(2))
        missing = [rec["tid"] for rec in part if rec["tid"] not in verdicts]
        if missing:
            raise TLCError(
                f"{module}: {len(missing)} traces without verdict in {p} (first: {missing[0]}):\n"
                + _errtext(r["out"], r["err"])
            )
    stats = {"states": states, "distinct": distinct, "wall": time.time() - t0, "shards": shards, "rundir": rundir}
    if not keep:
        shutil.rmtree(rundir, ignore_errors=True)
    return verdicts, stats


def sany(module):
    cmd = ["java", "-cp", TLA_CP, "tla2sany.SANY", module]
    p = subprocess.run(cmd, cwd=SPECS, capture_output=True, text=True)
    ok = p.returncode == 0 and "error" not in p.stdout.lower().replace("errors: 0", "")
    return ok, p.stdout + p.stderr
