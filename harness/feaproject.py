"""Projection of feature-file text to the abstract statement sequence of FeaFile.tla."""
import io
import re

from fontTools.feaLib import ast
from fontTools.feaLib.parser import Parser

MARKER = re.compile(r"\s*# Automatic Code.*")
MARKER_I = re.compile(r"\s*# Automatic Code.*", re.IGNORECASE)


def parse(text, glyph_names):
    return Parser(io.StringIO(text), glyphNames=set(glyph_names), followIncludes=False).parse()


def _norm(s):
    return re.sub(r"\s+", " ", s.strip())


def project(text, glyph_names):
    """-> list of top-level statements: {"kind", "tag", "t", "body": [{"k", "t"[, "c"]}]}"""
    doc = parse(text or "", glyph_names)
    out = []
    for st in doc.statements:
        if isinstance(st, ast.Comment):
            if not str(st).strip():
                continue
            out.append({"kind": "comment", "tag": "", "t": _norm(str(st)), "body": []})
        elif isinstance(st, ast.FeatureBlock):
            body = []
            for s in st.statements:
                if isinstance(s, ast.Comment):
                    txt = str(s)
                    if not txt.strip():
                        continue
                    if MARKER.match(txt):
                        body.append({"k": "marker", "t": _norm(txt)})
                    elif MARKER_I.match(txt):
                        body.append({"k": "miscased", "t": _norm(txt)})
                    else:
                        body.append({"k": "comment", "t": _norm(txt)})
                else:
                    body.append({"k": "rule", "t": _norm(s.asFea())})
            out.append({"kind": "feature", "tag": st.name, "t": "", "body": body})
        elif isinstance(st, ast.TableBlock):
            body = []
            for s in st.statements:
                if isinstance(s, ast.Comment):
                    continue
                body.append({"k": "rule", "t": _norm(s.asFea()), "c": type(s).__name__})
            out.append({"kind": "table", "tag": st.name, "t": "", "body": body})
        else:
            kind = type(st).__name__
            out.append({"kind": kind, "tag": getattr(st, "name", "") if isinstance(getattr(st, "name", ""), str) else "",
                        "t": _norm(st.asFea()), "body": []})
    return out
