"""Abstract font model <-> UFO objects (defcon and ufoLib2), in the exact domain.

Abstract glyph (all integers / strings, see DESIGN.md Appendix C):
  {"cs": [[[x, y, t], ...], ...], "comps": [{"b": name, "m": [xx, xy, yx, yy], "d": [dx, dy]}],
   "anchors": [{"n": name, "x": x, "y": y}], "w": width, "h": height, "u": [codepoints]}
  x, y, dx, dy, w, h at scale PS = 1024; m at scale MS = 64;
  t in "line" | "curve" | "qcurve" | "off" | "move".
"""
from fractions import Fraction

PS = 1024
MS = 64
INT_LIMIT = 2 ** 31 - 1


class Inexact(Exception):
    pass


def to_scaled(v, scale):
    """Exact conversion of a python number to an integer at `scale`; raises Inexact."""
    f = Fraction(v) * scale
    if f.denominator != 1:
        raise Inexact(f"{v!r} is not a multiple of 1/{scale}")
    n = int(f)
    if abs(n) > INT_LIMIT // 256:
        raise Inexact(f"{v!r} too large at scale {scale}")
    return n


def from_scaled(n, scale):
    """Scaled integer -> python number (int when integral, else exactly representable float)."""
    if n % scale == 0:
        return n // scale
    return n / scale


def abs_glyph(glyph):
    cs = []
    for contour in glyph:
        pts = []
        for p in _points(contour):
            t = p.segmentType if p.segmentType is not None else "off"
            pts.append([to_scaled(p.x, PS), to_scaled(p.y, PS), t])
        cs.append(pts)
    comps = []
    for c in glyph.components:
        tr = tuple(c.transformation)
        comps.append(
            {
                "b": c.baseGlyph,
                "m": [to_scaled(v, MS) for v in tr[:4]],
                "d": [to_scaled(v, PS) for v in tr[4:]],
            }
        )
    anchors = [
        {"n": a.name or "", "stem": _stem(a.name or ""), "x": to_scaled(a.x, PS), "y": to_scaled(a.y, PS)}
        for a in glyph.anchors
    ]
    return {
        "cs": cs,
        "comps": comps,
        "anchors": anchors,
        "w": to_scaled(glyph.width or 0, PS),
        "h": to_scaled(glyph.height or 0, PS),
        "u": [int(u) for u in glyph.unicodes],
    }


def _stem(name):
    """anchor name without a numbered-ligature suffix (top_2 -> top)"""
    import re

    return re.sub(r"_\d+$", "", name)


def _points(contour):
    # defcon contours iterate points; ufoLib2 contours have .points
    pts = getattr(contour, "points", None)
    if pts is not None and not callable(pts):
        return list(pts)
    return list(contour)


def abs_glyphset(glyphSet):
    return {name: abs_glyph(glyphSet[name]) for name in sorted(glyphSet.keys())}


def ufo_module(lib):
    if lib == "defcon":
        import defcon

        return defcon
    import ufoLib2

    return ufoLib2


def new_font(lib):
    return ufo_module(lib).Font()


def draw_abs_glyph(glyph, g):
    """Fill UFO glyph object `glyph` from abstract glyph `g`."""
    glyph.width = from_scaled(g.get("w", 0), PS)
    if g.get("h", 0):
        glyph.height = from_scaled(g["h"], PS)
    if g.get("u"):
        glyph.unicodes = list(g["u"])
    pen = glyph.getPointPen()
    for contour in g.get("cs", []):
        pen.beginPath()
        for x, y, t in contour:
            pen.addPoint((from_scaled(x, PS), from_scaled(y, PS)), segmentType=None if t == "off" else t)
        pen.endPath()
    for c in g.get("comps", []):
        tr = tuple(from_scaled(v, MS) for v in c["m"]) + tuple(from_scaled(v, PS) for v in c["d"])
        pen.addComponent(c["b"], tr)
    for a in g.get("anchors", []):
        # ("xf" / "yf": a raw decimal coordinate outside the dyadic domain, for checks that compare bytes rather than values)
        d = {"name": a["n"], "x": a["xf"] if "xf" in a else from_scaled(a["x"], PS),
             "y": a["yf"] if "yf" in a else from_scaled(a["y"], PS)}
        if a.get("id"):
            d["identifier"] = a["id"]        # (keys the anchor's entry in the glyph's public.objectLibs)
        glyph.appendAnchor(d)


def build_font(case, lib="ufoLib2"):
    """Build a Font from an abstract `ufo` case (dict)."""
    font = new_font(lib)
    order = case.get("glyphNames") or list(case["glyphs"].keys())
    for name in order:
        g = case["glyphs"][name]
        glyph = font.newGlyph(name)
        draw_abs_glyph(glyph, g)
        if g.get("lib"):
            glyph.lib.update(g["lib"])
    for layerName, glyphs in (case.get("layers") or {}).items():
        layer = font.newLayer(layerName)
        for name, g in glyphs.items():
            glyph = layer.newGlyph(name)
            draw_abs_glyph(glyph, g)
    info = case.get("info") or {}
    for k, v in info.items():
        setattr(font.info, k, v)
    if "order" in case and case["order"] is not None:
        font.lib["public.glyphOrder"] = list(case["order"])
    for l, r, v in case.get("kerning", []):
        font.kerning[(l, r)] = from_scaled(v, 4) if case.get("kernScale", 4) == 4 else v
    for name, members in case.get("groups", []):
        font.groups[name] = list(members)
    if case.get("fea"):
        font.features.text = case["fea"]
    for k, v in (case.get("lib") or {}).items():
        font.lib[k] = v
    return font


# ---------------------------------------------------------------------------------------------
# exact reference used ONLY as a domain guard (is every intermediate value representable?) and
# for debugging the specification; verdicts always come from TLC.

def _comp_tr(c):
    return tuple(Fraction(v, MS) for v in c["m"]) + tuple(Fraction(v, PS) for v in c["d"])


def _compose(o, i):
    # apply i first, then o  (== Transform(*o).transform(i))
    xx1, xy1, yx1, yy1, dx1, dy1 = i
    xx2, xy2, yx2, yy2, dx2, dy2 = o
    return (
        xx1 * xx2 + xy1 * yx2,
        xx1 * xy2 + xy1 * yy2,
        yx1 * xx2 + yy1 * yx2,
        yx1 * xy2 + yy1 * yy2,
        xx2 * dx1 + yx2 * dy1 + dx2,
        xy2 * dx1 + yy2 * dy1 + dy2,
    )


def check_exact_domain(glyphs, max_depth=6):
    """Raise Inexact unless every composed transform and every resolved coordinate of the glyph
    set is representable at the model's integer scales with products below 2**31."""

    def walk(name, tr, depth):
        if depth > max_depth:
            raise Inexact("too deep or cyclic")
        g = glyphs.get(name)
        if g is None:
            return
        for v in tr[:4]:
            n = v * MS
            if n.denominator != 1 or abs(n) > 512:
                raise Inexact(f"composed matrix entry {v}")
        for v in tr[4:]:
            n = v * PS
            if n.denominator != 1 or abs(n) > 2 ** 20:
                raise Inexact(f"composed offset {v}")
        for contour in g["cs"]:
            for x, y, _t in contour:
                X, Y = Fraction(x, PS), Fraction(y, PS)
                nx = tr[0] * X + tr[2] * Y + tr[4]
                ny = tr[1] * X + tr[3] * Y + tr[5]
                for v in (nx, ny):
                    n = v * PS
                    if n.denominator != 1 or abs(n) > 2 ** 20 or abs(x) > 2 ** 20 or abs(y) > 2 ** 20:
                        raise Inexact(f"resolved coordinate {v}")
        for a in g.get("anchors", []):
            X, Y = Fraction(a["x"], PS), Fraction(a["y"], PS)
            for v in (tr[0] * X + tr[2] * Y + tr[4], tr[1] * X + tr[3] * Y + tr[5]):
                if (v * PS).denominator != 1:
                    raise Inexact(f"anchor {v}")
        for c in g["comps"]:
            walk(c["b"], _compose(tr, _comp_tr(c)), depth + 1)

    ident = (Fraction(1), Fraction(0), Fraction(0), Fraction(1), Fraction(0), Fraction(0))
    for name in glyphs:
        walk(name, ident, 0)
    return True
