"""Installs the ufo2ft._verif tracer and turns hook calls into abstract trace events."""
import contextlib

from . import absfont, snapshot


class _Probe:
    """Dummy glyph for classifying include predicates."""

    def __init__(self, n, comps=0):
        self.name = "__verif_probe__"
        self._n = n
        self.components = [object()] * comps
        self.width = 0
        self.anchors = []
        self.unicodes = []

    def __len__(self):
        return self._n


def classify_include(flt, glyphSet):
    inc = getattr(flt, "include", None)
    if inc is None:
        return {"kind": "all"}
    try:
        e, n = bool(inc(_Probe(0, 1))), bool(inc(_Probe(1, 1)))
    except Exception:
        e = n = None
    names = None
    try:
        names = sorted(k for k in glyphSet.keys() if inc(glyphSet[k]))
    except Exception:
        names = None
    if e is True and n is True and names is not None and len(names) == len(glyphSet):
        return {"kind": "all"}
    if e is False and n is True:
        return {"kind": "hasContours"}
    return {"kind": "names", "names": names or []}


def filter_name(flt):
    n = type(flt).__name__
    for suf in ("IFilter", "Filter"):
        if n.endswith(suf):
            return n[: -len(suf)]
    return n


class Tracer:
    def __init__(self, sources=None, designspace=None, snap=True, glyphsets=True):
        self.events = []
        self.sources = sources or []
        self.designspace = designspace
        self.snap = snap
        self.glyphsets = glyphsets
        self.baseline = self._snapshot() if snap else None
        self.inexact = None
        self.inexact_events = 0

    def _snapshot(self):
        s = {}
        for i, f in enumerate(self.sources):
            for k, v in snapshot.font_snapshot(f).items():
                s[f"src{i}:{k}"] = v
        if self.designspace is not None:
            s.update(snapshot.designspace_snapshot(self.designspace))
        return s

    def src_state(self):
        if not self.snap:
            return {"srcSame": True, "srcDiff": []}
        cur = self._snapshot()
        d = snapshot.diff(self.baseline, cur)
        return {"srcSame": not d, "srcDiff": d[:6]}

    def _gs(self, glyphSet):
        if not self.glyphsets:
            return None
        try:
            return absfont.abs_glyphset(glyphSet)
        except absfont.Inexact as e:
            self.inexact_events += 1
            return None

    def __call__(self, event, f):
        ev = {"ev": event}
        if event in ("PreStart", "Preprocessed"):
            ev["gs"] = self._gs(f["glyphSet"])
            if ev["gs"] is None and not self.glyphsets:
                ev["nogs"] = True
        elif event == "Filter":
            flt = f["filter"]
            ev["name"] = filter_name(flt)
            ev["inc"] = classify_include(flt, f["glyphSet"])
            opts = {}
            o = getattr(flt, "options", None)
            if o is not None:
                for k, v in vars(o).items():
                    if isinstance(v, (int, str, bool)):
                        opts[k] = v
                    elif isinstance(v, (set, frozenset, list, tuple)):
                        opts[k] = sorted(str(x) for x in v)
            ev["options"] = opts
            ev["gs"] = self._gs(f["glyphSet"])
        elif event in ("FilterCall", "IFilterCall"):
            ev["name"] = filter_name(f["filter"])
            ev["modified"] = sorted(f["modified"] or [])
        elif event in ("IPreStart", "IPreprocessed", "Cu2QuI", "IFilter"):
            gss = f["glyphSets"]
            ev["gss"] = [self._gs(g) for g in gss]
            ev["fontIds"] = [id(x) for x in (f.get("fonts") or [])]
            if event == "IFilter":
                ev["name"] = filter_name(f["filter"])
                ev["modified"] = sorted(f["modified"] or [])
        elif event in ("Outlines", "Features", "Postprocessed"):
            otf = f.get("otf")
            ev["order"] = list(otf.getGlyphOrder()) if otf is not None else []
            ev["tables"] = sorted(otf.keys()) if otf is not None else []
            if "layerName" in f:
                ev["layerName"] = f["layerName"] or ""
        elif event in ("PostCFF", "Renamed"):
            otf = f.get("otf")
            ev["order"] = list(otf.getGlyphOrder())
        elif event == "Writer":
            w = f["writer"]
            ev["cls"] = type(w).__name__
            ev["mode"] = getattr(w, "mode", "")
            ev["tableTag"] = getattr(w, "tableTag", "")
            comp = f.get("compiler")
            if comp is not None:
                if not hasattr(self, "_keep"):
                    self._keep = []
                self._keep.append(comp)          # (kept alive so that ids are not reused within one trace)
            ev["compilerId"] = id(comp) if comp is not None else 0
            try:
                ev["fea"] = f["feaFile"].asFea()
            except Exception as e:  # pragma: no cover
                ev["fea"] = f"<asFea failed: {e}>"
        elif event in ("OptsSaved", "OptsRestored", "Merged", "VarFeatures"):
            c = f.get("compiler")
            if c is not None:
                ev["comp"] = {
                    "useProductionNames": repr(c.useProductionNames),
                    "postProcessorClass": getattr(c.postProcessorClass, "__name__", repr(c.postProcessorClass)),
                    "skipFeatureCompilation": bool(c.skipFeatureCompilation),
                    "ftConfig": snapshot.sha({str(k): repr(v) for k, v in (c.ftConfig or {}).items()}),
                }
        for k in ("gs",):
            if k in ev and ev[k] is None:
                del ev[k]
        ev.update(self.src_state())
        self.events.append(ev)


@contextlib.contextmanager
def tracing(sources=None, designspace=None, snap=True, glyphsets=True):
    from ufo2ft import _verif

    t = Tracer(sources, designspace, snap=snap, glyphsets=glyphsets)
    _verif.set_tracer(t)
    try:
        yield t
    finally:
        _verif.set_tracer(None)
