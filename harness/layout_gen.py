"""Generators of multi-script fonts with kerning / anchors for the layout checks (C05, C06, C18, C20)."""
import random

from . import absfont
from .absfont import MS, PS

# (glyph name, code point or None)
REPERTOIRE = {
    "latin": [("A", 0x41), ("a", 0x61), ("b", 0x62), ("V", 0x56)],
    "cyrl": [("a-cy", 0x430), ("be-cy", 0x431)],
    "grek": [("alpha", 0x3B1), ("beta", 0x3B2)],
    "arab": [("alef-ar", 0x627), ("beh-ar", 0x628), ("lam-ar", 0x644)],
    "hebr": [("alef-hb", 0x5D0), ("bet-hb", 0x5D1)],
    "deva": [("ka-deva", 0x915), ("kha-deva", 0x916)],
    "lao": [("ko-lao", 0xE81), ("kho-lao", 0xE82)],
    "kana": [("a-hira", 0x3042), ("ka-kata", 0x30AB)],
    "armn": [("ayb-arm", 0x531), ("ben-arm", 0x532)],
    "geor": [("an-geor", 0x10D0), ("ban-geor", 0x10D1)],
    "digits": [("one", 0x31), ("two", 0x32), ("one-ar", 0x661)],
    "punct": [("period", 0x2E), ("comma", 0x2C), ("hyphen", 0x2D), ("space", 0x20)],
    "marks": [("acutecomb", 0x301), ("gravecomb", 0x300), ("fatha-ar", 0x64E)],
    # script-specific glyphs with a NEUTRAL bidi class (points / marks whose Script property is Hebrew / Arabic)
    "rtlneutral": [("hiriq-hb", 0x5B4), ("dagesh-hb", 0x5BC), ("alefabove-ar", 0x670), ("qamats-hb", 0x5B8)],
    "unencoded": [("a.alt", None), ("x.alt", None), ("period.alt", None), ("alef-ar.fina", None)],
    # scripts encoded above U+FFFF (the compiled font then carries a BMP-only and a full cmap subtable)
    "osge": [("a-osage", 0x104B0), ("ai-osage", 0x104B1)],
    "dsrt": [("longi-deseret", 0x10400), ("longe-deseret", 0x10401)],
    "adlm": [("alif-adlam", 0x1E900), ("daali-adlam", 0x1E901)],
}


def box(x0=50, y0=0, w=200, h=400):
    return [[x0 * PS, y0 * PS, "line"], [(x0 + w) * PS, y0 * PS, "line"], [(x0 + w) * PS, (y0 + h) * PS, "line"], [x0 * PS, (y0 + h) * PS, "line"]]


def repertoire(rng, nmin=6, nmax=14, force=None):
    classes = list(REPERTOIRE)
    chosen = set(force or [])
    chosen |= set(rng.sample([c for c in classes if c not in ("unencoded", "marks", "rtlneutral")], rng.randint(2, 5)))
    if rng.random() < 0.3:
        chosen.add("rtlneutral")
    if rng.random() < 0.6:
        chosen.add("unencoded")
    if rng.random() < 0.4:
        chosen.add("marks")
    glyphs = []
    for c in classes:
        if c in chosen:
            items = REPERTOIRE[c]
            glyphs += rng.sample(items, rng.randint(1, len(items)))
    rng.shuffle(glyphs)
    glyphs = glyphs[:nmax]
    return glyphs


def chain_kerning_font(rng, writer="kern1"):
    """Four or more left-to-right scripts whose mixed-script kern1 groups CHAIN the script buckets of the kern writer
    ({A,B}, {C,D}, {B,C} in a random dictionary order), plus in-script pairs for every script."""
    scripts = rng.sample(["latin", "cyrl", "grek", "armn", "geor"], rng.choice([4, 4, 5]))
    gl = []
    for sc in scripts:
        gl += REPERTOIRE[sc][:2]
    gl.append(("period", 0x2E))
    names = [n for n, _ in gl]
    glyphs = {n: {"cs": [box()], "comps": [], "anchors": [], "w": rng.randint(300, 700) * PS, "h": 0, "u": [cp]} for n, cp in gl}
    first = {sc: REPERTOIRE[sc][0][0] for sc in scripts}
    second = {sc: REPERTOIRE[sc][1][0] for sc in scripts}
    links = [(scripts[k], scripts[k + 1]) for k in range(len(scripts) - 1)]
    rng.shuffle(links)
    # put the two outer links first and the linking ones after them as often as not
    if rng.random() < 0.6:
        links.sort(key=lambda ab: (scripts.index(ab[0]) % 2, rng.random()))
    groups, entries = [], []
    used = set()
    for k, (a, b) in enumerate(links):
        members = [m for m in (first[a], first[b]) if m not in used]
        if len(members) < 2:
            members = [m for m in (first[a], first[b], second[a], second[b]) if m not in used][:2]
        if len(members) < 2:
            continue
        used |= set(members)
        groups.append({"name": f"public.kern1.x{k}", "side": 1, "members": members})
        entries.append([f"public.kern1.x{k}", second[rng.choice([a, b])], rng.choice([-80, -40, 40, 60, -20])])
    for sc in scripts:
        if rng.random() < 0.7:
            entries.append([second[sc], first[sc], rng.choice([-30, 24, 10, -50]) * 4])
    rng.shuffle(entries) if rng.random() < 0.3 else None
    fea = ""
    if rng.random() < 0.5:
        tags = {"latin": "latn", "cyrl": "cyrl", "grek": "grek", "armn": "armn", "geor": "geor"}
        fea = "\n".join(["languagesystem DFLT dflt;"] + [f"languagesystem {tags[sc]} dflt;" for sc in scripts])
    ufo = {"glyphs": glyphs, "order": names, "glyphNames": names,
           "info": {"unitsPerEm": 1000, "ascender": 800, "descender": -200, "familyName": "KernChain", "styleName": "Regular"},
           "kerning": entries, "kernScale": 4, "groups": [[g["name"], g["members"]] for g in groups], "fea": fea, "lib": {}}
    return {"ufo": ufo, "q": 1, "groupsAbs": groups, "writer": writer}


def chain_pairs_font(rng, k):
    """Four or five left-to-right scripts, every one declared by a languagesystem statement and carrying attaching anchors;
    plain glyph-to-glyph kerning pairs that straddle two scripts chain the scripts together, listed in EVERY relative order
    over the cases (k): two disjoint links first and the bridging link last, the bridge first, a star, ..."""
    import itertools

    tags = {"latin": "latn", "cyrl": "cyrl", "grek": "grek", "armn": "armn", "geor": "geor"}
    scripts = rng.sample(sorted(tags), 4 if k % 3 else 5)
    if k % 4 == 1:
        # one of the scripts lives in a supplementary plane
        sup = {"osge": "osge", "dsrt": "dsrt", "adlm": "adlm"}
        extra = sorted(sup)[(k // 4) % 3]
        tags = dict(tags, **sup)
        scripts[(k // 4) % len(scripts)] = extra
    gl = []
    for sc in scripts:
        gl += REPERTOIRE[sc][:2]
    gl += [("period", 0x2E), ("acutecomb", 0x301)]
    names = [n for n, _ in gl]
    glyphs = {}
    for n, cp in gl:
        mark = n == "acutecomb"
        anchors = [{"n": "_top", "x": 0, "y": 500 * PS}] if mark else ([] if n == "period" else [{"n": "top", "x": rng.randint(100, 300) * PS, "y": 600 * PS}])
        glyphs[n] = {"cs": [box()], "comps": [], "anchors": anchors, "w": (0 if mark else 500) * PS, "h": 0, "u": [cp]}
    first = {sc: REPERTOIRE[sc][0][0] for sc in scripts}
    second = {sc: REPERTOIRE[sc][1][0] for sc in scripts}
    links = [(scripts[j], scripts[j + 1]) for j in range(len(scripts) - 1)]
    perms = list(itertools.permutations(links))
    links = list(perms[k % len(perms)])
    entries = []
    for a, b in links:
        l, r = (first[a], second[b]) if (k // len(perms)) % 2 == 0 else (second[b], first[a])
        entries.append([l, r, rng.choice([-80, -40, 40, 60]) * 4 // 4 * 4])
    own = [[second[sc], first[sc], rng.choice([-30, 24, 10, -50]) * 4] for sc in scripts if rng.random() < 0.5]
    # in-script pairs before, after, or not at all
    entries = {0: entries, 1: own + entries, 2: entries + own}[k % 3]
    fea = "\n".join(["languagesystem DFLT dflt;"] + [f"languagesystem {tags[sc]} dflt;" for sc in scripts])
    ufo = {"glyphs": glyphs, "order": names, "glyphNames": names,
           "info": {"unitsPerEm": 1000, "ascender": 800, "descender": -200, "familyName": "PairChain", "styleName": "Regular"},
           "kerning": entries, "kernScale": 4, "groups": [], "fea": fea, "lib": {}}
    return {"ufo": ufo, "q": 1, "groupsAbs": [], "writer": "kern1", "declared": ["DFLT"] + [tags[sc] for sc in scripts]}


def rtl_inherited_font(rng, k, writer="kern1"):
    """Hebrew (or Arabic) letters kerned against combining marks whose Script property is Inherited ONLY (U+0327, U+0335,
    U+20D0 -- no script extensions) on the SECOND side: as a glyph key, as a member of a kern2 group next to a genuine
    Hebrew point, and in a glyph-to-group exception."""
    heb = k % 3 != 2
    letters = [("alef-hb", 0x5D0), ("bet-hb", 0x5D1), ("gimel-hb", 0x5D2)] if heb else [("alef-ar", 0x627), ("beh-ar", 0x628), ("lam-ar", 0x644)]
    point = ("hiriq-hb", 0x5B4) if heb else ("alefabove-ar", 0x670)
    inh = [("cedillacomb", 0x327), ("strokeshortcomb", 0x335), ("harpoonleftcomb", 0x20D0)]
    inh = inh[k % 3:] + inh[:k % 3]
    gl = letters + [point] + inh[:2] + [("period", 0x2E)]
    names = [n for n, _ in gl]
    glyphs = {n: {"cs": [box()], "comps": [], "anchors": [], "w": (0 if (n.endswith("comb") or n == point[0]) else rng.randint(300, 600)) * PS,
                  "h": 0, "u": [cp]} for n, cp in gl}
    a, b, c = (n for n, _ in letters)
    m1, m2 = inh[0][0], inh[1][0]
    groups = [{"name": "public.kern1.H", "side": 1, "members": [b, c]}, {"name": "public.kern2.M", "side": 2, "members": [m1, point[0]]}]
    v = lambda: rng.choice([-30, -40, -50, 24]) * 4  # noqa
    entries = [[a, m1, v()], ["public.kern1.H", "public.kern2.M", v()], [c, "public.kern2.M", v()], [a, "period", 20 * 4], [a, m2, v()],
               [a, point[0], v()]]
    lib = {}
    if k % 2:
        lib["public.openTypeCategories"] = {n: ("mark" if glyphs[n]["w"] == 0 else "base") for n in names}
    fea = "languagesystem DFLT dflt;\nlanguagesystem %s dflt;" % ("hebr" if heb else "arab") if k % 4 < 2 else ""
    ufo = {"glyphs": glyphs, "order": names, "glyphNames": names,
           "info": {"unitsPerEm": 1000, "ascender": 800, "descender": -200, "familyName": "RtlInherited", "styleName": "Regular"},
           "kerning": entries, "kernScale": 4, "groups": [[g["name"], g["members"]] for g in groups], "fea": fea, "lib": lib}
    return {"ufo": ufo, "q": 1, "groupsAbs": groups, "writer": writer}


def kerning_font(rng, writer="kern1", lang_first=False):
    """abstract ufo + kerning description; values at scale 4 (quarter units).
    lang_first: Latin + marks, a non-default language of 'latn' declared before (or without) its default language system,
    attaching anchors so that the mark writer creates every declared language system."""
    if not lang_first and rng.random() < 0.2:
        return chain_kerning_font(rng, writer)
    neutral_alt = not lang_first and rng.random() < 0.25
    gl = repertoire(rng, force=["latin", "arab"] if neutral_alt else (["latin", "marks"] if lang_first else None))
    if neutral_alt:
        # both directions in one font and an unencoded alternate that is reachable only from a NEUTRAL glyph
        for item in (("period", 0x2E), ("period.alt", None)):
            if item not in gl:
                gl.append(item)
    names = [n for n, _ in gl]
    glyphs = {}
    for n, cp in gl:
        is_mark = n in ("acutecomb", "gravecomb", "fatha-ar", "hiriq-hb", "dagesh-hb", "alefabove-ar", "qamats-hb")
        glyphs[n] = {"cs": [box()], "comps": [], "anchors": [], "w": (0 if is_mark and rng.random() < 0.7 else rng.randint(200, 700)) * PS,
                     "h": 0, "u": [cp] if cp else []}
    fea = []
    # language systems
    r = rng.random()
    langs = []
    if r < 0.5:
        langs.append(("DFLT", "dflt"))
        for tag, cls in (("latn", "latin"), ("cyrl", "cyrl"), ("grek", "grek"), ("arab", "arab"), ("hebr", "hebr"), ("dev2", "deva"), ("kana", "kana")):
            if any(n in names for n, _ in REPERTOIRE[cls]) and rng.random() < 0.7:
                mine = [(tag, "dflt")]
                extra_l = {"latn": ["TRK ", "ROM "], "arab": ["URD "], "cyrl": ["SRB "]}.get(tag, [])
                for lg in extra_l:
                    if rng.random() < 0.3:
                        mine.append((tag, lg))
                # a script's default language system need not be declared first -- or at all
                if len(mine) > 1 and rng.random() < 0.4:
                    mine = mine[1:] + ([mine[0]] if rng.random() < 0.6 else [])
                langs += mine
    if lang_first:
        langs = [("DFLT", "dflt"), ("latn", "TRK ")] + ([("latn", "dflt")] if rng.random() < 0.6 else [])
    fea += [f"languagesystem {t} {l};" for t, l in langs]
    # GSUB alternates
    subs = []
    for alt, base in (("a.alt", "a"), ("period.alt", "period"), ("alef-ar.fina", "alef-ar")):
        if alt in names and base in names and (rng.random() < 0.8 or (neutral_alt and alt == "period.alt")):
            subs.append(f"sub {base} by {alt};")
    if "x.alt" in names and rng.random() < 0.4:
        srcs = [n for n in ("a", "a-cy", "one") if n in names]
        for s in srcs[:2]:
            subs.append(f"sub {s} by x.alt;") if False else None
    if subs:
        fea.append("feature ss01 {\n " + "\n ".join(subs) + "\n} ss01;")
    marks = [n for n in names if n in ("acutecomb", "gravecomb", "fatha-ar", "hiriq-hb", "dagesh-hb", "alefabove-ar", "qamats-hb")]
    lib = {}
    if marks and rng.random() < 0.7:
        cats = {n: "mark" for n in marks}
        for n in names:
            if n not in cats and rng.random() < 0.5:
                cats[n] = "base"
        lib["public.openTypeCategories"] = cats
    # groups: disjoint partitions per side
    groups = []
    for side, prefix in ((1, "public.kern1."), (2, "public.kern2.")):
        pool = list(names)
        rng.shuffle(pool)
        k = 0
        while pool and k < 3 and rng.random() < 0.8:
            size = rng.randint(1, min(3, len(pool)))
            members = [pool.pop() for _ in range(size)]
            if rng.random() < 0.2:
                members.append(f"missing.glyph{side}{k}")      # a member that is not in the font (once per side: UFO groups are disjoint)
            groups.append({"name": f"{prefix}g{k}", "side": side, "members": members})
            k += 1
    if rng.random() < 0.15:
        groups.append({"name": "public.kern1.empty", "side": 1, "members": ["missing.other"]})
    # kerning entries
    g1 = [g["name"] for g in groups if g["side"] == 1]
    g2 = [g["name"] for g in groups if g["side"] == 2]
    vals = [-80, -40, -10, -2, 0, 0, 2, 10, 50, 10, 25, -25, 30, -50, 6, -6]  # quarter units -> -20 .. 12.5 etc (ties)
    tie_vals = [10, -10, 50, -50, 30, 2, -2]  # 2.5, -2.5, 12.5, -12.5, 7.5, .5, -.5
    entries = {}
    for _ in range(rng.randint(2, 9)):
        l = rng.choice(names + g1 + g1 + ["missing.glyph"]) if g1 else rng.choice(names)
        r_ = rng.choice(names + g2 + g2 + ["missing.glyph"]) if g2 else rng.choice(names)
        v = rng.choice(vals + tie_vals) * rng.choice([1, 1, 4, 4, 8])
        entries[(l, r_)] = v
    if neutral_alt:
        for other in rng.sample([n for n in names if n != "period.alt"], min(3, len(names) - 1)):
            entries[("period.alt", other) if rng.random() < 0.5 else (other, "period.alt")] = rng.choice([48, -36, 100])
    # pairs among the neutral-bidi glyphs of right-to-left scripts (mark against mark)
    rn = [n for n in names if n in ("hiriq-hb", "dagesh-hb", "alefabove-ar", "qamats-hb")]
    for a_ in rn:
        for b_ in rn:
            if rng.random() < 0.5:
                entries[(a_, b_)] = rng.choice([100, -72, 60])
    # exceptions at every precedence level for one class pair
    if g1 and g2 and rng.random() < 0.6:
        cl, cr = rng.choice(g1), rng.choice(g2)
        ml = [m for g in groups if g["name"] == cl for m in g["members"] if m in names]
        mr = [m for g in groups if g["name"] == cr for m in g["members"] if m in names]
        entries[(cl, cr)] = rng.choice([-120, 80, -44])
        if ml:
            entries[(rng.choice(ml), cr)] = rng.choice([0, 40, -22])
        if mr:
            entries[(cl, rng.choice(mr))] = rng.choice([0, 16, -90])
        if ml and mr:
            entries[(rng.choice(ml), rng.choice(mr))] = rng.choice([0, -4, 200])
    ufo = {"glyphs": glyphs, "order": names, "glyphNames": names,
           "info": {"unitsPerEm": 1000, "ascender": 800, "descender": -200, "familyName": "KernTest", "styleName": "Regular"},
           "kerning": [[l, r_, v] for (l, r_), v in entries.items()], "kernScale": 4,
           "groups": [[g["name"], g["members"]] for g in groups], "fea": "\n".join(fea), "lib": lib}
    q = rng.choice([1, 1, 1, 5, 10, 2, 4])
    res = {"ufo": ufo, "q": q, "groupsAbs": groups, "writer": writer}
    # sometimes the font also has attaching anchors and the mark writer runs too: the generated mark feature then creates
    # every declared language system, whether or not kerning is registered there
    marks_ = [n for n in names if n in ("acutecomb", "gravecomb", "fatha-ar")]
    bases_ = [n for n in names if n not in marks_ and glyphs[n]["u"]]
    if marks_ and bases_ and (lang_first or rng.random() < 0.35):
        for m in marks_:
            glyphs[m]["anchors"].append({"n": "_top", "x": 0, "y": 500 * PS})
        for b in bases_[:3]:
            glyphs[b]["anchors"].append({"n": "top", "x": 200 * PS, "y": 600 * PS})
        res["withMarks"] = True
    return res


# ---------------------------------------------------------------------------------------------
BASE_ANCHORS = ["top", "bottom", "ogonek", "top.alt", "center"]


def q4(rng, lo, hi):
    """quarter-unit value with ties: returned at scale 4"""
    v = rng.randint(lo, hi) * 4
    r = rng.random()
    if r < 0.3:
        v += 2          # x.5
    elif r < 0.4:
        v += 1
    return v


def anchors_font(rng):
    """Font with bases, marks, a ligature; anchors at scale 4 (quarter units)."""
    indic = rng.random() < 0.2
    if indic:
        gl = [("ka-deva", 0x915), ("kha-deva", 0x916), ("anusvara-deva", 0x902), ("nukta-deva", 0x93C), ("vsignu-deva", 0x941),
              ("ka_ssa-deva", None), ("ka-deva.alt", None)]
        marks = ["anusvara-deva", "nukta-deva", "vsignu-deva"]
        ligs = ["ka_ssa-deva"]
        if rng.random() < 0.5:
            # glyphs of a SECOND Indic script that the feature file does not declare (only dev2 is): they still take marks
            gl += [("ka-beng", 0x995), ("candrabindu-beng", 0x981)]
            marks.append("candrabindu-beng")
    else:
        gl = [("a", 0x61), ("e", 0x65), ("o", 0x6F), ("A", 0x41), ("f_i", None), ("f_f_i", None), ("acutecomb", 0x301),
              ("gravecomb", 0x300), ("dotbelowcomb", 0x323), ("ogonekcomb", 0x328), ("a.alt", None), ("period", 0x2E)]
        if rng.random() < 0.3:
            gl += [("alef-ar", 0x627), ("fatha-ar", 0x64E)]
        marks = [n for n, _ in gl if n.endswith("comb") or n == "fatha-ar"]
        ligs = ["f_i", "f_f_i"]
        if rng.random() < 0.3:
            gl.append(("longlig", None))        # a ligature with two-digit component numbers
            ligs.append("longlig")
    gl = [g for g in gl if rng.random() < 0.85 or g[0] in marks[:1]]
    names = [n for n, _ in gl]
    marks = [m for m in marks if m in names]
    ligs = [l for l in ligs if l in names]
    classes = rng.sample(BASE_ANCHORS, rng.randint(1, 4))
    anchors = {n: [] for n in names}
    for n in names:
        if n in marks:
            # attaching anchors
            own = rng.sample(classes + ["unpaired"], rng.randint(1, 2)) if rng.random() < 0.9 else []
            for c in own:
                anchors[n].append(("_" + c, q4(rng, -100, 100), q4(rng, 300, 600)))
            # base-type anchors on marks (mark to mark)
            if rng.random() < 0.5:
                for c in rng.sample(classes, 1):
                    anchors[n].append((c, q4(rng, -100, 100), q4(rng, 600, 800)))
        elif n in ligs:
            ncomp = 3 if n == "f_f_i" else (rng.choice([10, 11, 12, 21]) if n == "longlig" else 2)
            for c in rng.sample(classes, rng.randint(1, min(2, len(classes)))):
                if "." in c:
                    continue
                for k in range(1, ncomp + 1):
                    if rng.random() < 0.8:
                        anchors[n].append((f"{c}_{k}", q4(rng, 0, 600), q4(rng, 400, 800)))
            if rng.random() < 0.3 and not any(a[0].endswith(f"_{ncomp}") for a in anchors[n]):
                anchors[n].append((f"_{ncomp}", 0, 0))        # NULL anchor for the last component
            if rng.random() < 0.2:
                anchors[n].append(("top", q4(rng, 0, 300), q4(rng, 500, 700)))
        else:
            if rng.random() < 0.8:
                for c in rng.sample(classes, rng.randint(1, len(classes))):
                    anchors[n].append((c, q4(rng, 0, 500), q4(rng, -100, 800)))
            if rng.random() < 0.1:
                anchors[n].append(("caret_1", q4(rng, 0, 300), 0))
    spacing = None
    if not indic and classes and rng.random() < 0.3:
        # a spacing accent: it attaches like a mark (an '_x' anchor that has counterparts) AND takes marks itself; when glyph
        # classes are declared it is a BASE
        spacing = "acute"
        gl.append(("acute", 0xB4))
        names.append("acute")
        c0 = classes[0]
        anchors["acute"] = [("_" + c0, q4(rng, -100, 100), q4(rng, 300, 600)), (c0, q4(rng, 0, 300), q4(rng, 600, 800))]
    glyphs = {}
    for n, cp in gl:
        glyphs[n] = {"cs": [box()], "comps": [], "w": (0 if n in marks else rng.randint(300, 700)) * PS, "h": 0, "u": [cp] if cp else [],
                     "anchors": [{"n": an, "x": x * PS // 4, "y": y * PS // 4} for an, x, y in anchors[n]]}
    lib = {}
    has_cats = rng.random() < 0.5 or (spacing is not None and rng.random() < 0.7)
    if has_cats:
        cats = {}
        for n in names:
            if n in marks:
                cats[n] = "mark"
            elif n in ligs:
                cats[n] = "ligature"
            elif rng.random() < 0.9:
                cats[n] = "base"
        lib["public.openTypeCategories"] = cats
    fea = []
    if rng.random() < 0.6:
        fea.append("languagesystem DFLT dflt;")
        fea.append("languagesystem dev2 dflt;" if indic else "languagesystem latn dflt;")
    if not indic and "a.alt" in names and "a" in names:
        fea.append("feature ss01 { sub a by a.alt; } ss01;")
    if indic and "ka-deva.alt" in names and "ka-deva" in names:
        fea.append("feature ss01 { sub ka-deva by ka-deva.alt; } ss01;")
    ufo = {"glyphs": glyphs, "order": names, "glyphNames": names,
           "info": {"unitsPerEm": 1000, "ascender": 800, "descender": -200, "familyName": "MarkTest", "styleName": "Regular"},
           "fea": "\n".join(fea), "lib": lib}
    return {"ufo": ufo, "q": rng.choice([1, 1, 5, 2, 10, 4]), "anchorsAbs": anchors, "hasCats": has_cats,
            "markOpts": {"groupMarkClasses": rng.random() < 0.3}}


INDIC_ANCHORS = ["top", "topleft", "topright", "candra", "bindu", "candrabindu", "imatra", "bottom", "bottomleft", "bottomright",
                 "nukta", "bottomfoo", "halant"]


def indic_anchors_font(rng):
    """Devanagari font whose bases, marks AND ligature components use every anchor name the writer routes by name to
    abvm / blwm (plus names it does not know): numbered ligature anchors 'nukta_1', 'candra_2', 'bottomleft_1' ..."""
    gl = [("ka-deva", 0x915), ("kha-deva", 0x916), ("ssa-deva", 0x937), ("anusvara-deva", 0x902), ("nukta-deva", 0x93C),
          ("vsignu-deva", 0x941), ("candrabindu-deva", 0x901), ("k_ssa-deva", None), ("kh_ssa-deva", None), ("ka-deva.alt", None)]
    marks = ["anusvara-deva", "nukta-deva", "vsignu-deva", "candrabindu-deva"]
    ligs = ["k_ssa-deva", "kh_ssa-deva"]
    names = [n for n, _ in gl]
    classes = rng.sample(INDIC_ANCHORS, rng.randint(2, 5))
    anchors = {n: [] for n in names}
    for i, n in enumerate(marks):
        # every class has at least one mark (round-robin), a mark may attach through two classes
        own = [classes[j] for j in range(len(classes)) if j % len(marks) == i]
        if rng.random() < 0.4:
            own = sorted(set(own + [rng.choice(classes)]))
        for c in own:
            anchors[n].append(("_" + c, q4(rng, -100, 100), q4(rng, 300, 600)))
        if rng.random() < 0.4:
            anchors[n].append((rng.choice(classes), q4(rng, -100, 100), q4(rng, 600, 800)))
    for n in ligs:
        for c in classes:
            if rng.random() < 0.85:
                for k in (1, 2):
                    if rng.random() < 0.9:
                        anchors[n].append((f"{c}_{k}", q4(rng, 0, 900), q4(rng, -100, 800)))
    for n in names:
        if n not in marks and n not in ligs:
            for c in classes:
                if rng.random() < 0.7:
                    anchors[n].append((c, q4(rng, 0, 500), q4(rng, -100, 800)))
    glyphs = {}
    for n, cp in gl:
        glyphs[n] = {"cs": [box()], "comps": [], "anchors": [{"n": an, "x": x * PS // 4, "y": y * PS // 4} for an, x, y in anchors[n]],
                     "w": (0 if n in marks else rng.randint(300, 700)) * PS, "h": 0, "u": [cp] if cp else []}
    lib = {}
    has_cats = rng.random() < 0.5
    if has_cats:
        lib["public.openTypeCategories"] = {n: ("mark" if n in marks else "ligature" if n in ligs else "base") for n in names}
    fea = ["languagesystem DFLT dflt;", "languagesystem dev2 dflt;"] if rng.random() < 0.7 else []
    fea.append("feature ss01 { sub ka-deva by ka-deva.alt; } ss01;")
    fea.append("feature akhn { sub ka-deva ssa-deva by k_ssa-deva; sub kha-deva ssa-deva by kh_ssa-deva; } akhn;")
    ufo = {"glyphs": glyphs, "order": names, "glyphNames": names,
           "info": {"unitsPerEm": 1000, "ascender": 800, "descender": -200, "familyName": "IndicMarkTest", "styleName": "Regular"},
           "fea": "\n".join(fea), "lib": lib}
    return {"ufo": ufo, "q": rng.choice([1, 1, 5]), "anchorsAbs": anchors, "hasCats": has_cats,
            "markOpts": {"groupMarkClasses": rng.random() < 0.3}}


def gdefcurs_font(rng):
    """Font with categories (incl. invalid values / non-exported glyphs), caret anchors, cursive anchors."""
    gl = [("a", 0x61), ("b", 0x62), ("f_i", None), ("f_f_i", None), ("acutecomb", 0x301), ("period", 0x2E),
          ("beh-ar", 0x628), ("beh-ar.init", None), ("beh-ar.fina", None), ("lam-ar", 0x644), ("x.alt", None)]
    arabic = rng.random() < 0.7
    latin = rng.random() < 0.7 or not arabic
    gl = [g for g in gl if (arabic or "-ar" not in g[0]) and (latin or g[0] not in ("a", "b", "f_i", "f_f_i"))]
    gl = [g for g in gl if rng.random() < 0.9]
    names = [n for n, _ in gl]
    glyphs = {}
    for n, cp in gl:
        anchors = []
        if n in ("f_i", "f_f_i") and rng.random() < 0.8:
            k = 2 if n == "f_f_i" else 1
            vals = [q4(rng, 100, 600) if rng.random() < 0.75 else rng.choice([0, 0, -80, 2]) for _ in range(k)]   # incl. exactly 0
            if rng.random() < 0.3:
                vals.append(vals[0])                      # duplicate coordinate
            for j, v in enumerate(vals):
                anchors.append({"n": f"caret_{j + 1}", "x": v * PS // 4, "y": 0})
            if rng.random() < 0.3:
                anchors.append({"n": "vcaret_1", "x": 0, "y": rng.choice([q4(rng, 100, 600), 0]) * PS // 4})
        if rng.random() < 0.6 and n not in ("acutecomb",):
            suf = rng.choice(["", "", "", ".LTR", ".RTL", ".alt", ".1.LTR", ".2.RTL", ".alt.LTR", ".1"])
            r = rng.random()
            if r < 0.75:
                anchors.append({"n": "entry" + suf, "x": rng.choice([q4(rng, 0, 500), 0]) * PS // 4, "y": rng.choice([q4(rng, -50, 300), 0]) * PS // 4})
            if r > 0.25:
                anchors.append({"n": "exit" + suf, "x": rng.choice([q4(rng, 0, 500), 0]) * PS // 4, "y": rng.choice([q4(rng, -50, 300), 0]) * PS // 4})
        glyphs[n] = {"cs": [box()], "comps": [], "anchors": anchors, "w": (0 if n == "acutecomb" else 500) * PS, "h": 0, "u": [cp] if cp else []}
    lib = {}
    cats = {}
    if rng.random() < 0.75:
        for n in names:
            r = rng.random()
            if r < 0.75:
                cats[n] = {"acutecomb": "mark", "f_i": "ligature", "f_f_i": "ligature"}.get(n, "base")
            elif r < 0.8:
                cats[n] = "component"
            elif r < 0.85:
                cats[n] = "unassigned"
            elif r < 0.9:
                cats[n] = "Base"       # invalid value (wrong case)
        if rng.random() < 0.4:
            cats["no.such.glyph"] = "mark"
        lib["public.openTypeCategories"] = cats
    kwargs = {}
    if rng.random() < 0.25 and len(names) > 2:
        kwargs["skipExportGlyphs"] = [rng.choice([n for n in names if n not in ("a", "beh-ar", "beh-ar.init", "x.alt")] or ["period"])]
    fea = []
    subs = []
    if "beh-ar.init" in names and "beh-ar" in names:
        subs.append("sub beh-ar by beh-ar.init;")
    if "beh-ar.fina" in names and "beh-ar" in names and rng.random() < 0.7:
        subs.append("sub beh-ar by beh-ar.fina;") if False else None
    if "x.alt" in names and "a" in names and rng.random() < 0.5:
        subs.append("sub a by x.alt;")
    if subs:
        fea.append("feature ss01 {\n " + "\n ".join(subs) + "\n} ss01;")
    user_classes = None
    if rng.random() < 0.15:
        bases = [n for n in names if n not in ("acutecomb",) and n not in kwargs.get("skipExportGlyphs", [])][:3]
        marks = [n for n in names if n == "acutecomb" and n not in kwargs.get("skipExportGlyphs", [])]
        if bases:
            fea.append("table GDEF {\n GlyphClassDef [%s], , [%s], ;\n} GDEF;" % (" ".join(bases), " ".join(marks)))
            user_classes = {"base": bases, "mark": marks}
    ufo = {"glyphs": glyphs, "order": names, "glyphNames": names,
           "info": {"unitsPerEm": 1000, "ascender": 800, "descender": -200, "familyName": "GdefTest", "styleName": "Regular"},
           "fea": "\n".join(fea), "lib": lib}
    return {"ufo": ufo, "kwargs": kwargs, "userClasses": user_classes}


def full_font(rng):
    """kerning + attaching anchors (+ cursive anchors), single- and multi-script, with / without languagesystems"""
    sets = [("latin", True)]
    if rng.random() < 0.5:
        sets.append(("arab", True))
    if rng.random() < 0.4:
        sets.append(("cyrl", True))
    if rng.random() < 0.3:
        sets.append(("deva", True))       # a script with TWO OpenType tags (dev2 / deva)
    if rng.random() < 0.25:
        sets.append(("lao", True))        # a script whose OpenType tag has three letters ("lao ")
    if rng.random() < 0.2:
        sets = [s for s in sets if s[0] != "latin"] or sets
    gl = []
    for cls, _ in sets:
        gl += REPERTOIRE[cls][:3]
    gl += [("period", 0x2E), ("acutecomb", 0x301)]
    skip = []
    if any(c == "arab" for c, _ in sets):
        gl.append(("fatha-ar", 0x64E))
        # glyphs whose script EXTENSIONS span several scripts (tatweel, Arabic comma), and non-exported glyphs encoded in
        # scripts the font does not otherwise support
        if rng.random() < 0.7:
            gl.append(("kashida-ar", 0x640))
        if rng.random() < 0.5:
            gl.append(("comma-ar", 0x60C))
        if rng.random() < 0.6:
            gl.append(("alaph-syr", 0x710))
            skip.append("alaph-syr")
    if any(c == "deva" for c, _ in sets):
        gl.append(("anusvara-deva", 0x902))
    if any(c == "lao" for c, _ in sets):
        gl.append(("maiek-lao", 0xEC8))
    if rng.random() < 0.3:
        gl.append(("haa-thaana", 0x780))
        skip.append("haa-thaana")
    names = [n for n, _ in gl]
    glyphs = {}
    for n, cp in gl:
        mark = n in ("acutecomb", "fatha-ar", "anusvara-deva", "maiek-lao")
        anchors = []
        if mark:
            anchors.append({"n": "_top", "x": 0, "y": 500 * PS})
        elif n != "period" and rng.random() < 0.8:
            anchors.append({"n": "top", "x": rng.randint(100, 300) * PS, "y": rng.randint(500, 700) * PS})
        if n.endswith("-ar") and not mark and rng.random() < 0.6:
            anchors.append({"n": "entry", "x": 400 * PS, "y": 0})
            anchors.append({"n": "exit", "x": 0, "y": 0})
        glyphs[n] = {"cs": [box()], "comps": [], "anchors": anchors, "w": (0 if mark else 500) * PS, "h": 0, "u": [cp]}
    kerning = []
    for cls, _ in sets:
        items = [n for n, _ in REPERTOIRE[cls][:3]]
        if len(items) >= 2 and rng.random() < 0.85:
            kerning.append([items[0], items[1], -40 * 4])
    if "kashida-ar" in names and "beh-ar" in names:
        kerning.append(["beh-ar", "kashida-ar", 24 * 4])
    if "comma-ar" in names and "alef-ar" in names:
        kerning.append(["alef-ar", "comma-ar", -16 * 4])
    if rng.random() < 0.5:
        kerning.append(["period", "period", 10 * 4])
    r = rng.random()
    decl = []
    tagmap = {"latin": ["latn"], "arab": ["arab"], "cyrl": ["cyrl"], "deva": ["dev2", "deva"], "lao": ["lao"]}
    if r < 0.35:
        decl = []
    elif r < 0.5:
        decl = ["DFLT"]
    elif r < 0.75:
        decl = ["DFLT"] + [t for c, _ in sets[:1] for t in tagmap[c]]
    else:
        decl = ["DFLT"] + [t for c, _ in sets for t in tagmap[c]]
    if "dev2" in decl and rng.random() < 0.3:
        decl.remove(rng.choice(["dev2", "deva"]))
    lines = []
    langs = {"latn": ["TRK ", "ROM "], "arab": ["URD ", "KSH "], "cyrl": ["SRB "], "dev2": ["MAR ", "NEP "], "deva": ["MAR ", "HIN "], "lao": ["LAO "], "DFLT": []}
    for t in decl:
        mine = [f"languagesystem {t} dflt;"]
        # non-default language systems; the two tags of one script may declare different lists
        for lg in langs.get(t, []):
            if rng.random() < (0.8 if t == "lao" else 0.35):
                mine.append(f"languagesystem {t} {lg.strip()};")
        # a script's default language system need not be declared first -- or at all
        if len(mine) > 1 and t != "DFLT" and rng.random() < 0.4:
            mine = mine[1:] + ([mine[0]] if rng.random() < 0.6 else [])
        lines += mine
    fea = "\n".join(lines)
    ufo = {"glyphs": glyphs, "order": names, "glyphNames": names,
           "info": {"unitsPerEm": 1000, "ascender": 800, "descender": -200, "familyName": "LayoutTest", "styleName": "Regular"},
           "kerning": kerning, "kernScale": 4, "fea": fea, "lib": {"public.skipExportGlyphs": skip} if skip else {}}
    return {"ufo": ufo, "declared": decl}


def mark_conflict_font(rng):
    """Marks that belong to two mark classes each, chained (c1-c2, c2-c3, c3-c4 ...): the grouping of mark classes into
    lookups (groupMarkClasses) is a graph colouring whose result depends on the vertex order."""
    n = rng.choice([4, 5, 6])
    classes = rng.sample(["top", "bottom", "ogonek", "center", "topright", "bottomleft", "ring", "horn"], n)
    gl = [("a", 0x61), ("e", 0x65), ("o", 0x6F)]
    glyphs = {}
    for nm, cp in gl:
        glyphs[nm] = {"cs": [box()], "comps": [], "w": 500 * PS, "h": 0, "u": [cp],
                      "anchors": [{"n": c, "x": q4(rng, 0, 500) * PS // 4, "y": q4(rng, -100, 800) * PS // 4} for c in classes if rng.random() < 0.9]}
    marks = []
    # one or two marks in two classes each (a conflict edge); the remaining classes get single-class marks (isolated vertices,
    # which the greedy colouring puts next to whichever end of the edge it visits first)
    links = [(classes[0], classes[1])]
    if rng.random() < 0.4:
        links.append((classes[2], classes[3]))
    for k, c in enumerate(classes):
        if rng.random() < 0.8:
            nm = f"single{k}comb"
            marks.append(nm)
            glyphs[nm] = {"cs": [box(-80, 500, 60, 60)], "comps": [], "w": 0, "h": 0, "u": [0x310 + k],
                          "anchors": [{"n": "_" + c, "x": q4(rng, -100, 100) * PS // 4, "y": q4(rng, 300, 600) * PS // 4}]}
    for k, (a, b) in enumerate(links):
        nm = f"mark{k}comb"
        marks.append(nm)
        glyphs[nm] = {"cs": [box(-80, 500, 60, 60)], "comps": [], "w": 0, "h": 0, "u": [0x300 + k],
                      "anchors": [{"n": "_" + a, "x": q4(rng, -100, 100) * PS // 4, "y": q4(rng, 300, 600) * PS // 4},
                                  {"n": "_" + b, "x": q4(rng, -100, 100) * PS // 4, "y": q4(rng, 300, 600) * PS // 4}]}
    names = list(glyphs)
    rng.shuffle(names)
    ufo = {"glyphs": glyphs, "order": names, "glyphNames": names,
           "info": {"unitsPerEm": 1000, "ascender": 800, "descender": -200, "familyName": "MarkConflict", "styleName": "Regular"},
           "fea": "", "lib": {"public.openTypeCategories": {m: "mark" for m in marks}} if rng.random() < 0.5 else {}}
    return {"ufo": ufo, "q": 1, "hasCats": False, "markOpts": {"groupMarkClasses": True}}


def propagate_font(rng):
    """Marks with curved outlines whose control points lie far outside the curve, and composites made of mark components
    only ("ligature marks"): PropagateAnchorsFilter (enabled through the UFO lib) promotes the component whose exact
    (xmin, ymin) is closest to the origin.  Offsets are drawn until that choice differs from the one control-point
    bounds would give, so any shortcut in how the bounds are taken -- for one UFO library or for both -- changes GPOS."""
    from fontTools.pens.boundsPen import BoundsPen, ControlBoundsPen

    def curl(sx, sy):
        # cubic from (0,0) to (100,0) with control points far below / left / right of the curve
        return [[0, 0, "line"], [-150 * sx * PS, -200 * sy * PS, "off"], [250 * sx * PS, -200 * sy * PS, "off"], [100 * PS, 0, "curve"],
                [100 * PS, 60 * PS, "line"], [0, 60 * PS, "line"]]

    glyphs = {"a": {"cs": [box()], "comps": [], "w": 500 * PS, "h": 0, "u": [0x61],
                    "anchors": [{"n": "top", "x": 250 * PS, "y": 500 * PS}]}}
    marks = []
    for k in range(3):
        nm = f"curl{k}comb"
        marks.append(nm)
        glyphs[nm] = {"cs": [curl(rng.choice([1, 2]), rng.choice([1, 2]))], "comps": [], "w": 0, "h": 0, "u": [0x300 + k],
                      "anchors": [{"n": "_top", "x": 50 * PS, "y": -10 * PS}, {"n": "top", "x": 50 * PS, "y": (80 + 10 * k) * PS}]}
    for k in range(2):
        nm = f"box{k}comb"
        marks.append(nm)
        glyphs[nm] = {"cs": [box(0, 0, 80 + 20 * k, 50)], "comps": [], "w": 0, "h": 0, "u": [0x310 + k],
                      "anchors": [{"n": "_top", "x": 40 * PS, "y": -10 * PS}, {"n": "top", "x": 40 * PS, "y": (70 + 5 * k) * PS}]}
    probe = absfont.build_font({"glyphs": glyphs}, "ufoLib2")

    def corner(pen_cls, base, dx, dy):
        pen = pen_cls(probe)
        probe[base].draw(pen)
        return pen.bounds[0] + dx, pen.bounds[1] + dy

    ncomp = 0
    for _try in range(400):
        if ncomp >= 4:
            break
        b1, b2 = rng.choice(marks[:3]), rng.choice(marks)
        if b1 == b2:
            continue
        offs = [(rng.randint(-4, 12) * 25, rng.randint(-4, 12) * 25) for _ in range(2)]
        exact = [corner(BoundsPen, b, *o) for b, o in zip((b1, b2), offs)]
        ctrl = [corner(ControlBoundsPen, b, *o) for b, o in zip((b1, b2), offs)]
        de = [x * x + y * y for x, y in exact]
        dc = [x * x + y * y for x, y in ctrl]
        if de[0] == de[1] or dc[0] == dc[1] or (de[0] < de[1]) == (dc[0] < dc[1]):
            continue
        nm = f"{b1}_{b2}" + (f".{ncomp}" if f"{b1}_{b2}" in glyphs else "")
        glyphs[nm] = {"cs": [], "comps": [{"b": b, "m": [MS, 0, 0, MS], "d": [o[0] * PS, o[1] * PS]} for b, o in zip((b1, b2), offs)],
                      "anchors": [], "w": 0, "h": 0, "u": []}
        ncomp += 1
    names = list(glyphs)
    rng.shuffle(names)
    cats = {m: "mark" for m in names if m != "a"}
    ufo = {"glyphs": glyphs, "order": names, "glyphNames": names,
           "info": {"unitsPerEm": 1000, "ascender": 800, "descender": -200, "familyName": "Propagate", "styleName": "Regular"},
           "fea": "", "lib": {"public.openTypeCategories": cats,
                              "com.github.googlei18n.ufo2ft.filters": [{"name": "propagateAnchors", "pre": True}]}}
    return {"ufo": ufo, "q": 1, "hasCats": True, "ligatureMarks": ncomp}


def dotted_circle_font(rng):
    """DottedCircle filter enabled through the UFO lib; a U+25CC glyph that lacks the anchor the marks attach to; several
    bases whose fractional anchor coordinates average to a rounding TIE (x.5): how the average is accumulated must not
    depend on the order in which the source font yields its glyphs (insertion order, alphabetical after a reload, a set)."""
    # (sets whose exact mean is a tie and whose floating-point running sum depends on the order of addition)
    ys = rng.choice([[604.9, 581.3, 414.3], [496.7, 210.6, 441.3, 203.4, 600.5], [1.3, 537.9, 89.3], [769.7, 106.2, 2.6, 304.9, 274.1],
                     [257.3, 525.5, 205.8, 677.4], [49.9, 591.9, 352.7], [162.1, 779.5, 682.1, 190.5, 663.3]])
    names = ["zeta", "alpha", "mid", "beta", "omega"][: len(ys)]
    glyphs = {}
    order = []
    for n, y in zip(names, ys):
        glyphs[n] = {"cs": [box()], "comps": [], "w": 600 * PS, "h": 0, "u": [0x61 + len(order)],
                     "anchors": [{"n": "top", "x": 300 * PS, "y": int(round(y * PS)), "yf": y, "xf": 300.3 if n == "mid" else 300.0}]}
        order.append(n)
    glyphs["acutecomb"] = {"cs": [box(-80, 500, 60, 60)], "comps": [], "w": 0, "h": 0, "u": [0x301], "anchors": [{"n": "_top", "x": -50 * PS, "y": 480 * PS}]}
    glyphs["uni25CC"] = {"cs": [box(50, 100, 300, 300)], "comps": [], "w": 600 * PS, "h": 0, "u": [0x25CC], "anchors": []}
    order += ["acutecomb", "uni25CC"]
    rng.shuffle(order)
    ufo = {"glyphs": glyphs, "order": order, "glyphNames": order,
           "info": {"unitsPerEm": 1000, "ascender": 800, "descender": -200, "familyName": "Dotted", "styleName": "Regular"},
           "fea": "", "lib": {"com.github.googlei18n.ufo2ft.filters": [{"name": "dottedCircle", "pre": True}]}}
    return {"ufo": ufo, "q": 1}
