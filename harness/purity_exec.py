"""Call histories of compile functions: per-stage source snapshots (C07) and output digests (C08).

Can be run as a script in a fresh subprocess:  python -m harness.purity_exec <spec.json>  -> JSON on stdout.
"""
import io
import json
import os
import shutil
import sys
import tempfile

STATIC = {"compileTTF", "compileOTF"}
LISTFN = {"compileInterpolatableTTFs"}
DSFN = {"compileInterpolatableTTFsFromDS", "compileInterpolatableOTFsFromDS", "compileVariableTTF", "compileVariableTTFs",
        "compileVariableCFF2", "compileVariableCFF2s"}


def _save(ttfont):
    from . import project

    buf = io.BytesIO()
    ttfont.save(buf)
    data = buf.getvalue()
    return project.sha_bytes(data), project.table_digests(data)


def _prep_kwargs(kwargs, shared=None):
    kw = dict(kwargs or {})
    if kw.get("ftConfig") == "@shared":
        kw["ftConfig"] = shared          # ONE options object owned by the caller and handed to every call of the history
    if "filters" in kw:
        from .checks import filters_common as fc

        kw["filters"] = [... if s == "..." else fc.make_filter(s) for s in kw["filters"]]
    if kw.pop("debugFeatureFile", False):
        kw["debugFeatureFile"] = io.StringIO()
    return kw


def load_source(spec, workdir):
    """returns (kind, obj, fonts) ; obj is a Font, a list of Fonts or a DesignSpaceDocument"""
    from . import absfont, dsbuild

    lib = spec.get("lib", "ufoLib2")
    src = spec["source"]
    via = spec.get("via", "memory")
    if src["kind"] == "ufo":
        font = absfont.build_font(src["ufo"], lib)
        if via == "disk":
            p = os.path.join(workdir, "src.ufo")
            font.save(p)
            font = dsbuild.open_font(p, lib)
        return "ufo", font, [font]
    if src["kind"] == "ufo-path":
        p = src["path"]
        if via == "disk":  # work on a copy re-saved by the library (round trip)
            f0 = dsbuild.open_font(p, lib)
            q = os.path.join(workdir, "copy.ufo")
            f0.save(q)
            p = q
        font = dsbuild.open_font(p, lib)
        return "ufo", font, [font]
    if src["kind"] == "family":
        ds = dsbuild.build_designspace(src["family"], lib)
        if via == "disk":
            p = dsbuild.save_designspace(ds, os.path.join(workdir, "fam"), lib)
            ds = dsbuild.load_designspace(p, lib)
        fonts = []
        for s in ds.sources:
            if all(s.font is not f for f in fonts):
                fonts.append(s.font)
        return "ds", ds, fonts
    if src["kind"] == "ds-path":
        ds = dsbuild.load_designspace(src["path"], lib)
        fonts = []
        for s in ds.sources:
            if all(s.font is not f for f in fonts):
                fonts.append(s.font)
        return "ds", ds, fonts
    raise ValueError(src["kind"])


def run_history(spec):
    import ufo2ft

    from . import snapshot, tracer

    workdir = tempfile.mkdtemp(prefix="verif-purity-")
    try:
        kind, obj, fonts = load_source(spec, workdir)
        ds = obj if kind == "ds" else None
        calls = []
        shared_cfg = None
        if spec.get("sharedFtConfig"):
            # keyed the way callers usually do it: by the option objects fontTools exports
            from fontTools.config import OPTIONS

            shared_cfg = {OPTIONS.get(k, k): v for k, v in spec["sharedFtConfig"].items()}
        for k, call in enumerate(spec["history"]):
            fn = call["fn"]
            kw = _prep_kwargs(call.get("kwargs"), shared_cfg)
            inplace = bool(kw.get("inplace", False))
            rec = {"k": k, "fn": fn, "inplace": inplace, "optsKey": snapshot.sha({a: b for a, b in (call.get("kwargs") or {}).items() if a != "inplace"})}
            with tracer.tracing(fonts, designspace=ds, snap=spec.get("stage_snapshots", True), glyphsets=False) as tr:
                rec["dirtyBefore"] = False
                try:
                    if fn in STATIC:
                        target = fonts[0] if kind == "ufo" else fonts[0]
                        out = getattr(ufo2ft, fn)(target, **kw)
                        outs = {"font": out}
                    elif fn in LISTFN:
                        res = list(getattr(ufo2ft, fn)([s.font for s in ds.sources if not s.layerName] if ds else fonts, **kw))
                        outs = {f"m{i}": f for i, f in enumerate(res)}
                    elif fn in ("compileInterpolatableTTFsFromDS", "compileInterpolatableOTFsFromDS"):
                        res = getattr(ufo2ft, fn)(ds, **kw)
                        outs = {f"m{i}": s.font for i, s in enumerate(res.sources)}
                        if not inplace and res is ds:
                            rec["returnedSameDoc"] = True
                    else:
                        res = getattr(ufo2ft, fn)(ds, **kw)
                        outs = res if isinstance(res, dict) else {"vf": res}
                    rec["raised"] = ""
                except Exception as e:  # noqa
                    outs = {}
                    rec["raised"] = type(e).__name__
                    rec["raisedMsg"] = str(e)[:200]
                end = tr.src_state()
            rec["events"] = [{"ev": e["ev"], "srcSame": e["srcSame"], "srcDiff": e["srcDiff"], "name": e.get("name", e.get("cls", ""))} for e in tr.events]
            rec["events"].append({"ev": "End", "srcSame": end["srcSame"], "srcDiff": end["srcDiff"], "name": ""})
            shas = {}
            tabs = {}
            for name, f in sorted(outs.items()):
                try:
                    shas[name], tabs[name] = _save(f)
                except Exception as e:  # noqa
                    shas[name] = "save-error:" + type(e).__name__
            rec["out"] = shas
            rec["outSha"] = snapshot.sha(shas)
            rec["tables"] = tabs
            # content of the sources *before the next call* relative to the pristine content
            rec["srcDirtyAfter"] = not end["srcSame"]
            rec["srcDiffAfter"] = end["srcDiff"]
            calls.append(rec)
            if inplace and kind == "ds" and fn in DSFN:
                break  # an in-place designspace compile replaces the source fonts by TTFonts: history ends here
        # "content" key of each call: pristine unless an earlier call changed the sources
        dirty = ""
        for rec in calls:
            rec["content"] = "pristine" if not dirty else "dirty:" + dirty
            if rec["srcDirtyAfter"]:
                dirty = snapshot.sha(rec["srcDiffAfter"]) + str(rec["k"])
        return calls
    finally:
        shutil.rmtree(workdir, ignore_errors=True)


def main():
    os.environ.setdefault("UFO2FT_VERIF", "1")
    import logging
    import warnings

    warnings.filterwarnings("ignore")
    logging.disable(logging.ERROR)
    sys.path.insert(0, "/repo/Lib")
    spec = json.load(open(sys.argv[1]))
    out = run_history(spec)
    sys.stdout.write("\n@@RESULT@@" + json.dumps(out) + "\n")


if __name__ == "__main__":
    main()
