"""Projection of compiled TTFont objects to the abstract JSON the specifications read."""
import hashlib
import io
from fractions import Fraction

from fontTools.pens.recordingPen import RecordingPen
from fontTools.ttLib import TTFont

from .absfont import MS, PS, Inexact, to_scaled


def save_reload(ttfont):
    buf = io.BytesIO()
    ttfont.save(buf)
    data = buf.getvalue()
    return data, TTFont(io.BytesIO(data))


def cff_outlines(font):
    """{name: [ {"start": [x, y], "segs": [[type, [[x, y], ...]], ...]} ... ]} at scale PS (closing line dropped)."""
    gs = font.getGlyphSet()
    out = {}
    for name in font.getGlyphOrder():
        pen = RecordingPen()
        gs[name].draw(pen)
        contours = []
        cur = None
        for op, args in pen.value:
            if op == "moveTo":
                cur = {"start": [to_scaled(args[0][0], PS), to_scaled(args[0][1], PS)], "segs": []}
                contours.append(cur)
            elif op == "lineTo":
                pt = [to_scaled(args[0][0], PS), to_scaled(args[0][1], PS)]
                prev = cur["segs"][-1][1][-1] if cur["segs"] else cur["start"]
                if pt != prev:  # zero-length lines are not drawing operations (see Outline!NormSegs)
                    cur["segs"].append(["line", [pt]])
            elif op == "curveTo":
                cur["segs"].append(["curve", [[to_scaled(p[0], PS), to_scaled(p[1], PS)] for p in args]])
            elif op == "qCurveTo":
                cur["segs"].append(["qcurve", [[to_scaled(p[0], PS), to_scaled(p[1], PS)] for p in args]])
            elif op in ("closePath", "endPath"):
                if cur is not None and cur["segs"] and cur["segs"][-1][0] == "line" and cur["segs"][-1][1][0] == cur["start"]:
                    cur["segs"].pop()
                cur = None
        out[name] = contours
    return out


def advances(font):
    hmtx = font["hmtx"]
    return {name: hmtx[name][0] for name in font.getGlyphOrder()}


def glyf_glyphs(font):
    """{name: {"pts": [[x, y, on]...], "ends": [...], "comps": [{"b", "m": [4 at MS... exact F2Dot14 -> scale 16384], "d"}]}}"""
    glyf = font["glyf"]
    out = {}
    for name in font.getGlyphOrder():
        g = glyf[name]
        rec = {"pts": [], "ends": [], "comps": []}
        if g.isComposite():
            for c in g.components:
                tr = getattr(c, "transform", ((1, 0), (0, 1)))
                m = [tr[0][0], tr[0][1], tr[1][0], tr[1][1]]
                rec["comps"].append({"b": c.glyphName, "m": [int(round(v * 16384)) for v in m], "d": [int(c.x), int(c.y)],
                                     "flags": int(c.flags)})
        elif g.numberOfContours > 0:
            coords, ends, flags = g.getCoordinates(glyf)
            rec["pts"] = [[int(x), int(y), int(f & 1)] for (x, y), f in zip(coords, flags)]
            rec["ends"] = [int(e) for e in ends]
        out[name] = rec
    return out


def table_digests(data):
    """{tag: sha1 of raw table bytes}; head.checkSumAdjustment masked."""
    f = TTFont(io.BytesIO(data), lazy=True)
    out = {}
    for tag in sorted(f.reader.keys()):
        raw = f.reader[tag]
        if tag == "head":
            raw = raw[:8] + b"\0\0\0\0" + raw[12:]
        out[tag] = hashlib.sha1(raw).hexdigest()[:16]
    return out


def sha_bytes(data):
    return hashlib.sha256(data).hexdigest()[:24]
