"""Structural snapshots of caller-owned sources (UFO fonts, designspace documents)."""
import hashlib
import json


def _canon(obj):
    if isinstance(obj, dict):
        return {str(k): _canon(v) for k, v in sorted(obj.items(), key=lambda kv: str(kv[0]))}
    if isinstance(obj, (list, tuple)):
        return [_canon(v) for v in obj]
    if isinstance(obj, (set, frozenset)):
        return sorted(_canon(v) for v in obj)
    if isinstance(obj, bytes):
        return "bytes:" + hashlib.sha1(obj).hexdigest()
    if isinstance(obj, (str, int, float, bool)) or obj is None:
        return obj
    return repr(obj)


def sha(obj):
    return hashlib.sha1(json.dumps(_canon(obj), sort_keys=True, default=repr).encode()).hexdigest()[:16]


def _points(contour):
    pts = getattr(contour, "points", None)
    if pts is not None and not callable(pts):
        return list(pts)
    return list(contour)


def glyph_struct(g):
    return {
        "w": g.width,
        "h": g.height,
        "u": list(g.unicodes),
        "cs": [[(p.x, p.y, p.segmentType, bool(p.smooth), p.name) for p in _points(c)] for c in g],
        "comps": [(c.baseGlyph, tuple(c.transformation)) for c in g.components],
        "anchors": [(a.name, a.x, a.y) for a in g.anchors],
        "lib": _canon(dict(g.lib)),
    }


def font_snapshot(font):
    """{component: sha} -- compared field by field so a difference names the component and glyph."""
    snap = {}
    for layer in font.layers:
        for g in layer:
            snap[f"glyph:{layer.name}/{g.name}"] = sha(glyph_struct(g))
        snap[f"layerlib:{layer.name}"] = sha(dict(layer.lib))
    snap["layers"] = sha([l.name for l in font.layers])
    snap["lib"] = sha(dict(font.lib))
    info = {}
    for attr in sorted(a for a in dir(font.info) if not a.startswith("_")):
        try:
            v = getattr(font.info, attr)
        except Exception:
            continue
        if callable(v):
            continue
        if isinstance(v, (str, int, float, bool, list, tuple, dict)) or v is None:
            info[attr] = v
    snap["info"] = sha(info)
    snap["kerning"] = sha({f"{k[0]}|{k[1]}": v for k, v in font.kerning.items()})
    snap["groups"] = sha({k: list(v) for k, v in font.groups.items()})
    snap["fea"] = sha(font.features.text or "")
    try:
        snap["glyphOrder"] = sha(list(font.lib.get("public.glyphOrder", [])))
    except Exception:
        pass
    return snap


def designspace_snapshot(ds):
    d = {
        "axes": [(a.name, a.tag, getattr(a, "minimum", None), getattr(a, "default", None), getattr(a, "maximum", None),
                  list(getattr(a, "map", []) or [])) for a in ds.axes],
        "sources": [(s.name, s.filename, s.layerName, dict(s.location), s.familyName, s.styleName) for s in ds.sources],
        "instances": [(i.name, dict(i.location or {})) for i in ds.instances],
        "rules": [(r.name, [list(cs) if not isinstance(cs, dict) else cs for cs in r.conditionSets], list(r.subs)) for r in ds.rules],
        "lib": _canon(dict(ds.lib)),
        "vfs": [(vf.name, vf.filename) for vf in getattr(ds, "variableFonts", [])],
    }
    snap = {"ds": sha(d)}
    snap["ds.sourcefonts"] = sha([id(s.font) for s in ds.sources])
    return snap


def diff(a, b):
    keys = sorted(set(a) | set(b))
    return [k for k in keys if a.get(k) != b.get(k)]
