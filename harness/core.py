"""Generic driver shared by all property checks.

A check module (harness/checks/cXX.py) provides:
  PROPERTY            "C15"
  TRACE_MODULE/CFG    TLA+ trace acceptor used for the recorded executions
  design_checks(tier) -> list of dicts(module, cfg, workers, timeout, expect_violation=None)
  cases(tier, seed)   -> list of JSON cases (each with "cid")
  execute(case)       -> list of trace records (each with unique "tid"), run in a worker process
  classify(rec, pfail, mfail, extra) -> "ok" | "known:<finding id>" | "violation" | "drift"   (optional)
"""
import hashlib
import importlib
import json
import os
import sys
import time
import traceback
from concurrent.futures import ProcessPoolExecutor

VERIF = os.path.dirname(os.path.dirname(os.path.abspath(__file__)))
REPO_LIB = "/repo/Lib"

import warnings
warnings.filterwarnings("ignore")
os.environ.setdefault("PYTHONWARNINGS", "ignore")
os.environ.setdefault("UFO2FT_VERIF", "1")
os.environ.setdefault("SOURCE_DATE_EPOCH", "1700000000")
os.environ.setdefault("PYTHONHASHSEED", "0")
if REPO_LIB not in sys.path:
    sys.path.insert(0, REPO_LIB)

import logging  # noqa: E402

logging.disable(logging.ERROR)

from . import tlc  # noqa: E402


def load_known_findings():
    with open(os.path.join(VERIF, "known_findings.json")) as f:
        return json.load(f)


def _exec_wrapper(args):
    modname, case = args
    mod = importlib.import_module(modname)
    try:
        return {"cid": case.get("cid"), "records": mod.execute(case), "error": None}
    except Exception as e:
        # Where was it raised?  An exception that escapes from the code under test (ufo2ft, or the libraries it drives) on an
        # input the generator considers valid is a finding about that code ("the call must succeed"), not a failure of the
        # machinery; one raised by the harness itself is a machinery failure.
        tb = traceback.extract_tb(e.__traceback__)
        origin = tb[-1].filename if tb else ""
        lib_side = origin.startswith(REPO_LIB) or "/site-packages/" in origin
        return {"cid": case.get("cid"), "records": [], "error": traceback.format_exc(),
                "library_raised": (type(e).__name__ + ": " + str(e)[:200]) if lib_side else None}


def run_cases(modname, cases, procs=16):
    """Execute cases against the real code in a process pool; returns list of results in case order."""
    if not cases:
        return []
    procs = max(1, min(procs, len(cases)))
    if procs == 1:
        return [_exec_wrapper((modname, c)) for c in cases]
    import multiprocessing as mp

    ctx = mp.get_context("fork")
    with ProcessPoolExecutor(max_workers=procs, mp_context=ctx) as ex:
        return list(ex.map(_exec_wrapper, [(modname, c) for c in cases], chunksize=max(1, len(cases) // (procs * 8))))


class Report:
    def __init__(self, prop, tier, seed):
        self.prop = prop
        self.tier = tier
        self.seed = seed
        self.t0 = time.time()
        self.states = 0
        self.transitions = 0
        self.traces = 0
        self.evaluations = 0
        self.nontrivial = set()
        self.samples = []
        self.violations = []
        self.known_hits = {}
        self.drifts = []
        self.notes = {}
        self.design = []
        self.machinery_errors = []
        self.exhaustive = False

    # -- accounting ------------------------------------------------------------------------
    def add_design(self, name, res):
        self.states += res.get("distinct", 0)
        self.transitions += res.get("states", 0)
        self.design.append({"config": name, "distinct_states": res.get("distinct", 0),
                            "states_generated": res.get("states", 0), "wall_s": round(res.get("wall", 0), 2),
                            "result": "ok" if res.get("ok") else (res.get("violated") or res.get("error", "error"))[:200]})

    def add_trace_stats(self, stats):
        self.states += stats.get("distinct", 0)
        self.transitions += stats.get("states", 0)

    def sample(self, obj, limit=4):
        if len(self.samples) < limit:
            s = json.dumps(obj, sort_keys=True)
            if len(s) > 6000:
                obj = {"truncated": s[:6000]}
            self.samples.append(obj)

    def mark_nontrivial(self, obj):
        self.nontrivial.add(hashlib.sha1(json.dumps(obj, sort_keys=True).encode()).hexdigest())

    # -- outcomes --------------------------------------------------------------------------
    def violation(self, tid, clause, payload):
        d = os.path.join(VERIF, "replays")
        os.makedirs(d, exist_ok=True)
        safe = "".join(ch if ch.isalnum() or ch in "-_." else "_" for ch in str(tid))[:80]
        path = os.path.join(d, f"{self.prop}-{safe}.json")
        with open(path, "w") as f:
            json.dump({"property": self.prop, "tid": tid, "clause": clause, "seed": self.seed, **payload}, f,
                      indent=1, sort_keys=True)
        self.violations.append({"tid": tid, "clause": clause, "replay": path})
        print(f"VIOLATION property={self.prop} replay={path}  (trace {tid}: clause '{clause}' fails)", flush=True)

    def known(self, fid, what):
        if fid not in self.known_hits:
            self.known_hits[fid] = {"what": what, "count": 0}
        self.known_hits[fid]["count"] += 1

    def drift(self, tid, clause):
        self.drifts.append({"tid": tid, "clause": clause})

    def machinery(self, msg):
        self.machinery_errors.append(msg)
        print(f"MACHINERY-FAILURE property={self.prop}: {msg[:3500]}", file=sys.stderr, flush=True)

    # -- finish ----------------------------------------------------------------------------
    def finish(self, rule, level="model_checking", assumptions=None, extra=None):
        for fid, k in sorted(self.known_hits.items()):
            print(f"KNOWN-FINDING: property={self.prop} {fid}: {k['what']} ({k['count']} occurrence(s) this run)")
        seen = set()
        for d in self.drifts:
            if d["clause"] not in seen:
                seen.add(d["clause"])
                n = sum(1 for x in self.drifts if x["clause"] == d["clause"])
                print(f"DRIFT property={self.prop} stage={d['clause']} traces={n} (model clause only; not a violation)")
        cov = {
            "states": max(self.states, 0),
            "transitions": max(self.transitions, 0),
            "traces_validated_against_impl": self.traces,
            "evaluations": self.evaluations,
            "distinct_nontrivial": len(self.nontrivial),
            "rule": rule,
            "samples": self.samples or [{"note": "no case executed"}],
            "exhaustive": self.exhaustive,
            "design_checks": self.design,
            "known_finding_hits": {k: v["count"] for k, v in self.known_hits.items()},
            "drift": len(self.drifts),
        }
        if extra:
            cov.update(extra)
        cov.update(self.notes)
        ev = {
            "property_id": self.prop,
            "tier": self.tier,
            "seed": int(self.seed),
            "level": level,
            "coverage": cov,
            "assumptions": assumptions or [],
            "wall_s": round(time.time() - self.t0, 2),
            "violations": len(self.violations),
        }
        os.makedirs(os.path.join(VERIF, "evidence"), exist_ok=True)
        with open(os.path.join(VERIF, "evidence", f"{self.prop}.json"), "w") as f:
            json.dump(ev, f, indent=1, sort_keys=True)
        if self.machinery_errors:
            return 2
        if self.violations:
            return 1
        print(f"OK property={self.prop} tier={self.tier} seed={self.seed} traces={self.traces} "
              f"states={self.states} wall={ev['wall_s']}s")
        return 0


def run_design_checks(report, checks):
    """Run TLC design checks; a failed/unfinished one is a machinery failure or (for property invariants) a violation
    of the *design*, reported as machinery failure since the unchanged specification is expected to hold."""
    for dc in checks:
        res = tlc.model_check(dc["module"], dc["cfg"], workers=dc.get("workers", 8), timeout=dc.get("timeout", 600),
                              coverage=dc.get("coverage", False), simulate=dc.get("simulate"), depth=dc.get("depth"),
                              seed=dc.get("seed"), env=dc.get("env"))
        report.add_design(dc["cfg"], res)
        expect = dc.get("expect_violation")
        if expect:
            if res.get("violated") != expect:
                report.machinery(f"design check {dc['cfg']}: expected violation of {expect}, got {res.get('violated')} "
                                 f"{res.get('error', '')[:500]}")
        elif not res.get("ok"):
            report.machinery(f"design check {dc['cfg']} failed: violated={res.get('violated')} "
                             f"{res.get('error', '')[:1500]}")


def standard_main(mod, tier, seed, replay=None):
    """Default flow: design checks -> cases -> execute real code -> TLC trace validation -> classify."""
    prop = mod.PROPERTY
    rep = Report(prop, tier, seed)
    if replay:
        with open(replay) as f:
            rp = json.load(f)
        cases = [rp["case"]]
    else:
        try:
            run_design_checks(rep, mod.design_checks(tier))
        except Exception:
            rep.machinery("design check crashed:\n" + traceback.format_exc())
        cases = mod.cases(tier, seed)
    results = run_cases(mod.__name__, cases)
    records = []
    by_tid = {}
    case_by_cid = {c.get("cid"): c for c in cases}
    for r in results:
        if r["error"]:
            if r.get("library_raised") and not replay:
                rep.violation(r["cid"], "call-succeeds (" + r["library_raised"][:80] + ")",
                              {"case": case_by_cid.get(r["cid"]), "traceback": r["error"][-3000:]})
            else:
                rep.machinery(f"case {r['cid']} could not be executed:\n{r['error']}")
            continue
        for rec in r["records"]:
            rec["_cid"] = r["cid"]
            records.append(rec)
            by_tid[rec["tid"]] = rec
    rep.evaluations = len(cases)
    pre = getattr(mod, "preclassify", None)
    to_validate = []
    for rec in records:
        if pre:
            v = pre(rec, rep)
            if v == "skip":
                continue
        to_validate.append(rec)
    verdicts = {}
    acceptors = getattr(mod, "ACCEPTORS", None) or {"_default": (mod.TRACE_MODULE, mod.TRACE_CFG)}
    for acc, (tmod, tcfg) in acceptors.items():
        part = [rec for rec in to_validate if rec.get("_acc", "_default") == acc]
        if not part:
            continue
        try:
            payload = [{k: v for k, v in rec.items() if not k.startswith("_")} for rec in part]
            vd, stats = tlc.validate(tmod, tcfg, payload, shards=getattr(mod, "SHARDS", 12),
                                     timeout=getattr(mod, "TRACE_TIMEOUT", 1500), tag=prop + "-" + tmod,
                                     group_key=getattr(mod, "GROUP_KEY", None))
            rep.add_trace_stats(stats)
            verdicts.update(vd)
        except tlc.TLCError as e:
            rep.machinery(str(e))
    rep.traces = len(verdicts)
    classify = getattr(mod, "classify", None)
    for tid, v in verdicts.items():
        rec = by_tid[tid]
        pfail, mfail = v[0], v[1]
        extra = v[2:]
        case = case_by_cid.get(rec["_cid"])
        if getattr(mod, "nontrivial", None) is None or mod.nontrivial(rec):
            rep.mark_nontrivial(rec.get("_sig", rec["_cid"]))
        if len(rep.samples) < 3:
            rep.sample({"case": case, "verdict": list(v)})
        outcome = classify(rec, pfail, mfail, extra, rep) if classify else None
        if outcome is None:
            if pfail != "none":
                outcome = "violation"
            elif mfail != "none":
                outcome = "drift"
            else:
                outcome = "ok"
        if outcome == "violation":
            rep.violation(tid, pfail, {"case": case, "record": {k: v2 for k, v2 in rec.items() if not k.startswith("_")}})
        elif outcome == "drift":
            rep.drift(tid, mfail)
        elif outcome.startswith("known:"):
            pass
    if replay:
        for tid, v in verdicts.items():
            print("REPLAY", tid, v)
    return rep.finish(mod.RULE, assumptions=getattr(mod, "ASSUMPTIONS", []), extra=getattr(mod, "extra_coverage", lambda: None)())
