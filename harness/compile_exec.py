"""Driving the real compile functions under the tracer and projecting the result."""
import io
import math

from fontTools.ttLib import TTFont

from . import absfont, project, snapshot, tracer
from .absfont import PS


def _tol_scaled(tol):
    if tol is None:
        return PS // 2
    return absfont.to_scaled(tol, PS)


def _sample_contour_source(contour, n=24):
    """Dense samples of a closed source contour given as abstract points (scaled ints)."""
    from fontTools.pens.recordingPen import RecordingPen
    from fontTools.pens.pointPen import PointToSegmentPen

    rec = RecordingPen()
    pen = PointToSegmentPen(rec, outputImpliedClosingLine=True)
    pen.beginPath()
    for x, y, t in contour:
        pen.addPoint((x / PS, y / PS), None if t == "off" else t)
    pen.endPath()
    return _sample_recording(rec.value, n)


def _sample_recording(value, n=24):
    from fontTools.misc.bezierTools import cubicPointAtT, quadraticPointAtT
    from fontTools.pens.basePen import decomposeQuadraticSegment

    pts = []
    cur = None
    start = None
    for op, args in value:
        if op == "moveTo":
            cur = start = args[0]
            pts.append(cur)
        elif op == "lineTo":
            for k in range(1, n + 1):
                t = k / n
                pts.append((cur[0] + (args[0][0] - cur[0]) * t, cur[1] + (args[0][1] - cur[1]) * t))
            cur = args[0]
        elif op == "curveTo":
            for k in range(1, n + 1):
                pts.append(cubicPointAtT(cur, args[0], args[1], args[2], k / n))
            cur = args[2]
        elif op == "qCurveTo":
            if args[-1] is None:
                continue
            for q, p1 in decomposeQuadraticSegment(args):
                for k in range(1, n + 1):
                    pts.append(quadraticPointAtT(cur, q, p1, k / n))
                cur = p1
        elif op == "closePath" and cur is not None and start is not None and cur != start:
            for k in range(1, n + 1):
                t = k / n
                pts.append((cur[0] + (start[0] - cur[0]) * t, cur[1] + (start[1] - cur[1]) * t))
    return pts


def _hausdorff(a, b):
    """max over sample points of one curve of the distance to the other curve's closed polyline (both directions)."""

    def one(P, Q):
        segs = []
        m = len(Q)
        for k in range(m):
            ax, ay = Q[k]
            bx, by = Q[(k + 1) % m]
            dx, dy = bx - ax, by - ay
            segs.append((ax, ay, dx, dy, dx * dx + dy * dy or 1e-18))
        worst = 0.0
        for x, y in P:
            best = 1e30
            for ax, ay, dx, dy, l2 in segs:
                t = ((x - ax) * dx + (y - ay) * dy) / l2
                t = 0.0 if t < 0 else (1.0 if t > 1 else t)
                ex, ey = ax + dx * t - x, ay + dy * t - y
                d = ex * ex + ey * ey
                if d < best:
                    best = d
            if best > worst:
                worst = best
        return worst ** 0.5

    return max(one(a, b), one(b, a))


def cu2qu_error_milli(src, f2):
    """max deviation (1/1000 units) between cubic source contours of simple glyphs and the stored glyf contours."""
    from fontTools.pens.recordingPen import RecordingPen

    worst = 0.0
    measured = 0
    gs = f2.getGlyphSet()
    glyf = f2["glyf"] if "glyf" in f2 else None
    for name, g in src.items():
        if name not in gs:
            continue
        if g["comps"]:
            # a MIXED glyph (own contours + components) is decomposed by the pre-processor, from the cubic source: measured
            # against its resolved source form.  (Pure composites that fontTools has to decompose when building glyf --
            # 2x2 outside F2Dot14 -- are decomposed after the conversion by necessity: environment, not measured.)
            if not g["cs"] or glyf is None or glyf[name].isComposite() or glyf[name].numberOfContours <= 0:
                continue
            try:
                g = resolved_form(src, name)
            except Exception:  # noqa -- inexact / missing base: not measured
                continue
        if not g["cs"]:
            continue
        if not any(p[2] == "curve" for c in g["cs"] for p in c):
            continue
        rec = RecordingPen()
        gs[name].draw(rec)
        # split recording per contour
        contours, cur = [], []
        for op, args in rec.value:
            cur.append((op, args))
            if op in ("closePath", "endPath"):
                contours.append(cur)
                cur = []
        if len(contours) != len(g["cs"]):
            return 10 ** 6, measured
        for c_src, c_out in zip(g["cs"], contours):
            # sampling density grows with the size of the contour, so that the chord error of the sampled polylines stays
            # well below the tolerance for enlarged shapes too
            xs = [p[0] / PS for p in c_src]
            ys = [p[1] / PS for p in c_src]
            dim = max(max(xs) - min(xs), max(ys) - min(ys), 1.0)
            n = int(min(120, max(24, 24 * math.ceil(dim / 250.0))))
            a = _sample_contour_source(c_src, n)
            b = _sample_recording(c_out, n)
            worst = max(worst, _hausdorff(a, b))
            measured += 1
    return int(worst * 1000), measured


def unrounded_cu2qu_error_milli(case):
    """Largest distance (1/1000 unit) between the cubic source contours of the simple glyphs and what TTFPreProcessor makes
    of them BEFORE any rounding to the grid -- the quantity the configured conversion error bounds."""
    from fontTools.pens.recordingPen import RecordingPen

    from ufo2ft.preProcessor import TTFPreProcessor

    font = absfont.build_font(case["ufo"], case.get("lib", "ufoLib2"))
    kw = dict(case.get("kwargs") or {})
    pre = TTFPreProcessor(font, convertCubics=True, reverseDirection=False, conversionError=kw.get("cubicConversionError"))
    gs = pre.process()
    src = case["ufo"]["glyphs"]
    worst, measured = 0.0, 0
    for name, g in src.items():
        if g["comps"] or not g["cs"] or name not in gs:
            continue
        if not any(p[2] == "curve" for c in g["cs"] for p in c):
            continue
        rec = RecordingPen()
        gs[name].draw(rec)
        contours, cur = [], []
        for op, args in rec.value:
            cur.append((op, args))
            if op in ("closePath", "endPath"):
                contours.append(cur)
                cur = []
        if len(contours) != len(g["cs"]):
            return 10 ** 6, 1
        for c_src, c_out in zip(g["cs"], contours):
            a = _sample_contour_source(c_src, 80)
            b = _sample_recording(c_out, 80)
            worst = max(worst, _hausdorff(a, b))
            measured += 1
    return int(worst * 1000), measured


def static_compile(case, glyphsets=True, font=None):
    """case: {cid, lib, flavor: cff|tt, ufo: abstract ufo, kwargs: {...}, expectErr: ""}
    returns one PipelineTrace record."""
    import ufo2ft

    lib = case.get("lib", "ufoLib2")
    flavor = case["flavor"]
    if font is None:
        font = absfont.build_font(case["ufo"], lib)      # (else: a font object the caller obtained otherwise, e.g. an instance)
    kwargs = dict(case.get("kwargs") or {})
    kw = dict(kwargs)
    if "filters" in kw:
        from .checks import filters_common as fc

        kw["filters"] = [fc.make_filter(s) if s != "..." else ... for s in kw["filters"]]
    fn = ufo2ft.compileOTF if flavor == "cff" else ufo2ft.compileTTF
    kw.setdefault("useProductionNames", False)
    # (layerName: the glyphs of that layer are what is compiled; lib and info are the font's)
    src = absfont.abs_glyphset({g.name: g for g in (font.layers[kwargs["layerName"]] if kwargs.get("layerName") else font)})
    skip = kwargs.get("skipExportGlyphs")
    if skip is None:
        skip = case.get("expectSkip")
    if skip is None:
        skip = (case["ufo"].get("lib") or {}).get("public.skipExportGlyphs", [])
    rec = {
        "tid": case["cid"],
        "flavor": flavor,
        "src": src,
        "opts": {
            "skip": sorted(skip),
            "tolS": _tol_scaled(kwargs.get("roundTolerance")),
            "inplace": bool(kwargs.get("inplace", False)),
            "flatten": bool(kwargs.get("flattenComponents", False)),
            "convertCubics": bool(kwargs.get("convertCubics", True)),
            "reverse": bool(kwargs.get("reverseDirection", True)),
            "expectErr": case.get("expectErr", ""),
            # cubicConversionError (default 1/1000 em) + coordinate rounding (0.71) + sampling slack
            "tolMilli": int(1000 * ((kwargs.get("cubicConversionError") or 0.001) * (case["ufo"].get("info", {}).get("unitsPerEm", 1000)) + 1.5)),
        },
    }
    with tracer.tracing([font], glyphsets=glyphsets) as tr:
        try:
            otf = fn(font, **kw)
            err = ""
        except Exception as e:  # noqa
            otf, err = None, type(e).__name__
        end = tr.src_state()
    rec["events"] = tr.events + [dict(ev="End", **end)]
    if err:
        rec["ret"] = {"err": err}
        return rec
    try:
        data, f2 = project.save_reload(otf)
    except Exception as e:  # noqa
        rec["ret"] = {"err": "Save:" + type(e).__name__}
        return rec
    ret = {"order": f2.getGlyphOrder(), "adv": project.advances(f2)}
    try:
        if flavor == "cff":
            ret["outline"] = project.cff_outlines(f2)
            if "CFF " in f2:
                # the advance each charstring itself declares (nominalWidthX + operand, or defaultWidthX when omitted)
                from fontTools.pens.basePen import NullPen

                top = f2["CFF "].cff.topDictIndex[0]
                cw = {}
                for n_ in f2.getGlyphOrder():
                    cs_ = top.CharStrings[n_]
                    cs_.draw(NullPen())
                    cw[n_] = int(cs_.width)
                ret["cffAdv"] = cw
        else:
            ret["glyf"] = project.glyf_glyphs(f2)
            if rec["opts"]["convertCubics"]:
                em, nm = cu2qu_error_milli(src, f2)
                if nm:
                    ret["errMilli"] = em
                if case.get("measureUnrounded"):
                    pm, pn = unrounded_cu2qu_error_milli(case)
                    if pn:
                        ret["preErrMilli"] = pm
                        upm_ = case["ufo"].get("info", {}).get("unitsPerEm", 1000)
                        rec["opts"]["preTolMilli"] = int(1100 * (kwargs.get("cubicConversionError") or 0.001) * upm_) + 150      # (+10 % and 0.15 unit: chord error of the sampled polylines)
            mp = f2["maxp"]
            ret["maxp"] = {"maxComponentElements": mp.maxComponentElements, "maxComponentDepth": mp.maxComponentDepth,
                           "numGlyphs": mp.numGlyphs}
    except absfont.Inexact as e:
        return {"tid": case["cid"], "skip": True, "why": f"inexact output: {e}"}
    if case.get("wantLayout"):
        td = project.table_digests(data)
        rec["_layout"] = {t: td.get(t) for t in ("GPOS", "GSUB", "GDEF")}
    if case.get("wantCmap"):
        names = set()
        for t in f2["cmap"].tables:
            names |= set(t.cmap.values())
        ret["cmapNames"] = sorted(names)
    rec["ret"] = ret
    rec["_bytes"] = project.sha_bytes(data)
    return rec


def resolved_form(glyphs, name):
    """Abstract glyph `name` of the abstract glyph set `glyphs` with its components replaced by contours (input
    construction only: a point-compatible contour form of a composite, for masters that draw what others compose)."""
    from fontTools.pens.filterPen import DecomposingFilterPointPen

    font = absfont.build_font({"glyphs": glyphs}, "ufoLib2")
    from ufoLib2.objects import Glyph

    out = Glyph(name)
    g = font[name]
    out.width = g.width
    pen = DecomposingFilterPointPen(out.getPointPen(), font, reverseFlipped=True)
    g.drawPoints(pen)
    for a in g.anchors:
        out.appendAnchor({"name": a.name, "x": a.x, "y": a.y})
    res = absfont.abs_glyph(out)
    res["u"] = list(glyphs[name].get("u", []))
    return res


def interp_cff_compile(case):
    """case: {cid, lib, masters: [abstract glyph sets], kwargs}; compileInterpolatableOTFsFromDS; returns one
    PipelineTrace record per master (no hook events: the final clauses are evaluated against that master's source)."""
    import copy

    import ufo2ft

    from . import dsbuild

    lib = case.get("lib", "ufoLib2")
    nm = len(case["masters"])
    locs = [0, 8] if nm == 2 else [0, 4, 8]
    fam_masters = []
    for k, gs in enumerate(case["masters"]):
        ufo = {"glyphs": copy.deepcopy(gs), "order": sorted(gs), "glyphNames": sorted(gs),
               "info": {"unitsPerEm": 1000, "ascender": 800, "descender": -200, "familyName": "Interp", "styleName": f"M{k}"}}
        fam_masters.append({"loc": {"Weight": locs[k]}, "ufo": ufo, "name": f"M{k}"})
    family = {"axes": [{"name": "Weight", "tag": "wght", "min": 0, "default": 0, "max": 8}], "masters": fam_masters, "lib": {}}
    ds = dsbuild.build_designspace(family, lib)
    kwargs = dict(case.get("kwargs") or {})
    kw = dict(kwargs)
    kw["useProductionNames"] = False
    srcs = [absfont.abs_glyphset({g.name: g for g in s.font}) for s in ds.sources]
    recs = []
    try:
        if case.get("fn") == "varcff2":
            # the variable font, instantiated at every master's location, is judged against that master's source
            import io

            from fontTools.ttLib import TTFont
            from fontTools.varLib import instancer

            vf = ufo2ft.compileVariableCFF2(ds, **kw)
            data, _ = project.save_reload(vf)
            outs = [instancer.instantiateVariableFont(TTFont(io.BytesIO(data)), {"wght": loc}, inplace=False) for loc in locs]
        else:
            outs = [s.font for s in ufo2ft.compileInterpolatableOTFsFromDS(ds, **kw).sources]
        err = ""
    except Exception as e:  # noqa
        outs, err = [None] * nm, type(e).__name__ + ":" + str(e)[:80]
    for k, (src, otf) in enumerate(zip(srcs, outs)):
        rec = {"tid": f"{case['cid']}-m{k}", "flavor": "cff", "src": src, "master": k, "events": [],
               "opts": {"skip": [], "tolS": _tol_scaled(kwargs.get("roundTolerance")), "inplace": False, "flatten": False,
                        "convertCubics": True, "reverse": True, "expectErr": "", "tolMilli": 0}}
        if err:
            rec["ret"] = {"err": err}
            recs.append(rec)
            continue
        try:
            data, f2 = project.save_reload(otf)
            rec["ret"] = {"order": f2.getGlyphOrder(), "adv": project.advances(f2), "outline": project.cff_outlines(f2)}
            rec["_bytes"] = project.sha_bytes(data)
        except absfont.Inexact as e:
            recs.append({"tid": rec["tid"], "skip": True, "why": f"inexact output: {e}"})
            continue
        except Exception as e:  # noqa
            rec["ret"] = {"err": "Save:" + type(e).__name__}
        recs.append(rec)
    return recs


def interp_tt_compile(case):
    """case: {cid, lib, masters: [abstract glyph sets], kwargs, via: "list" | "ds"}; compileInterpolatableTTFs /
    compileInterpolatableTTFsFromDS; one PipelineTrace record per master, judged against that master's own source."""
    import copy

    import ufo2ft

    from . import dsbuild

    lib = case.get("lib", "ufoLib2")
    nm = len(case["masters"])
    locs = [0, 8] if nm == 2 else [0, 4, 8]
    fam_masters = []
    for k, gs in enumerate(case["masters"]):
        ufo = {"glyphs": copy.deepcopy(gs), "order": sorted(gs), "glyphNames": sorted(gs),
               "info": {"unitsPerEm": 1000, "ascender": 800, "descender": -200, "familyName": "InterpTT", "styleName": f"M{k}"}}
        fam_masters.append({"loc": {"Weight": locs[k]}, "ufo": ufo, "name": f"M{k}"})
    family = {"axes": [{"name": "Weight", "tag": "wght", "min": 0, "default": 0, "max": 8}], "masters": fam_masters, "lib": {}}
    ds = dsbuild.build_designspace(family, lib)
    kwargs = dict(case.get("kwargs") or {})
    kw = dict(kwargs)
    kw["useProductionNames"] = False
    srcs = [absfont.abs_glyphset({g.name: g for g in s.font}) for s in ds.sources]
    try:
        if case.get("via") == "list":
            outs = list(ufo2ft.compileInterpolatableTTFs([s.font for s in ds.sources], **kw))
        else:
            outs = [s.font for s in ufo2ft.compileInterpolatableTTFsFromDS(ds, **kw).sources]
        err = ""
    except Exception as e:  # noqa
        outs, err = [None] * nm, type(e).__name__ + ":" + str(e)[:80]
    recs = []
    for k, (src, ttf) in enumerate(zip(srcs, outs)):
        rec = {"tid": f"{case['cid']}-m{k}", "flavor": "tt", "src": src, "master": k, "events": [],
               "opts": {"skip": [], "tolS": PS // 2, "inplace": False, "flatten": bool(kwargs.get("flattenComponents", False)),
                        "convertCubics": True, "reverse": bool(kwargs.get("reverseDirection", True)), "expectErr": "",
                        "tolMilli": int(1000 * ((kwargs.get("cubicConversionError") or 0.001) * 1000 + 1.5))}}
        if err:
            rec["ret"] = {"err": err}
            recs.append(rec)
            continue
        try:
            data, f2 = project.save_reload(ttf)
            ret = {"order": f2.getGlyphOrder(), "adv": project.advances(f2), "glyf": project.glyf_glyphs(f2)}
            em, n = cu2qu_error_milli(src, f2)
            if n:
                ret["errMilli"] = em
            mp = f2["maxp"]
            ret["maxp"] = {"maxComponentElements": mp.maxComponentElements, "maxComponentDepth": mp.maxComponentDepth, "numGlyphs": mp.numGlyphs}
            rec["ret"] = ret
        except absfont.Inexact as e:
            recs.append({"tid": rec["tid"], "skip": True, "why": f"inexact output: {e}"})
            continue
        recs.append(rec)
    return recs
