"""Whole-font observations for C03 / C04 (order, cmap, metrics headers, re-save identity)."""
import io

from fontTools.pens.boundsPen import BoundsPen, ControlBoundsPen
from fontTools.ttLib import TTFont

from . import absfont, project
from .absfont import PS


def _otround(v):
    import math

    return int(math.floor(v + 0.5))


def font_record(case):
    """case: {cid, lib, flavor, ufo (abstract, with optional order / lib / info), kwargs}"""
    import ufo2ft

    lib = case.get("lib", "ufoLib2")
    ufo = case["ufo"]
    font = absfont.build_font(ufo, lib)
    for name, vo in (ufo.get("verticalOrigin") or {}).items():
        font[name].verticalOrigin = vo
    kwargs = dict(case.get("kwargs") or {})
    kwargs.setdefault("useProductionNames", False)
    fn = ufo2ft.compileOTF if case["flavor"] == "cff" else ufo2ft.compileTTF
    names = sorted(ufo["glyphs"])
    req = kwargs.get("glyphOrder")
    if req is None:
        # what the UFO library exposes as font.glyphOrder (defcon synthesises one, ufoLib2 reads the lib key)
        req = list(getattr(font, "glyphOrder", ()) or [])
    allnames = set(names) | set(req) | {".notdef"}
    rec = {
        "tid": case["cid"],
        "flavor": case["flavor"],
        "names": names,
        "req": list(req),
        "cps": {n: [ord(ch) for ch in n] for n in sorted(allnames)},
        "unicodes": {n: list(ufo["glyphs"][n].get("u", [])) for n in names},
        "uvs": [[int(vs, 16), int(cp, 16), g] for vs, m in sorted((ufo.get("lib") or {}).get("public.unicodeVariationSequences", {}).items())
                for cp, g in sorted(m.items())],
        "vertical": bool(case.get("vertical")),
        "srcAdv": {n: ufo["glyphs"][n]["w"] for n in names},
        "srcHgt": {n: ufo["glyphs"][n].get("h", 0) for n in names},
    }
    try:
        via = case.get("via", "static")
        if via == "static" and case.get("ttInstr"):
            # TrueType glyph programs (public.truetype.instructions): their "id" is the hash of the compiled glyph, so the
            # font is compiled once without them to learn the hashes (the way an editor stores them), then with them
            from functools import partial

            from fontTools.misc.fixedTools import floatToFixedToFloat
            from fontTools.pens.hashPointPen import HashPointPen
            from fontTools.pens.roundingPen import RoundingPointPen

            probe = fn(absfont.build_font(ufo, lib), **kwargs)
            for name, nbytes in case["ttInstr"].items():
                if name not in probe["glyf"].glyphs and name not in probe.getGlyphOrder():
                    continue
                hp = HashPointPen(probe["hmtx"][name][0], probe.getGlyphSet())
                probe["glyf"][name].drawPoints(RoundingPointPen(hp, transformRoundFunc=partial(floatToFixedToFloat, precisionBits=14)), probe["glyf"])
                font[name].lib["public.truetype.instructions"] = {"formatVersion": "1", "id": hp.hash,
                                                                  "assembly": "\n".join(["SVTCA[0]"] * nbytes)}
            rec["ttInstr"] = dict(case["ttInstr"])
        if via == "static":
            otf = fn(font, **kwargs)
        else:
            # the same UFO as the default master of a two-master family (the other master is wider): the variable font /
            # the first interpolatable master must carry the default master's order, character map and metrics
            import copy

            from . import dsbuild

            u1 = copy.deepcopy(ufo)
            for g in u1["glyphs"].values():
                if g["w"]:
                    g["w"] += 20 * PS
            u1["info"] = dict(u1.get("info") or {}, styleName="Wide")
            fam = {"axes": [{"name": "Weight", "tag": "wght", "min": 0, "default": 0, "max": 8}],
                   "masters": [{"loc": {"Weight": 0}, "ufo": ufo, "name": "M0"}, {"loc": {"Weight": 8}, "ufo": u1, "name": "M1"}]}
            ds = dsbuild.build_designspace(fam, lib)
            for s_ in ds.sources:
                for name, vo in (ufo.get("verticalOrigin") or {}).items():
                    s_.font[name].verticalOrigin = vo
            if via == "vf":
                otf = (ufo2ft.compileVariableTTF if case["flavor"] == "tt" else ufo2ft.compileVariableCFF2)(ds, **kwargs)
            else:
                dfn = ufo2ft.compileInterpolatableTTFsFromDS if case["flavor"] == "tt" else ufo2ft.compileInterpolatableOTFsFromDS
                otf = dfn(ds, **kwargs).sources[0].font
    except Exception as e:  # noqa
        rec["ret"] = {"err": type(e).__name__}
        rec["_msg"] = str(e)[:200]
        return rec
    # derived fields as the compile function returns them (fontTools recomputes several of them when saving)
    mem = {}
    try:
        mem["os2"] = [otf["OS/2"].usFirstCharIndex, otf["OS/2"].usLastCharIndex]
        mem["hhea"] = [getattr(otf["hhea"], k) for k in ("advanceWidthMax", "minLeftSideBearing", "minRightSideBearing", "xMaxExtent", "numberOfHMetrics")]
        mem["head"] = [getattr(otf["head"], k) for k in ("xMin", "yMin", "xMax", "yMax")]
        mem["numGlyphs"] = otf["maxp"].numGlyphs
    except Exception as e:  # noqa
        mem = {"err": type(e).__name__}
    try:
        data, f2 = project.save_reload(otf)
    except Exception as e:  # noqa
        rec["ret"] = {"err": "Save:" + type(e).__name__}
        return rec
    buf = io.BytesIO()
    f2.save(buf)
    data2 = buf.getvalue()
    f2 = TTFont(io.BytesIO(data))
    order = f2.getGlyphOrder()
    ret = {"order": order, "resaveEqual": data2 == data, "mem": mem}
    cm = []
    uvs = []
    for t in f2["cmap"].tables:
        if t.format == 14:
            for vs, lst in sorted(t.uvsDict.items()):
                for cp, g in lst:
                    uvs.append([vs, cp, g or ""])
        else:
            cm.append({"fmt": t.format, "plat": t.platformID, "enc": t.platEncID,
                       "map": [[cp, g] for cp, g in sorted(t.cmap.items())]})
    ret["cmaps"] = cm
    ret["uvs"] = uvs
    hm = f2["hmtx"]
    ret["adv"] = {n: hm[n][0] for n in order}
    ret["lsb"] = {n: hm[n][1] for n in order}
    gs = f2.getGlyphSet()
    box = {}
    hdr = {}
    for n in order:
        if "glyf" in f2:
            g = f2["glyf"][n]
            if g.numberOfContours == 0:
                box[n] = []
            else:
                hdr[n] = [g.xMin, g.yMin, g.xMax, g.yMax]
                if g.isComposite():
                    box[n] = hdr[n]
                else:
                    coords, _, _ = g.getCoordinates(f2["glyf"])
                    xs = [c[0] for c in coords]
                    ys = [c[1] for c in coords]
                    box[n] = [min(xs), min(ys), max(xs), max(ys)]
        else:
            pen = BoundsPen(gs)
            gs[n].draw(pen)
            if pen.bounds is None:
                box[n] = []
            else:
                b = pen.bounds
                box[n] = [_otround(b[0]), _otround(b[1]), _otround(b[2]), _otround(b[3])]
    ret["box"] = box
    ret["hdrbox"] = hdr
    hh = f2["hhea"]
    ret["hhea"] = {k: getattr(hh, k) for k in ("advanceWidthMax", "minLeftSideBearing", "minRightSideBearing", "xMaxExtent",
                                               "numberOfHMetrics")}
    hd = f2["head"]
    ret["head"] = {k: getattr(hd, k) for k in ("xMin", "yMin", "xMax", "yMax")}
    ret["maxp"] = {"numGlyphs": f2["maxp"].numGlyphs}
    if "glyf" in f2:
        # every glyph-derived maxp count next to the same quantity computed from the stored glyph data
        mp, glyf = f2["maxp"], f2["glyf"]
        stored = {"maxPoints": 0, "maxContours": 0, "maxCompositePoints": 0, "maxCompositeContours": 0, "maxComponentElements": 0,
                  "maxComponentDepth": 0, "maxSizeOfInstructions": 0}

        def depth(n):
            g = glyf[n]
            return 0 if not g.isComposite() else 1 + max(depth(c.glyphName) for c in g.components)

        for n in order:
            g = glyf[n]
            if g.numberOfContours == 0:
                continue
            coords, ends, _ = g.getCoordinates(glyf)
            if g.isComposite():
                stored["maxCompositePoints"] = max(stored["maxCompositePoints"], len(coords))
                stored["maxCompositeContours"] = max(stored["maxCompositeContours"], len(ends))
                stored["maxComponentElements"] = max(stored["maxComponentElements"], len(g.components))
                stored["maxComponentDepth"] = max(stored["maxComponentDepth"], depth(n))
            else:
                stored["maxPoints"] = max(stored["maxPoints"], len(coords))
                stored["maxContours"] = max(stored["maxContours"], len(ends))
            if hasattr(g, "program") and g.program:
                stored["maxSizeOfInstructions"] = max(stored["maxSizeOfInstructions"], len(g.program.getBytecode()))
        ret["maxpStored"] = stored
        ret["maxpTable"] = {k: getattr(mp, k) for k in stored}
        if "ttInstr" in rec:
            ret["programs"] = {n: (len(glyf[n].program.getBytecode()) if hasattr(glyf[n], "program") and glyf[n].program else 0)
                               for n in order if n in rec["ttInstr"]}
    os2 = f2["OS/2"]
    ret["os2"] = {"first": os2.usFirstCharIndex, "last": os2.usLastCharIndex, "typoAscender": os2.sTypoAscender}
    if "glyf" in f2:
        fresh = TTFont(io.BytesIO(data))
        post = fresh["post"]
        ret["nameList"] = list(getattr(post, "glyphOrder", None) or order) if post.formatType == 2.0 else order
    else:
        tag = "CFF " if "CFF " in f2 else "CFF2"
        td = f2[tag].cff.topDictIndex[0]
        ret["nameList"] = list(td.charset) if hasattr(td, "charset") and td.charset else order
    if "CFF " in f2:
        # the advance each CFF charstring itself declares (nominalWidthX + operand, or defaultWidthX when the operand is absent)
        from fontTools.pens.basePen import NullPen

        top = f2["CFF "].cff.topDictIndex[0]
        cw = {}
        for n_ in order:
            cs_ = top.CharStrings[n_]
            cs_.draw(NullPen())
            cw[n_] = int(cs_.width)
        ret["cffAdv"] = cw
    if "vhea" in f2:
        vh = f2["vhea"]
        ret["vhea"] = {k: getattr(vh, k) for k in ("advanceHeightMax", "minTopSideBearing", "minBottomSideBearing",
                                                   "yMaxExtent", "numberOfVMetrics")}
        vm = f2["vmtx"]
        ret["vadv"] = {n: vm[n][0] for n in order}
        ret["tsb"] = {n: vm[n][1] for n in order}
        vo = {}
        for n in order:
            v = (ufo.get("verticalOrigin") or {}).get(n)
            vo[n] = _otround(v) if v is not None else os2.sTypoAscender
        ret["vo"] = vo
        if "VORG" in f2:
            vg = f2["VORG"]
            ret["vorg"] = {"default": vg.defaultVertOriginY, "records": [[k, v] for k, v in sorted(vg.VOriginRecords.items())]}
    rec["ret"] = ret
    return rec


def isoadobe_prefix_failure(rec):
    """Known finding F-C04-1: CFF1 + cffsubr and a glyph order that is a prefix of the ISOAdobe charset."""
    from fontTools.cffLib import cffISOAdobeStrings

    if rec.get("flavor") != "cff" or not rec.get("ret", {}).get("err", "").startswith("Save:"):
        return False
    names = [n for n in rec["names"] if n != ".notdef"]
    order = [".notdef"] + sorted(names)
    return order == list(cffISOAdobeStrings[: len(order)])
