"""Structural projection of GPOS / GDEF tables and Unicode-derived glyph properties (abstract JSON)."""
from fontTools import unicodedata

DFLT = {"Zyyy", "Zinh"}
ALIASES = {"Hira": "Hrkt", "Kana": "Hrkt"}


def _cov(cov, gid):
    return [gid[g] for g in cov.glyphs] if cov is not None else []


def _classdef(cd, gid):
    if cd is None:
        return []
    return sorted([gid[g], c] for g, c in cd.classDefs.items() if g in gid)


def _val(v):
    if v is None:
        return {"adv": 0, "plc": 0, "yadv": 0, "yplc": 0}
    return {"adv": int(getattr(v, "XAdvance", 0) or 0), "plc": int(getattr(v, "XPlacement", 0) or 0),
            "yadv": int(getattr(v, "YAdvance", 0) or 0), "yplc": int(getattr(v, "YPlacement", 0) or 0)}


def _anchor(a):
    if a is None:
        return [0, 0, 0]
    return [1, int(a.XCoordinate), int(a.YCoordinate)]


def _subtable(st, ltype, gid):
    if ltype == 9:
        return _subtable(st.ExtSubTable, st.ExtensionLookupType, gid)
    if ltype == 2:
        if st.Format == 1:
            sets = []
            for ps in st.PairSet:
                sets.append([dict(g2=gid[r.SecondGlyph], v2=int(r.Value2 is not None and any(vars(r.Value2).values())), **_val(r.Value1))
                             for r in ps.PairValueRecord])
            return 2, {"k": "pp1", "cov": _cov(st.Coverage, gid), "sets": sets}
        recs = []
        for c1 in st.Class1Record:
            recs.append([dict(v2=int(c2.Value2 is not None and any((vars(c2.Value2) or {}).values())), **_val(c2.Value1)) for c2 in c1.Class2Record])
        return 2, {"k": "pp2", "cov": _cov(st.Coverage, gid), "cd1": _classdef(st.ClassDef1, gid), "cd2": _classdef(st.ClassDef2, gid),
                   "recs": recs}
    if ltype == 4:
        marks = [[gid[g], r.Class] + _anchor(r.MarkAnchor)[1:] for g, r in zip(st.MarkCoverage.glyphs, st.MarkArray.MarkRecord)]
        bases = [[gid[g], [_anchor(a) for a in r.BaseAnchor]] for g, r in zip(st.BaseCoverage.glyphs, st.BaseArray.BaseRecord)]
        return 4, {"k": "mb", "marks": marks, "bases": bases}
    if ltype == 5:
        marks = [[gid[g], r.Class] + _anchor(r.MarkAnchor)[1:] for g, r in zip(st.MarkCoverage.glyphs, st.MarkArray.MarkRecord)]
        ligs = [[gid[g], [[_anchor(a) for a in c.LigatureAnchor] for c in la.ComponentRecord]]
                for g, la in zip(st.LigatureCoverage.glyphs, st.LigatureArray.LigatureAttach)]
        return 5, {"k": "ml", "marks": marks, "ligs": ligs}
    if ltype == 6:
        marks = [[gid[g], r.Class] + _anchor(r.MarkAnchor)[1:] for g, r in zip(st.Mark1Coverage.glyphs, st.Mark1Array.MarkRecord)]
        bases = [[gid[g], [_anchor(a) for a in r.Mark2Anchor]] for g, r in zip(st.Mark2Coverage.glyphs, st.Mark2Array.Mark2Record)]
        return 6, {"k": "mm", "marks": marks, "bases": bases}
    if ltype == 3:
        recs = [[gid[g], _anchor(r.EntryAnchor), _anchor(r.ExitAnchor)] for g, r in zip(st.Coverage.glyphs, st.EntryExitRecord)]
        return 3, {"k": "curs", "recs": recs}
    return ltype, {"k": "other"}


def gpos(font):
    order = font.getGlyphOrder()
    gid = {n: i for i, n in enumerate(order)}
    if "GPOS" not in font:
        return {"scripts": [], "features": [], "lookups": []}
    t = font["GPOS"].table
    lookups = []
    for lk in (t.LookupList.Lookup if t.LookupList else []):
        subs = []
        ltype = lk.LookupType
        for st in lk.SubTable:
            ltype, s = _subtable(st, lk.LookupType, gid)
            subs.append(s)
        lookups.append({"type": ltype, "flag": int(lk.LookupFlag), "mfs": int(lk.MarkFilteringSet) if lk.LookupFlag & 0x10 else -1,
                        "subs": subs})
    feats = [{"tag": fr.FeatureTag, "lookups": list(fr.Feature.LookupListIndex)} for fr in (t.FeatureList.FeatureRecord if t.FeatureList else [])]
    scripts = []
    for sr in (t.ScriptList.ScriptRecord if t.ScriptList else []):
        d = sr.Script.DefaultLangSys
        scripts.append({"tag": sr.ScriptTag, "hasDflt": d is not None, "dflt": list(d.FeatureIndex) if d is not None else [],
                        "langs": [{"tag": lr.LangSysTag, "feats": list(lr.LangSys.FeatureIndex)} for lr in sr.Script.LangSysRecord]})
    return {"scripts": scripts, "features": feats, "lookups": lookups}


def gdef(font):
    order = font.getGlyphOrder()
    gid = {n: i for i, n in enumerate(order)}
    if "GDEF" not in font:
        return {"classes": [], "markSets": [], "carets": []}
    t = font["GDEF"].table
    classes = _classdef(t.GlyphClassDef, gid)
    sets = []
    if getattr(t, "MarkGlyphSetsDef", None) is not None:
        for cov in t.MarkGlyphSetsDef.Coverage:
            sets.append(sorted(_cov(cov, gid)))
    carets = []
    if getattr(t, "LigCaretList", None) is not None and t.LigCaretList.Coverage is not None:
        for g, lg in zip(t.LigCaretList.Coverage.glyphs, t.LigCaretList.LigGlyph):
            carets.append([gid[g], [[cv.Format, int(cv.Coordinate) if cv.Format == 1 else int(getattr(cv, "CaretValuePoint", 0))] for cv in lg.CaretValue]])
    return {"classes": classes, "markSets": sets, "carets": carets}


def script_of_tag(tag):
    if tag == "DFLT":
        return "Zyyy"
    try:
        return unicodedata.ot_tag_to_script(tag) or "Zzzz"
    except Exception:
        return "Zzzz"


def script_is_rtl(script):
    if script in DFLT:
        return False
    return unicodedata.script_horizontal_direction(script, "LTR") == "RTL"


def bidi_of_cp(cp):
    b = unicodedata.bidirectional(chr(cp))
    if b in ("R", "AL"):
        return "R"
    if b in ("L", "AN", "EN"):
        return "L"
    return None


def glyph_properties(font):
    """Per glyph: script-extension set and bidi set, closed over GSUB (independent re-implementation of the
    classification rule: code points via cmap, glyphs reachable by substitution inherit)."""
    from fontTools import subset

    order = font.getGlyphOrder()
    cmap = font.getBestCmap() or {}
    scripts = {n: set() for n in order}
    primary = {n: set() for n in order}
    by_primary = {}
    bidis = {n: set() for n in order}
    neutral_s, neutral_b = set(), set()
    by_script, by_bidi = {}, {}
    single = {n: set() for n in order}
    for cp, g in cmap.items():
        sx = {ALIASES.get(s, s) for s in unicodedata.script_extension(chr(cp))}
        if len(sx) == 1:
            single[g] |= sx
        for s in sx:
            by_script.setdefault(s, set()).add(g)
        by_primary.setdefault(unicodedata.script(chr(cp)), set()).add(g)
        b = bidi_of_cp(cp)
        if b is None:
            neutral_b.add(g)
        else:
            by_bidi.setdefault(b, set()).add(g)
    gsub = font["GSUB"].table if "GSUB" in font and font["GSUB"].table.LookupList else None

    def close(glyphs):
        if gsub is None:
            return set(glyphs)
        s = subset.Subsetter()
        s.glyphs = set(glyphs)
        font["GSUB"].closure_glyphs(s)
        return set(s.glyphs)

    for s, gl in by_script.items():
        for g in close(gl):
            scripts[g].add(s)
    for s, gl in by_primary.items():
        for g in close(gl):
            primary[g].add(s)
    nb = close(neutral_b) if neutral_b else set()
    for b, gl in by_bidi.items():
        for g in close(gl | nb) - nb:
            bidis[g].add(b)
    return {n: {"scripts": sorted(scripts[n]), "bidi": sorted(bidis[n]), "sc": sorted(primary[n]),
                "single": sorted(single[n])} for n in order}
