"""C05 -- generated kerning applies the UFO kerning value to every pair, once."""
import random

from .. import layout_exec, layout_gen

PROPERTY = "C05"
TRACE_MODULE = "KernTrace"
TRACE_CFG = "KernTrace.cfg"
RULE = ("random multi-script fonts (6-14 glyphs from Latin, Cyrillic, Greek, Arabic, Hebrew, Devanagari, kana, digits incl. "
        "Arabic-Indic, punctuation, unencoded alternates reached through GSUB, GDEF marks) x disjoint kern1/kern2 groups (with "
        "missing members) x kerning dictionaries with glyph and group keys, exceptions at every precedence level, zero / "
        "fractional / negative / tie values, references to missing glyphs x languagesystem statements x quantisation {1,5,10} "
        "x both kern writers, also on the variable-features path with per-master kerning (one case in five: the same writer instance then serves one or two other fonts); the compiled GPOS/GDEF is dumped structurally and TLC evaluates EVERY (script, language, glyph, "
        "glyph) triple; non-trivial = the font has at least one non-zero expected pair; distinct by source digest")
ASSUMPTIONS = ["OpenType semantics per the OpenType specification (first deciding subtable ends a lookup)",
               "glyph script / bidi classification recomputed independently from Unicode data + GSUB closure",
               "scripts whose language systems carry no kern/dist feature at all are not evaluated (reachability is C20)"]
SHARDS = 16


def design_checks(tier):
    # KernMC: writer core vs UFO precedence; KernSplitMC: script / direction split, bucket merging, bidi filter and
    # registration vs the same reference -- `C05 \/ Known_C05_1` must hold, the strict config must fail (the signature is real)
    # KernDirMC: the same for the direction-split writer (kernFeatureWriter2): no class pair is lost there (`C05_Dir` holds
    # without any known-finding signature); for mixed pairs the strict config must fail (F-C05-3 is real)
    if tier == "quick":
        return [dict(module="KernMC", cfg="KernMC_quick.cfg", workers=16, timeout=900),
                dict(module="KernSplitMC", cfg="KernSplitMC_strict.cfg", workers=8, timeout=300, expect_violation="C05_Strict"),
                dict(module="KernDirMC", cfg="KernDirMC_strict.cfg", workers=8, timeout=300, expect_violation="C05_DirMixed_Strict")]
    return [dict(module="KernMC", cfg="KernMC.cfg", workers=16, timeout=3000),
            dict(module="KernSplitMC", cfg="KernSplitMC_quick.cfg", workers=16, timeout=3000),
            dict(module="KernSplitMC", cfg="KernSplitMC_strict.cfg", workers=8, timeout=300, expect_violation="C05_Strict"),
            dict(module="KernDirMC", cfg="KernDirMC_quick.cfg", workers=16, timeout=3000),
            dict(module="KernDirMC", cfg="KernDirMC_strict.cfg", workers=8, timeout=300, expect_violation="C05_DirMixed_Strict")]


def cases(tier, seed):
    n = 120 if tier == "quick" else 1500
    rng = random.Random(seed * 198491317 + 5)
    out = []
    for k in range(n):
        writer = "kern1" if rng.random() < 0.7 else "kern2"
        c = layout_gen.kerning_font(rng, writer, lang_first=(k % 8 == 3))
        c.update({"cid": f"c05-{seed}-{k}", "lib": rng.choice(["ufoLib2", "defcon"]), "writers": ["kern", "mark"] if c.get("withMarks") else ["kern"]})
        if k % 5 == 4:
            # the same writer instance then serves one or two other fonts (same options)
            c["then"] = []
            for j in range(rng.randint(1, 2)):
                d = layout_gen.kerning_font(rng, writer)
                d.update({"cid": f"c05-{seed}-{k}+{j + 1}", "lib": c["lib"], "writers": c["writers"], "q": c.get("q", 1), "kernOpts": c.get("kernOpts")})
                c["then"].append(d)
        out.append(c)
    # right-to-left letters kerned against marks whose Script property is Inherited only, on the second side
    rng2 = random.Random(seed * 198491317 + 50005)
    for k in range(12 if tier == "quick" else 120):
        writer = "kern1" if k % 4 else "kern2"
        c = layout_gen.rtl_inherited_font(rng2, k, writer)
        c.update({"cid": f"c05-{seed}-ri{k}", "lib": rng2.choice(["ufoLib2", "defcon"]), "writers": ["kern"]})
        out.append(c)
    # the variable-font path of both writers: per-master kerning (pairs and exceptions present in some masters only), read
    # back at every master location
    from .. import gen

    for k in range(8 if tier == "quick" else 80):
        fam = gen.rich_family(rng, n_masters=rng.choice([2, 3]))
        # an exception (glyph-glyph or glyph-group) that one master lacks: there the pair falls back to the group value
        excs = [("V", "o"), ("o", "A"), ("e", "public.kern2.A")]
        m = rng.choice(fam["masters"])
        kern = m["ufo"].get("kerning", [])
        if len(kern) > 3:
            drop = rng.choice(excs)
            m["ufo"]["kerning"] = [e for e in kern if (e[0], e[1]) != drop]
        out.append({"cid": f"c05-{seed}-v{k}", "var": True, "lib": rng.choice(["ufoLib2", "defcon"]),
                    "fam": fam, "flavor": rng.choice(["tt", "cff2"]),
                    "varFeatures": True, "prodNames": False, "kern2": k % 2 == 0, "writer": "kern2" if k % 2 == 0 else "kern1"})
    return out


def execute(case):
    if case.get("var"):
        from . import c10

        recs = []
        for r in c10.execute(case):
            if r.get("_acc") == "kern":
                r = {k: v for k, v in r.items() if k != "_acc"}
                r["_writer"] = case["writer"]
                recs.append(r)
            elif r.get("err"):
                raise RuntimeError("variable compile failed: " + r["err"])
        return recs
    recs = []
    for c, f2, fea in layout_exec.compile_sequence(case):
        rec = layout_exec.kern_record(c, f2, c["cid"])
        rec["_fea"] = fea
        rec["_writer"] = c["writer"]
        recs.append(rec)
    return recs


def nontrivial(rec):
    return any(e["v"] != 0 for e in rec["kerning"])


def classify(rec, pfail, mfail, extra, rep):
    ntriples, nknown1, nknown2 = extra[0], extra[1], extra[2]
    rep.notes["triples_evaluated"] = rep.notes.get("triples_evaluated", 0) + ntriples
    if nknown1:
        rep.known("F-C05-1", "script-split kern writer drops a whole class pair when the union of its members' bidi types "
                             "contains both R and L; non-mixed glyph pairs of that class pair lose their kerning")
    if nknown2:
        rep.known("F-C05-2", "two script-neutral glyphs are kerned in the direction-less common lookup: under a right-to-left "
                             "script they receive the advance adjustment but no x-placement")
    if len(extra) > 4 and extra[4]:
        rep.known("F-C05-3", "a mixed-direction pair whose deciding exception has a class side with both R and L members: the "
                             "exception is dropped as a whole while a less specific covering entry still applies, so the pair gets "
                             "that entry's value (neither zero nor the UFO value)")
    if len(extra) > 6 and extra[6]:
        rep.known("F-C05-5", "a class pair one of whose members is a left-to-right glyph (e.g. a digit) gets left-to-right value records as "
                             "a whole: its member pairs of right-to-left-script glyphs with neutral bidi class receive the advance but no "
                             "x-placement")
    if len(extra) > 5 and extra[5]:
        rep.known("F-C05-4", "no glyph classes are declared (no public.openTypeCategories / GDEF) but the font has attaching anchors: "
                             "the kern writer puts pairs that involve a mark glyph in the lookup that ignores marks, and feaLib "
                             "classifies that glyph as a mark from the generated markClass statements: the pair never applies")
    if pfail != "none":
        rep.notes.setdefault("witnesses", []).append({"tid": rec["tid"], "clause": pfail, "witness": extra[3], "writer": rec["_writer"]})
    return None
