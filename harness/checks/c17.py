"""C17 -- automatic features only add to the user's feature file."""
import io
import random

from .. import absfont, feaproject, gen, layout_gen, project, tracer

PROPERTY = "C17"
TRACE_MODULE = "FeaTrace"
TRACE_CFG = "FeaTrace.cfg"
RULE = ("random feature files assembled from languagesystem statements, class definitions, GSUB features, lookups, hand-written "
        "kern / mark / mkmk / curs blocks and GDEF tables, with an '# Automatic Code' marker at the top / middle / bottom / "
        "alone / mis-cased / absent, repeated blocks of one tag x writer lists (default, lib-specified, explicit with ellipsis, "
        "a GSUB-producing custom writer placed last) x skip / append modes, on fonts with kerning, anchors and cursive anchors; "
        "the compiled feature source (debugFeatureFile) is parsed back with feaLib; GSUB bytes with featureWriters=[] vs the "
        "given writers are compared; non-trivial = the user file has a positioning feature block; distinct by fea text + writers")
ASSUMPTIONS = ["statements are identified by their normalised feaLib text", "comment statements may be consumed (the marker itself is)"]


def design_checks(tier):
    # WritersList: a caller-owned featureWriters list with the "..." placeholder serving several fonts -- holds when every
    # font gets a fresh list, the in-place expansion (seeded change C17-h) must fail
    return [dict(module="FeaMC", cfg="FeaMC.cfg", workers=8, timeout=600),
            dict(module="WritersList", cfg="WritersList.cfg", workers=1, timeout=60),
            dict(module="WritersList", cfg="WritersList_inplace.cfg", workers=1, timeout=60, expect_violation="OwnWriters")]


RULES = {
    "kern": ["pos A V -50;", "pos V A -45;", "pos a period 12;"],
    "mark": ["pos base a <anchor 100 500> mark @MC_user;"],
    "mkmk": ["pos mark acutecomb <anchor 0 700> mark @MC_user;"],
    "curs": ["pos cursive beh-ar <anchor 400 0> <anchor 0 0>;"],
    "abvm": ["pos base ka-deva <anchor 250 620> mark @MC_deva;"],
    "blwm": ["pos base ka-deva <anchor 250 -20> mark @MC_devb;"],
    "liga": ["sub f i by f_i;"],
    "ss01": ["sub a by a.alt;"],
}


def _block(rng, tag):
    rules = list(RULES[tag])
    rng.shuffle(rules)
    rules = rules[: rng.randint(1, len(rules))]
    body = []
    style = rng.choice(["none", "top", "bottom", "middle", "alone", "miscased", "top", "bottom", "empty"])
    if tag in ("liga", "ss01"):
        style = "none"
    marker = "# Automatic Code"
    if style == "miscased":
        marker = "# automatic code"
    if style == "empty" and tag not in ("liga", "ss01"):
        return "feature %s {\n} %s;" % (tag, tag)       # an empty block: the idiom for switching the generated feature off
    if style == "alone":
        body = ["# a comment", marker]
    elif style in ("top", "miscased"):
        body = [marker] + rules
    elif style == "bottom":
        body = rules + [marker]
    elif style == "middle" and len(rules) >= 2:
        k = rng.randint(1, len(rules) - 1)
        body = rules[:k] + ["# note", marker] + rules[k:]
    else:
        body = rules
        if rng.random() < 0.3:
            body = ["# plain comment"] + body
    if rng.random() < 0.15 and style in ("top", "bottom"):
        body.append(marker)       # a second marker: only the first counts
    return "feature %s {\n    %s\n} %s;" % (tag, "\n    ".join(body), tag)


def _font(rng):
    P = 1024
    names = [("A", 0x41), ("V", 0x56), ("a", 0x61), ("f", 0x66), ("i", 0x69), ("period", 0x2E), ("acutecomb", 0x301),
             ("beh-ar", 0x628), ("lam-ar", 0x644), ("f_i", None), ("a.alt", None),
             ("ka-deva", 0x915), ("anusvara-deva", 0x902), ("nukta-deva", 0x93C)]
    glyphs = {}
    for n, cp in names:
        anchors = []
        if n in ("a", "A"):
            anchors.append({"n": "top", "x": 200 * P, "y": 600 * P})
        if n == "acutecomb":
            anchors += [{"n": "_top", "x": 0, "y": 500 * P}, {"n": "top", "x": 0, "y": 700 * P}]
        if n == "ka-deva":
            anchors += [{"n": "top", "x": 250 * P, "y": 600 * P}, {"n": "bottom", "x": 250 * P, "y": 0}]
        if n == "anusvara-deva":
            anchors.append({"n": "_top", "x": 0, "y": 560 * P})
        if n == "nukta-deva":
            anchors.append({"n": "_bottom", "x": 0, "y": -40 * P})
        if n.endswith("-ar"):
            anchors += [{"n": "entry", "x": 400 * P, "y": 0}, {"n": "exit", "x": 0, "y": 0}]
        if n == "f_i" and rng.random() < 0.6:
            anchors.append({"n": "caret_1", "x": 250 * P, "y": 0})
            if rng.random() < 0.3:
                anchors.append({"n": "vcaret_1", "x": 0, "y": 300 * P})
        glyphs[n] = {"cs": [layout_gen.box()], "comps": [], "anchors": anchors, "w": (0 if n in ("acutecomb", "anusvara-deva", "nukta-deva") else 500) * P, "h": 0,
                     "u": [cp] if cp else []}
    return {"glyphs": glyphs, "order": [n for n, _ in names], "glyphNames": [n for n, _ in names],
            "info": {"unitsPerEm": 1000, "ascender": 800, "descender": -200, "familyName": "FeaTest", "styleName": "Regular"},
            "kerning": [["A", "V", -160], ["V", "A", -120], ["lam-ar", "beh-ar", 40]], "kernScale": 4,
            "lib": {"public.openTypeCategories": {"acutecomb": "mark", "a": "base", "A": "base", "f_i": "ligature", "ka-deva": "base",
                                                 "anusvara-deva": "mark", "nukta-deva": "mark"}}}


def cases(tier, seed):
    n = 150 if tier == "quick" else 2000
    rng = random.Random(seed * 275604541 + 17)
    out = []
    for k in range(n):
        ufo = _font(rng)
        parts = []
        if rng.random() < 0.7:
            parts.append("languagesystem DFLT dflt;\nlanguagesystem latn dflt;" + ("\nlanguagesystem arab dflt;" if rng.random() < 0.5 else "")
                         + ("\nlanguagesystem dev2 dflt;" if rng.random() < 0.5 else ""))
        if rng.random() < 0.5:
            parts.append("@UC = [A V];")
        parts.append("markClass acutecomb <anchor 0 500> @MC_user;")
        parts.append("markClass anusvara-deva <anchor 0 560> @MC_deva;\nmarkClass nukta-deva <anchor 0 -40> @MC_devb;")
        tags = rng.sample(["kern", "mark", "mkmk", "curs", "liga", "ss01", "abvm", "blwm", "abvm"], rng.randint(0, 4))
        tags = list(dict.fromkeys(tags))
        if rng.random() < 0.2 and tags:
            tags.append(tags[0])           # a repeated block of one tag
        if rng.random() < 0.3:
            parts.append("lookup userLookup {\n    pos a a 5;\n} userLookup;")
        for t in tags:
            parts.append(_block(rng, t))
        if rng.random() < 0.35:
            gd = rng.choice([["GlyphClassDef [a A], [f_i], [acutecomb], ;"], ["LigatureCaretByPos f_i 240;"], ["LigatureCaretByIndex f_i 2;"],
                             ["GlyphClassDef [a A], [f_i], [acutecomb], ;", "LigatureCaretByIndex f_i 1;"],
                             ["GlyphClassDef [a A], [f_i], [acutecomb], ;", "LigatureCaretByPos f_i 260;"], ["Attach a 1;"]])
            parts.append("table GDEF {\n    %s\n} GDEF;" % "\n    ".join(gd))
        if rng.random() < 0.2:
            parts.insert(rng.randint(0, len(parts)), "# top-level comment")
        ufo["fea"] = "\n\n".join(parts) + "\n"
        wl = rng.choice(["default", "default", "lib", "ellipsis", "gsublast", "append"])
        if wl == "lib":
            ufo["lib"]["com.github.googlei18n.ufo2ft.featureWriters"] = [{"class": "KernFeatureWriter"}, {"class": "MarkFeatureWriter", "options": {"quantization": 1}}]
        out.append({"cid": f"c17-{seed}-{k}", "lib": rng.choice(["ufoLib2", "defcon"]), "ufo": ufo, "writers": wl})
    # the same sources compiled with a caller-owned featureWriters list [...] that has served another font before
    import copy

    picked = [c for c in out if c["writers"] == "default" and "feature kern" in (c["ufo"].get("fea") or "")][: (15 if tier == "quick" else 200)]
    picked += [c for c in out if c["writers"] == "default" and "feature mark" in (c["ufo"].get("fea") or "") and c not in picked][: (10 if tier == "quick" else 100)]
    for c in picked:
        d = copy.deepcopy(c)
        d["cid"] = c["cid"] + "-se"
        d["writers"] = "sharedEllipsis"
        out.append(d)
    return out


def _make_writers(kind):
    from ufo2ft.featureWriters import BaseFeatureWriter, CursFeatureWriter, KernFeatureWriter, MarkFeatureWriter, ast

    class GsubWriter(BaseFeatureWriter):
        tableTag = "GSUB"
        features = frozenset(["ss20"])

        def _write(self):
            feaFile = self.context.feaFile
            fb = ast.FeatureBlock("ss20")
            fb.statements.append(ast.SingleSubstStatement([ast.GlyphName("a")], [ast.GlyphName("a.alt")], [], [], False))
            self._insert(feaFile=feaFile, features=[fb])
            return True

    if kind in ("default", "lib"):
        return None, {"kern", "dist", "mark", "mkmk", "abvm", "blwm", "curs"}
    if kind == "sharedEllipsis":
        # ONE caller-owned list holding the placeholder, first used for ANOTHER font whose lib asks for append-mode writers
        return [...], {"kern", "dist", "mark", "mkmk", "abvm", "blwm", "curs"}
    if kind == "ellipsis":
        return [CursFeatureWriter, ..., ], {"kern", "dist", "mark", "mkmk", "abvm", "blwm", "curs"}
    if kind == "gsublast":
        return [KernFeatureWriter, MarkFeatureWriter(), GsubWriter], {"kern", "dist", "mark", "mkmk", "abvm", "blwm"}
    if kind == "append":
        return [KernFeatureWriter(mode="append"), MarkFeatureWriter], {"mark", "mkmk", "abvm", "blwm"}
    raise ValueError(kind)


def execute(case):
    import ufo2ft

    names = case["ufo"]["glyphNames"]
    rec = {"tid": case["cid"], "user": feaproject.project(case["ufo"]["fea"], names)}
    outs = {}
    for variant in ("given", "none"):
        font = absfont.build_font(case["ufo"], case["lib"])
        ws, skip = _make_writers(case["writers"])
        kw = {"useProductionNames": False}
        if variant == "none":
            kw["featureWriters"] = []
        elif ws is not None:
            kw["featureWriters"] = ws
        if variant == "given" and case["writers"] == "sharedEllipsis":
            P = 1024
            sq = [[0, 0, "line"], [100 * P, 0, "line"], [100 * P, 100 * P, "line"], [0, 100 * P, "line"]]
            other = {"glyphs": {"a": {"cs": [sq], "comps": [], "w": 500 * P, "h": 0, "u": [0x61], "anchors": [{"n": "top", "x": 50 * P, "y": 500 * P}]},
                                "v": {"cs": [sq], "comps": [], "w": 500 * P, "h": 0, "u": [0x76], "anchors": []},
                                "acutecomb": {"cs": [sq], "comps": [], "w": 0, "h": 0, "u": [0x301], "anchors": [{"n": "_top", "x": 0, "y": 400 * P}]}},
                     "info": {"unitsPerEm": 1000, "ascender": 800, "descender": -200}, "kerning": [["a", "v", -40]], "kernScale": 1,
                     "lib": {"com.github.googlei18n.ufo2ft.featureWriters": [{"class": "KernFeatureWriter", "options": {"mode": "append"}},
                                                                            {"class": "MarkFeatureWriter", "options": {"mode": "append"}}]}}
            ufo2ft.compileTTF(absfont.build_font(other, case["lib"]), featureWriters=ws, useProductionNames=False)
        dbg = io.StringIO()
        kw["debugFeatureFile"] = dbg
        with tracer.tracing([font], snap=False, glyphsets=False) as tr:
            try:
                otf = ufo2ft.compileTTF(font, **kw)
            except Exception as e:  # noqa
                return [{"tid": case["cid"], "skip": True, "why": f"{variant}: {type(e).__name__}: {str(e)[:200]}"}]
        data, f2 = project.save_reload(otf)
        td = project.table_digests(data)
        outs[variant] = {"gsub": td.get("GSUB"), "fea": dbg.getvalue(), "writers": [e["tableTag"] for e in tr.events if e["ev"] == "Writer"]}
    rec["out"] = feaproject.project(outs["given"]["fea"], names)
    rec["gsubSame"] = outs["given"]["gsub"] == outs["none"]["gsub"] or case["writers"] == "gsublast"
    rec["writers"] = outs["given"]["writers"]
    rec["skipTags"] = sorted(_make_writers(case["writers"])[1])
    rec["_fea"] = outs["given"]["fea"]
    rec["_kind"] = case["writers"]
    return [rec]


def preclassify(rec, rep):
    if rec.get("skip"):
        rep.notes["skipped"] = rep.notes.get("skipped", 0) + 1
        rep.notes.setdefault("skip_reasons", [])
        if len(rep.notes["skip_reasons"]) < 5:
            rep.notes["skip_reasons"].append(rec["why"])
        return "skip"


def nontrivial(rec):
    return any(b["kind"] == "feature" and b["tag"] in ("kern", "mark", "mkmk", "curs", "abvm", "blwm") for b in rec["user"])
