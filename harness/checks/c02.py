"""C02 -- TrueType outlines render the source shape; composites stay valid."""
import random

from .. import compile_exec, gen

PROPERTY = "C02"
TRACE_MODULE = "PipelineTrace"
TRACE_CFG = "PipelineTrace.cfg"
ACCEPTORS = {"_default": ("PipelineTrace", "PipelineTrace.cfg"), "vf": ("VFTrace", "VFTrace.cfg")}
RULE = ("random exact-domain UFOs (line / quadratic / cubic contours, nested mirrored / sheared / scaled components, mixed "
        "glyphs) x {convertCubics, reverseDirection, flattenComponents} x {defcon, ufoLib2} (every fourth converting case with an "
        "explicit cubicConversionError in 0.0001..0.002 and / or unitsPerEm in 100..2000, where the deviation of the unrounded "
        "TTFPreProcessor result from the source is measured against the configured bound); compiled with compileTTF, saved, "
        "reloaded; glyf points, flags, end points, components and maxp projected; plus families of 2-3 masters through "
        "compileInterpolatableTTFs / ...FromDS with a mixed glyph holding a 4-8x enlarged component of a small cubic shape (the "
        "conversion error is measured on the decomposed result); non-trivial = font has a composite or "
        "mixed glyph; distinct by source digest + options")
ASSUMPTIONS = ["fontTools glyf decompiler is the observation channel",
               "cubic->quadratic approximation error is measured by the harness (dense sampling) and enters as errMilli"]

PALETTE_TT = [m for m in gen.PALETTE if max(abs(v) for v in m) < 128] + [[128, 0, 0, 128]]


def design_checks(tier):
    if tier == "quick":
        return [dict(module="FiltersMC", cfg="FiltersMC_tt.cfg", workers=8, timeout=300)]
    return [dict(module="FiltersMC", cfg="FiltersMC_full.cfg", workers=16, timeout=3000)]


def cases(tier, seed):
    n = 160 if tier == "quick" else 3000
    rng = random.Random(seed * 32452843 + 2)
    out = []
    for k in range(n):
        convert = rng.random() < 0.7
        kinds = ["line", "quad", "cubic", "mixed"] if convert else ["line", "quad"]
        glyphs = gen.glyphset(rng, kinds=kinds, palette=PALETTE_TT, unicodes=True)
        if rng.random() < 0.3:
            # the source brings its own '.notdef' (an outline glyph like any other)
            used = {c["b"] for g in glyphs.values() for c in g["comps"]}
            cand = [n_ for n_, g in glyphs.items() if g["cs"] and not g["comps"] and n_ not in used]
            if cand:
                n_ = rng.choice(cand)
                g_ = glyphs.pop(n_)
                g_["u"] = []
                glyphs = {".notdef": g_, **glyphs}
        kwargs = {"convertCubics": convert, "reverseDirection": rng.random() < 0.8,
                  "flattenComponents": rng.random() < 0.5}
        info = {"unitsPerEm": 1000, "ascender": 800, "descender": -200}
        measure = False
        if convert and k % 4 == 0:
            # other tolerances: an explicit conversion error and / or a small em, so that the bound is well below one unit
            if rng.random() < 0.6:
                kwargs["cubicConversionError"] = rng.choice([0.0001, 0.0002, 0.0005, 0.002])
            if rng.random() < 0.5:
                info["unitsPerEm"] = rng.choice([100, 200, 500, 2000])
            measure = True
        out.append({"cid": f"c02-{seed}-{k}", "lib": rng.choice(["ufoLib2", "defcon"]), "flavor": "tt",
                    "ufo": {"glyphs": glyphs, "info": info}, "kwargs": kwargs, "measureUnrounded": measure})
    # the interpolatable TrueType path: 2-3 compatible masters; a MIXED glyph (own contour + a much enlarged component of a
    # small cubic shape) must be decomposed from the cubic source, so that the conversion error is not enlarged with it
    from ..absfont import MS, PS

    def ring(cx, cy, r, k):
        c = int(r * 0.5523 * 4) * PS // 4
        cx, cy, r = cx * PS, cy * PS, r * PS
        pts = [[cx + r, cy, "curve"], [cx + r, cy + c, "off"], [cx + c, cy + r, "off"], [cx, cy + r, "curve"], [cx - c, cy + r, "off"],
               [cx - r, cy + c, "off"], [cx - r, cy, "curve"], [cx - r, cy - c, "off"], [cx - c, cy - r, "off"], [cx, cy - r, "curve"],
               [cx + c, cy - r, "off"], [cx + r, cy - c, "off"]]
        return pts[k:] + pts[:k]

    for k in range(16 if tier == "quick" else 300):
        base = gen.glyphset(rng, nmin=2, nmax=4, max_depth=1, kinds=["line", "quad", "cubic"], palette=PALETTE_TT, unicodes=True, mixed=False)
        r0 = rng.randint(30, 60)
        base["ring"] = {"cs": [ring(rng.randint(0, 40), rng.randint(0, 40), r0, 0)], "comps": [], "anchors": [], "w": 200 * PS, "h": 0, "u": []}
        sc = rng.choice([4, 6, 8])
        base["mx"] = {"cs": [[[0, 0, "line"], [100 * PS, 0, "line"], [100 * PS, 50 * PS, "line"]]],
                      "comps": [{"b": "ring", "m": [sc * MS, 0, 0, rng.choice([sc, sc, -sc]) * MS], "d": [rng.randint(-50, 50) * PS, rng.randint(-50, 50) * PS]}],
                      "anchors": [], "w": 700 * PS, "h": 0, "u": []}
        nm = rng.choice([2, 3])
        try:
            masters = [base] + [gen.perturb_master(rng, base, palette=PALETTE_TT, change_2x2=0.0) for _ in range(nm - 1)]
        except RuntimeError:
            continue
        out.append({"cid": f"c02-{seed}-i{k}", "lib": rng.choice(["ufoLib2", "defcon"]), "interp": True, "masters": masters,
                    "via": rng.choice(["list", "ds"]), "kwargs": {"flattenComponents": rng.random() < 0.3}})
    # sources whose lib carries cu2qu's "curves already converted" marker (a UFO pre-converted by an editor, or saved after an
    # in-place compile): a compile that is NOT in place converts and reverses them like any other source
    rng2 = random.Random(seed * 15485863 + 20002)
    for k in range(10 if tier == "quick" else 120):
        glyphs = gen.glyphset(rng2, kinds=["line", "quad"] if k % 3 else ["line", "quad", "cubic"], palette=PALETTE_TT, unicodes=True)
        kwargs = {"reverseDirection": k % 4 != 3}
        if k % 5 == 0:
            kwargs["rememberCurveType"] = True      # (only meaningful together with inplace)
        out.append({"cid": f"c02-{seed}-q{k}", "lib": rng2.choice(["ufoLib2", "defcon"]), "flavor": "tt",
                    "ufo": {"glyphs": glyphs, "info": {"unitsPerEm": 1000, "ascender": 800, "descender": -200},
                            "lib": {"com.github.googlei18n.cu2qu.curve_type": "quadratic"}}, "kwargs": kwargs})
    # cubic curves with convertCubics=False and the default allQuadratic=True: a glyf table of format 0 cannot hold them, the
    # compile refuses (ValueError) -- for glyphs with one contour as for glyphs with several
    rng5 = random.Random(seed * 15485863 + 20005)
    for k in range(8 if tier == "quick" else 80):
        glyphs = gen.glyphset(rng5, nmin=2, nmax=4, max_depth=1, kinds=["line", "quad"], palette=PALETTE_TT, unicodes=True, mixed=False)
        r0 = rng5.randint(30, 60)
        glyphs["ring"] = {"cs": [ring(rng5.randint(0, 40), rng5.randint(0, 40), r0, 0)] + ([ring(300, 0, r0 // 2, 0)] if k % 2 else []),
                          "comps": [], "anchors": [], "w": 400 * PS, "h": 0, "u": [0x4F]}
        out.append({"cid": f"c02-{seed}-cq{k}", "lib": rng5.choice(["ufoLib2", "defcon"]), "flavor": "tt", "expectErr": "ValueError",
                    "ufo": {"glyphs": glyphs, "info": {"unitsPerEm": 1000, "ascender": 800, "descender": -200}},
                    "kwargs": {"convertCubics": False, "reverseDirection": k % 4 != 3}})
    # the variable TrueType font itself: what it draws at every master's location is that master's shape.  The family has a
    # composite made of the same base twice whose SECOND (or first) component is enlarged in one master only -- a 2x2 that
    # cannot vary in a variable font, so the glyph has to be stored as contours in every master
    for k in range(6 if tier == "quick" else 60):
        fam = gen.rich_family(rng, n_masters=3 if k % 2 else 2, kerning=False, features=False)
        if "colon" in fam["masters"][0]["ufo"]["glyphs"]:
            for m in fam["masters"]:
                for c in m["ufo"]["glyphs"]["colon"]["comps"]:
                    c["m"] = [64, 0, 0, 64]
            m_ = [m for m in fam["masters"] if m["loc"]["Weight"] != 400][k % 2 if len(fam["masters"]) == 3 else 0]
            m_["ufo"]["glyphs"]["colon"]["comps"][1 if k % 3 else 0]["m"] = [80, 0, 0, 48]
        out.append({"cid": f"c02-{seed}-v{k}", "var": True, "lib": rng.choice(["ufoLib2", "defcon"]), "fam": fam, "flavor": "tt",
                    "varFeatures": True, "prodNames": True})
    return out


def execute(case):
    if case.get("interp"):
        return compile_exec.interp_tt_compile(case)
    if case.get("var"):
        from . import c10

        recs = []
        for r in c10.execute(case):
            if r.get("err"):
                raise RuntimeError("variable compile failed: " + r["err"])
            if r.get("_acc") == "vf":
                recs.append(r)
        return recs
    return [compile_exec.static_compile(case)]


def preclassify(rec, rep):
    if rec.get("skip"):
        rep.notes["skipped"] = rep.notes.get("skipped", 0) + 1
        return "skip"


def nontrivial(rec):
    if rec.get("_acc") == "vf":
        return rec.get("_k", 0) > 0
    return any(g["comps"] for g in rec["src"].values())
