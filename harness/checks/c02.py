"""C02 -- TrueType outlines render the source shape; composites stay valid."""
import random

from .. import compile_exec, gen

PROPERTY = "C02"
TRACE_MODULE = "PipelineTrace"
TRACE_CFG = "PipelineTrace.cfg"
RULE = ("random exact-domain UFOs (line / quadratic / cubic contours, nested mirrored / sheared / scaled components, mixed "
        "glyphs) x {convertCubics, reverseDirection, flattenComponents} x {defcon, ufoLib2}; compiled with compileTTF, saved, "
        "reloaded; glyf points, flags, end points, components and maxp projected; non-trivial = font has a composite or "
        "mixed glyph; distinct by source digest + options")
ASSUMPTIONS = ["fontTools glyf decompiler is the observation channel",
               "cubic->quadratic approximation error is measured by the harness (dense sampling) and enters as errMilli"]

PALETTE_TT = [m for m in gen.PALETTE if max(abs(v) for v in m) < 128] + [[128, 0, 0, 128]]


def design_checks(tier):
    if tier == "quick":
        return [dict(module="FiltersMC", cfg="FiltersMC_tt.cfg", workers=8, timeout=300)]
    return [dict(module="FiltersMC", cfg="FiltersMC_full.cfg", workers=16, timeout=3000)]


def cases(tier, seed):
    n = 160 if tier == "quick" else 3000
    rng = random.Random(seed * 32452843 + 2)
    out = []
    for k in range(n):
        convert = rng.random() < 0.7
        kinds = ["line", "quad", "cubic", "mixed"] if convert else ["line", "quad"]
        glyphs = gen.glyphset(rng, kinds=kinds, palette=PALETTE_TT, unicodes=True)
        kwargs = {"convertCubics": convert, "reverseDirection": rng.random() < 0.8,
                  "flattenComponents": rng.random() < 0.5}
        out.append({"cid": f"c02-{seed}-{k}", "lib": rng.choice(["ufoLib2", "defcon"]), "flavor": "tt",
                    "ufo": {"glyphs": glyphs, "info": {"unitsPerEm": 1000, "ascender": 800, "descender": -200}},
                    "kwargs": kwargs})
    return out


def execute(case):
    return [compile_exec.static_compile(case)]


def preclassify(rec, rep):
    if rec.get("skip"):
        rep.notes["skipped"] = rep.notes.get("skipped", 0) + 1
        return "skip"


def nontrivial(rec):
    return any(g["comps"] for g in rec["src"].values())
