"""C15 -- component/transform filters preserve rendering; anchors follow components."""
import random

from .. import gen
from . import filters_common as fc

PROPERTY = "C15"
TRACE_MODULE = "FilterTrace"
TRACE_CFG = "FilterTrace.cfg"
ACCEPTORS = {"_default": ("FilterTrace", "FilterTrace.cfg"), "pipe": ("PipelineTrace", "PipelineTrace.cfg")}
RULE = ("random acyclic glyph sets (3-7 glyphs, depth <= 3, affine palette incl. mirrors/shear/rotation, k/4 coordinates "
        "with ties) x {Decompose, DecomposeTransformed, Flatten, SkipExport, Transformations, PropagateAnchors} x include "
        "specifications x {defcon, ufoLib2}; one case in four applies PropagateAnchors to a glyph set shaped for it (accented composites, "
        "ligatures, ligature marks, nested composites, own anchors incl. prefix matches, mark categories); a case is non-trivial when the filter modified at least one glyph; distinct by "
        "(filter, include, glyph set) digest")
ASSUMPTIONS = [
    "TLC evaluates the TLA+ operators correctly; fontTools pens are the environment of the filters",
    "inputs restricted to the exact dyadic domain so float and integer arithmetic agree",
]


def design_checks(tier):
    if tier == "quick":
        return [dict(module="FiltersMC", cfg="FiltersMC_quick.cfg", workers=8, timeout=300),
                dict(module="PropagateMC", cfg="PropagateMC_quick.cfg", workers=8, timeout=600),
                dict(module="PropagateMC", cfg="PropagateMC_strict.cfg", workers=2, timeout=120, expect_violation="NeverModelled")]
    return [dict(module="FiltersMC", cfg="FiltersMC_full.cfg", workers=16, timeout=3000, coverage=True),
            dict(module="PropagateMC", cfg="PropagateMC.cfg", workers=16, timeout=1800),
            dict(module="PropagateMC", cfg="PropagateMC_strict.cfg", workers=2, timeout=120, expect_violation="NeverModelled")]


def _filter_spec(rng, names, glyphs):
    kind = rng.choice(["DecomposeComponents", "DecomposeTransformedComponents", "FlattenComponents",
                       "SkipExportGlyphs", "Transformations", "Transformations", "PropagateAnchors"])
    r = rng.random()
    if r < 0.4:
        inc = {"kind": "all"}
    elif r < 0.7:
        inc = {"kind": "list", "names": gen.subset(rng, names, 0.5)}
    elif r < 0.85:
        inc = {"kind": "exclude", "names": gen.subset(rng, names, 0.3)}
    else:
        inc = {"kind": "pred", "pred": rng.choice(["hasContours", "hasComponents", "wide"])}
    spec = {"name": kind, "include": inc}
    if kind == "SkipExportGlyphs":
        spec["args"] = [gen.subset(rng, names, 0.35)]
        spec["include"] = {"kind": "all"}
    if kind == "Transformations":
        kw = {}
        if rng.random() < 0.8:
            kw["OffsetX"] = rng.choice([0, 10, -20, 12.5, 100])
        if rng.random() < 0.5:
            kw["OffsetY"] = rng.choice([0, 8, -7.5, 50])
        if rng.random() < 0.5:
            kw["ScaleX"] = rng.choice([100, 50, 200, 25])
            kw["ScaleY"] = rng.choice([100, 50, 200, kw["ScaleX"]])
            kw["Origin"] = rng.choice([4, 4, 0, 1, 2, 3])
        spec["kwargs"] = kw
    return spec


def propagate_glyphset(rng):
    """Glyph set shaped for anchor propagation: bases and marks with anchors (line-only outlines on whole units), accented
    composites (base + marks), ligatures of bases (numbered anchors), ligature marks (marks only: the component closest to
    the origin is promoted), nested composites, composites that already own an anchor (also one that is only a PREFIX
    match, e.g. own 'top_1' against inherited 'top'), mark categories."""
    from ..absfont import MS, PS

    def boxc(x0, y0, w, h):
        return [[x0 * PS, y0 * PS, "line"], [(x0 + w) * PS, y0 * PS, "line"], [(x0 + w) * PS, (y0 + h) * PS, "line"], [x0 * PS, (y0 + h) * PS, "line"]]

    def anc(n, x, y):
        return {"n": n, "x": x * PS, "y": y * PS}

    pal = [[MS, 0, 0, MS]] * 4 + [[-MS, 0, 0, MS], [MS, 0, 0, -MS], [MS // 2, 0, 0, MS // 2], [0, MS, -MS, 0], [0, -MS, MS, 0],
                                  [MS, 0, MS // 2, MS], [MS, MS // 2, 0, MS]]      # (rotations and shears: the xy / yx terms matter)
    glyphs = {}
    bases = rng.sample(["a", "e", "o", "f", "i"], rng.randint(2, 4))
    for b in bases:
        an = [anc(c, rng.randint(0, 20) * 25, rng.randint(-4, 32) * 25) for c in rng.sample(["top", "bottom", "ogonek", "top_2"], rng.randint(0, 3))]
        glyphs[b] = {"cs": [boxc(rng.randint(0, 4) * 25, 0, 300, 500)], "comps": [], "anchors": an, "w": 500 * PS, "h": 0, "u": []}
    marks = rng.sample(["acutecomb", "gravecomb", "dotbelowcomb", "ringcomb"], rng.randint(2, 3))
    for m in marks:
        cls = "bottom" if m == "dotbelowcomb" else "top"
        an = [anc("_" + cls, rng.randint(-4, 4) * 25, rng.randint(0, 8) * 25)]
        if rng.random() < 0.7:
            an.append(anc(cls, rng.randint(-4, 4) * 25, rng.randint(8, 16) * 25))
        if rng.random() < 0.2:
            an.append(anc("_ogonek", 0, 0))
        cs = [boxc(rng.randint(-6, 2) * 25, rng.randint(-4, 8) * 25, 100, 100)] if rng.random() < 0.93 else []
        glyphs[m] = {"cs": cs, "comps": [], "anchors": an, "w": 0, "h": 0, "u": []}

    def comp(b):
        return {"b": b, "m": list(rng.choice(pal)), "d": [rng.randint(-8, 16) * 25 * PS, rng.randint(-8, 16) * 25 * PS]}

    made = []
    for _ in range(rng.randint(3, 6)):
        kind = rng.choice(["accented", "accented", "ligature", "ligmark", "ligmark", "nested"])
        if kind == "accented":
            name = rng.choice(bases) + rng.choice(["acute", "grave", "dotbelow", "x"]) + rng.choice(["", ".alt"])
            comps = [comp(rng.choice(bases))] + [comp(rng.choice(marks)) for _ in range(rng.randint(1, 2))]
        elif kind == "ligature":
            name = "_".join(rng.sample(bases, 2)) + rng.choice(["", ".liga"])
            comps = [comp(b) for b in (rng.sample(bases, 2) if rng.random() < 0.8 else rng.sample(bases + marks, 3))]
        elif kind == "ligmark":
            ms = rng.sample(marks, 2)
            name = "_".join(ms) if rng.random() < 0.85 else "".join(ms)      # without "_" it is not a ligature mark
            comps = [comp(m) for m in ms]
        else:
            if not made:
                continue
            name = rng.choice(made) + ".nest"
            comps = [comp(name[:-5])] + ([comp(rng.choice(marks))] if rng.random() < 0.5 else [])
        if name in glyphs:
            continue
        own = []
        if rng.random() < 0.3:
            own.append(anc(rng.choice(["top", "top_1", "bottom", "topright", "_top"]), rng.randint(0, 8) * 25, rng.randint(0, 8) * 25))
        glyphs[name] = {"cs": [], "comps": comps, "anchors": own, "w": 500 * PS, "h": 0, "u": []}
        made.append(name)
    cats = {}
    if rng.random() < 0.6:
        for n in glyphs:
            if n in marks or (n in made and all(c["b"] in marks for c in glyphs[n]["comps"])):
                if rng.random() < 0.85:
                    cats[n] = "mark"
    return glyphs, ({"public.openTypeCategories": cats} if cats else {})


def cases(tier, seed):
    n = 240 if tier == "quick" else 4000
    rng = random.Random(seed * 7919 + 15)
    out = []
    for k in range(n):
        glyphs = gen.glyphset(rng)
        names = sorted(glyphs)
        spec = _filter_spec(rng, names, glyphs)
        step = {"glyphs": glyphs, "info": {"capHeight": rng.choice([700, 701]), "xHeight": rng.choice([500, 499])},
                "separate": rng.random() < 0.85}
        if k % 4 == 3:
            from ..absfont import Inexact, check_exact_domain

            for _try in range(50):
                glyphs, lib = propagate_glyphset(rng)
                try:
                    check_exact_domain(glyphs)
                    break
                except Inexact:
                    continue
            names = sorted(glyphs)
            spec = _filter_spec(rng, names, glyphs)
            spec = {"name": "PropagateAnchors", "include": spec["include"]}
            step.update({"glyphs": glyphs, "lib": lib})
        steps = [step]
        if spec["name"] == "Transformations" and rng.random() < 0.5:
            # the same filter object then transforms a second font with other vertical metrics (the matrix depends on them)
            g2 = gen.glyphset(rng)
            spec["include"] = {"kind": "all"} if spec["include"]["kind"] in ("list", "exclude") else spec["include"]
            steps.append({"glyphs": g2, "info": {"capHeight": rng.choice([640, 700, 750]), "xHeight": rng.choice([460, 500, 530])},
                          "separate": rng.random() < 0.85})
        out.append({"cid": f"c15-{seed}-{k}", "lib": rng.choice(["ufoLib2", "defcon"]), "filter": spec,
                    "steps": steps, "again": spec["name"] == "PropagateAnchors"})
    out += _pipe_cases(random.Random(seed * 7919 + 150015), 8 if tier == "quick" else 100, f"c15-{seed}")
    # component chains of depth 3-4 whose innermost composite has two or three components, the first of them placed with a
    # transform that is NOT the identity (offset / flip / scale): flattening, decomposing and partial decomposing keep the shape
    from ..absfont import MS, PS

    rng3 = random.Random(seed * 7919 + 150016)
    for k in range(15 if tier == "quick" else 200):
        def sq(x, y, w, h):
            return [[x * PS, y * PS, "line"], [(x + w) * PS, y * PS, "line"], [(x + w) * PS, (y + h) * PS, "line"], [x * PS, (y + h) * PS, "line"]]

        def comp(b, m=None, d=(0, 0)):
            return {"b": b, "m": list(m or [MS, 0, 0, MS]), "d": [d[0] * PS, d[1] * PS]}

        trs = [[MS, 0, 0, MS], [-MS, 0, 0, MS], [MS // 2, 0, 0, MS // 2], [0, MS, -MS, 0], [MS, 0, 0, -MS]]
        g = {"L1": {"cs": [sq(0, 0, 100, 60)], "comps": [], "anchors": [], "w": 300 * PS, "h": 0, "u": []},
             "L2": {"cs": [sq(10, 10, 30, 80)], "comps": [], "anchors": [], "w": 200 * PS, "h": 0, "u": []},
             "L3": {"cs": [sq(-20, 0, 40, 40)], "comps": [], "anchors": [], "w": 100 * PS, "h": 0, "u": []}}
        inner = [comp("L1", trs[k % 5], (rng3.randint(10, 90), rng3.randint(0, 50))), comp("L2", trs[(k + 2) % 5], (rng3.randint(-40, 40), 120))]
        if k % 3 == 0:
            inner.append(comp("L3", None, (200, 0)))
        g["Y"] = {"cs": [], "comps": inner, "anchors": [], "w": 400 * PS, "h": 0, "u": []}
        g["Z"] = {"cs": [], "comps": [comp("Y", trs[(k + 1) % 5], (rng3.randint(0, 60), rng3.randint(0, 60)))] + ([comp("L3", None, (0, 300))] if k % 2 else []),
                  "anchors": [], "w": 450 * PS, "h": 0, "u": []}
        g["X"] = {"cs": [], "comps": [comp("Z", trs[(k + 3) % 5] if k % 4 == 0 else None, (rng3.randint(0, 30), 0))], "anchors": [], "w": 500 * PS, "h": 0, "u": [0x58]}
        if k % 5 == 4:
            g["W"] = {"cs": [], "comps": [comp("X", None, (5, 5)), comp("Y", None, (0, -200))], "anchors": [], "w": 500 * PS, "h": 0, "u": []}
        kind = ["FlattenComponents", "FlattenComponents", "DecomposeComponents", "DecomposeTransformedComponents"][k % 4]
        spec = {"name": kind, "include": {"kind": "all"} if k % 3 else {"kind": "list", "names": ["X", "Z"] + (["W"] if "W" in g else [])}}
        out.append({"cid": f"c15-{seed}-fc{k}", "lib": rng3.choice(["ufoLib2", "defcon"]), "filter": spec,
                    "steps": [{"glyphs": g, "info": {"capHeight": 700, "xHeight": 500}, "separate": k % 2 == 0}], "again": False})
    return out


def _pipe_cases(rng, n, prefix):
    """Interpolatable families with a SPARSE master that holds composites but not their bases, compiled with lib pre-filters:
    anchor propagation (which looks at the interpolated bases), then a transformations filter moving the bases, then the
    default decomposition.  What the sparse master's composites render is the moved, interpolated base."""
    from ..absfont import MS, PS

    out = []
    for k in range(n):
        def sq(x, y, w, h):
            return [[x * PS, y * PS, "line"], [(x + w) * PS, y * PS, "line"], [(x + w) * PS, (y + h) * PS, "line"], [x * PS, (y + h) * PS, "line"]]

        masters = []
        for j in range(2):
            x0, w = rng.randint(0, 20) * 2, rng.randint(50, 120) * 2
            B = {"cs": [sq(x0, 0, w, 2 * rng.randint(100, 200))], "comps": [], "w": (w + 40) * PS, "h": 0, "u": [0x42],
                 "anchors": [{"n": "top", "x": (x0 + w // 2) * PS, "y": 2 * rng.randint(200, 300) * PS}]}
            C = {"cs": [sq(2 * rng.randint(0, 30), 2 * rng.randint(0, 30), 60, 80)], "comps": [], "anchors": [], "w": 300 * PS, "h": 0, "u": [0x43]}
            masters.append({"B": B, "C": C})
        flip = [[MS, 0, 0, MS], [-MS, 0, 0, MS], [MS, 0, 0, MS]][k % 3]
        comps_ = [[{"b": "B", "m": flip, "d": [2 * rng.randint(0, 50) * PS, 2 * rng.randint(0, 20) * PS]}] for _ in range(3)]
        for j, m in enumerate(masters):
            m["A"] = {"cs": [], "comps": [dict(comps_[j][0], d=list(comps_[j][0]["d"]))] + ([{"b": "C", "m": [MS, 0, 0, MS], "d": [400 * PS, 0]}] if k % 2 else []),
                      "anchors": [], "w": 2 * rng.randint(200, 300) * PS, "h": 0, "u": [0x41]}
        sparse = {"A": {"cs": [], "comps": [dict(comps_[2][0], d=list(comps_[2][0]["d"]))] + ([{"b": "C", "m": [MS, 0, 0, MS], "d": [400 * PS, 0]}] if k % 2 else []),
                        "anchors": [], "w": 2 * rng.randint(200, 300) * PS, "h": 0, "u": [0x41]}}
        off = [50, -30, 12][k % 3]
        out.append({"cid": f"{prefix}-pp{k}", "pipe": True, "lib": rng.choice(["ufoLib2", "defcon"]), "masters": masters, "sparse": sparse,
                    "offset": off, "moved": ["B"] if k % 4 else ["B", "C"], "standalone": k % 2 == 0,
                    "filters": [{"name": "propagateAnchors", "pre": True},
                                {"name": "transformations", "pre": True, "kwargs": {"OffsetX": off}, "include": ["B"] if k % 4 else ["B", "C"]}]})
    return out


def _execute_pipe(case):
    import copy

    import ufo2ft

    from .. import absfont, dsbuild, project
    from ..absfont import PS

    lib = case["lib"]
    fam_masters = []
    info = {"unitsPerEm": 1000, "ascender": 800, "descender": -200, "familyName": "SparsePipe"}
    for k, gs in enumerate(case["masters"]):
        ufo = {"glyphs": copy.deepcopy(gs), "order": sorted(gs), "glyphNames": sorted(gs), "info": dict(info, styleName=f"M{k}"),
               "lib": {"com.github.googlei18n.ufo2ft.filters": copy.deepcopy(case["filters"])}}
        if k == 0 and not case["standalone"]:
            ufo["layers"] = {"sparse": copy.deepcopy(case["sparse"])}
        fam_masters.append({"loc": {"Weight": [0, 8][k]}, "ufo": ufo, "name": f"M{k}"})
    if case["standalone"]:
        sp = copy.deepcopy(case["sparse"])
        fam_masters.append({"loc": {"Weight": 4}, "name": "Sparse", "standalone": True,
                            "ufo": {"glyphs": sp, "order": sorted(sp), "glyphNames": sorted(sp), "info": dict(info, styleName="Sparse"),
                                    "lib": {"com.github.googlei18n.ufo2ft.filters": copy.deepcopy(case["filters"])}}})
    else:
        fam_masters.append({"loc": {"Weight": 4}, "layer": "sparse", "of": 0, "name": "Sparse"})
    family = {"axes": [{"name": "Weight", "tag": "wght", "min": 0, "default": 0, "max": 8}], "masters": fam_masters, "lib": {}}
    ds = dsbuild.build_designspace(family, lib)
    # declared sources: the moved glyphs shifted by hand; the sparse master completed with the mid-point blend of its bases
    off = case["offset"] * PS

    def moved(g):
        h = copy.deepcopy(g)
        for c in h["cs"]:
            for p in c:
                p[0] += off
        for a in h["anchors"]:
            a["x"] += off
        return h

    decl = []
    for gs in case["masters"]:
        decl.append({n: (moved(g) if n in case["moved"] else copy.deepcopy(g)) for n, g in gs.items()})
    mid = copy.deepcopy(case["sparse"])
    for n in ("B", "C"):
        a, b = decl[0][n], decl[1][n]
        g = copy.deepcopy(a)
        for ci, c in enumerate(g["cs"]):
            for pi, p in enumerate(c):
                p[0] = (a["cs"][ci][pi][0] + b["cs"][ci][pi][0]) // 2
                p[1] = (a["cs"][ci][pi][1] + b["cs"][ci][pi][1]) // 2
        g["w"] = (a["w"] + b["w"]) // 2
        g["anchors"] = []
        mid[n] = g
    decl.append(mid)
    for d in decl:
        for g in d.values():
            g["anchors"] = []       # (anchors are not part of what PipelineTrace compares)
    try:
        outs = [s.font for s in ufo2ft.compileInterpolatableOTFsFromDS(ds, useProductionNames=False).sources]
        err = ""
    except Exception as e:  # noqa
        outs, err = [None] * 3, type(e).__name__ + ":" + str(e)[:80]
    recs = []
    for k, (src, otf) in enumerate(zip(decl, outs)):
        rec = {"tid": f"{case['cid']}-m{k}", "_acc": "pipe", "flavor": "cff", "src": src, "master": k, "events": [],
               "opts": {"skip": ["B", "C"] if k == 2 else [], "tolS": PS // 2, "inplace": False, "flatten": False,
                        "convertCubics": True, "reverse": True, "expectErr": "", "tolMilli": 0}}
        if err:
            rec["ret"] = {"err": err}
        else:
            data, f2 = project.save_reload(otf)
            rec["ret"] = {"order": f2.getGlyphOrder(), "adv": project.advances(f2), "outline": project.cff_outlines(f2)}
        recs.append(rec)
    return recs


def execute(case):
    if case.get("pipe"):
        return _execute_pipe(case)
    return fc.invoke_history(case)


def preclassify(rec, rep):
    if rec.get("skip"):
        rep.notes["skipped"] = rep.notes.get("skipped", 0) + 1
        return "skip"


def nontrivial(rec):
    if rec.get("_acc") == "pipe":
        return rec["master"] == 2
    return bool(rec.get("modified"))


def classify(rec, pfail, mfail, extra, rep):
    tag = extra[0] if extra else "none"
    if tag == "F-C15-1":
        rep.known("F-C15-1", "TransformationsFilter applies the matrix twice to an included composite that reaches an "
                             "included glyph through a non-included base")
    return None
