"""C15 -- component/transform filters preserve rendering; anchors follow components."""
import random

from .. import gen
from . import filters_common as fc

PROPERTY = "C15"
TRACE_MODULE = "FilterTrace"
TRACE_CFG = "FilterTrace.cfg"
RULE = ("random acyclic glyph sets (3-7 glyphs, depth <= 3, affine palette incl. mirrors/shear/rotation, k/4 coordinates "
        "with ties) x {Decompose, DecomposeTransformed, Flatten, SkipExport, Transformations, PropagateAnchors} x include "
        "specifications x {defcon, ufoLib2}; a case is non-trivial when the filter modified at least one glyph; distinct by "
        "(filter, include, glyph set) digest")
ASSUMPTIONS = [
    "TLC evaluates the TLA+ operators correctly; fontTools pens are the environment of the filters",
    "inputs restricted to the exact dyadic domain so float and integer arithmetic agree",
]


def design_checks(tier):
    if tier == "quick":
        return [dict(module="FiltersMC", cfg="FiltersMC_quick.cfg", workers=8, timeout=300)]
    return [dict(module="FiltersMC", cfg="FiltersMC_full.cfg", workers=16, timeout=3000, coverage=True)]


def _filter_spec(rng, names, glyphs):
    kind = rng.choice(["DecomposeComponents", "DecomposeTransformedComponents", "FlattenComponents",
                       "SkipExportGlyphs", "Transformations", "Transformations", "PropagateAnchors"])
    r = rng.random()
    if r < 0.4:
        inc = {"kind": "all"}
    elif r < 0.7:
        inc = {"kind": "list", "names": gen.subset(rng, names, 0.5)}
    elif r < 0.85:
        inc = {"kind": "exclude", "names": gen.subset(rng, names, 0.3)}
    else:
        inc = {"kind": "pred", "pred": rng.choice(["hasContours", "hasComponents", "wide"])}
    spec = {"name": kind, "include": inc}
    if kind == "SkipExportGlyphs":
        spec["args"] = [gen.subset(rng, names, 0.35)]
        spec["include"] = {"kind": "all"}
    if kind == "Transformations":
        kw = {}
        if rng.random() < 0.8:
            kw["OffsetX"] = rng.choice([0, 10, -20, 12.5, 100])
        if rng.random() < 0.5:
            kw["OffsetY"] = rng.choice([0, 8, -7.5, 50])
        if rng.random() < 0.5:
            kw["ScaleX"] = rng.choice([100, 50, 200, 25])
            kw["ScaleY"] = rng.choice([100, 50, 200, kw["ScaleX"]])
            kw["Origin"] = rng.choice([4, 4, 0, 1, 2, 3])
        spec["kwargs"] = kw
    return spec


def cases(tier, seed):
    n = 240 if tier == "quick" else 4000
    rng = random.Random(seed * 7919 + 15)
    out = []
    for k in range(n):
        glyphs = gen.glyphset(rng)
        names = sorted(glyphs)
        spec = _filter_spec(rng, names, glyphs)
        step = {"glyphs": glyphs, "info": {"capHeight": rng.choice([700, 701]), "xHeight": rng.choice([500, 499])},
                "separate": rng.random() < 0.85}
        out.append({"cid": f"c15-{seed}-{k}", "lib": rng.choice(["ufoLib2", "defcon"]), "filter": spec,
                    "steps": [step], "again": spec["name"] == "PropagateAnchors"})
    return out


def execute(case):
    return fc.invoke_history(case)


def preclassify(rec, rep):
    if rec.get("skip"):
        rep.notes["skipped"] = rep.notes.get("skipped", 0) + 1
        return "skip"


def nontrivial(rec):
    return bool(rec.get("modified"))


def classify(rec, pfail, mfail, extra, rep):
    tag = extra[0] if extra else "none"
    if tag == "F-C15-1":
        rep.known("F-C15-1", "TransformationsFilter applies the matrix twice to an included composite that reaches an "
                             "included glyph through a non-included base")
    return None
