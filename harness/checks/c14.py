"""C14 -- filters touch only what they are asked to and report what they changed."""
import random

from .. import gen
from . import filters_common as fc

PROPERTY = "C14"
TRACE_MODULE = "FilterTrace"
TRACE_CFG = "FilterTrace.cfg"
RULE = ("every shipped filter (11 plain + 5 interpolatable variants) x include/exclude/predicate/all x random exact-domain "
        "glyph sets x histories of 2-3 invocations of ONE filter object on different fonts (each step compared with a fresh "
        "object) x {defcon, ufoLib2} x {separate glyph set, in place}; non-trivial = the invocation modified a glyph; "
        "distinct by digest of (filter, include, glyph sets)")
ASSUMPTIONS = [
    "numerically inexact filters (cu2qu, remove-overlaps, dotted circle) are observed through per-glyph digests; their "
    "geometry is environment",
    "interpolatable variants are exercised without an Instantiator (each master resolved against its own glyph set)",
]

PLAIN = ["DecomposeComponents", "DecomposeTransformedComponents", "FlattenComponents", "SkipExportGlyphs",
         "ReverseContourDirection", "Transformations", "PropagateAnchors", "SortContours", "RemoveOverlaps",
         "CubicToQuadratic", "DottedCircle"]
IVAR = ["DecomposeComponents", "DecomposeTransformedComponents", "FlattenComponents", "SkipExportGlyphs", "PropagateAnchors"]


def design_checks(tier):
    if tier == "quick":
        return [dict(module="FiltersMC", cfg="FiltersMC_quick.cfg", workers=8, timeout=300)]
    return [dict(module="FiltersMC", cfg="FiltersMC_full.cfg", workers=16, timeout=3000, coverage=True)]


def _include(rng, names):
    r = rng.random()
    if r < 0.35:
        return {"kind": "all"}
    if r < 0.65:
        return {"kind": "list", "names": gen.subset(rng, names, 0.5)}
    if r < 0.85:
        return {"kind": "exclude", "names": gen.subset(rng, names, 0.3)}
    return {"kind": "pred", "pred": rng.choice(["hasContours", "hasComponents", "wide"])}


def _spec(rng, kind, names):
    spec = {"name": kind, "include": _include(rng, names)}
    if kind == "SkipExportGlyphs":
        spec["args"] = [gen.subset(rng, names, rng.choice([0.0, 0.3, 0.4]))]
        spec["include"] = {"kind": "all"}
    elif kind == "Transformations":
        spec["kwargs"] = {"OffsetX": rng.choice([0, 10, -20, 12.5]), "OffsetY": rng.choice([0, 0, 8]),
                          "ScaleX": rng.choice([100, 100, 50, 200]), "ScaleY": rng.choice([100, 50, 50, 200]),
                          "Origin": rng.choice([4, 0, 1, 2, 3])}
    elif kind == "CubicToQuadratic":
        spec["kwargs"] = {"reverseDirection": rng.random() < 0.5}
    elif kind == "DottedCircle":
        spec["include"] = {"kind": "all"}
    return spec


def dotted_glyphset(rng):
    """bases with top / bottom anchors, marks with the attaching anchors, and -- half of the time -- an existing U+25CC
    glyph that lacks some of the anchors the marks need (the filter then has to add them to the glyph SET it was given)"""
    from ..absfont import PS

    def boxc(x0, y0, w, h):
        return [[x0 * PS, y0 * PS, "line"], [(x0 + w) * PS, y0 * PS, "line"], [(x0 + w) * PS, (y0 + h) * PS, "line"], [x0 * PS, (y0 + h) * PS, "line"]]

    glyphs = {}
    classes = rng.sample(["top", "bottom", "ogonek"], rng.randint(1, 3))
    for k, b in enumerate(rng.sample(["a", "e", "o", "A"], rng.randint(1, 3))):
        glyphs[b] = {"cs": [boxc(20, 0, 300, 500)], "comps": [], "w": rng.randint(4, 6) * 100 * PS, "h": 0, "u": [0x61 + k],
                     "anchors": [{"n": c, "x": rng.randint(4, 12) * 25 * PS, "y": rng.randint(0, 24) * 25 * PS} for c in classes if rng.random() < 0.8]}
    for k, c in enumerate(classes):
        if rng.random() < 0.9:
            glyphs[c + "comb"] = {"cs": [boxc(-80, 520, 60, 60)], "comps": [], "w": 0, "h": 0, "u": [0x300 + k],
                                  "anchors": [{"n": "_" + c, "x": -50 * PS, "y": 500 * PS}]}
    if rng.random() < 0.55:
        have = [c for c in classes if rng.random() < 0.4]
        glyphs["uni25CC"] = {"cs": [boxc(50, 100, 300, 300)], "comps": [], "w": 400 * PS, "h": 0, "u": [0x25CC],
                             "anchors": [{"n": c, "x": 200 * PS, "y": 450 * PS} for c in have]}
    return glyphs


def cases(tier, seed):
    n = 260 if tier == "quick" else 4000
    rng = random.Random(seed * 104729 + 14)
    out = []
    for k in range(n):
        interp = rng.random() < 0.25
        kind = rng.choice(IVAR if interp else PLAIN)
        nsteps = rng.choice([1, 2, 2, 3])
        # one name pool for the whole history so include lists make sense across steps
        steps = []
        names = set()
        for _ in range(nsteps):
            kinds = ["line", "cubic"] if kind in ("RemoveOverlaps",) else None
            glyphs = dotted_glyphset(rng) if kind == "DottedCircle" and rng.random() < 0.7 else \
                gen.glyphset(rng, kinds=kinds, unicodes=(kind == "DottedCircle"))
            names |= set(glyphs)
            # per-font metrics differ, so that anything a filter object derives from one font and keeps shows on the next
            info = {"capHeight": rng.choice([700, 600, 720, 701]), "xHeight": rng.choice([500, 420, 480, 499])}
            if interp:
                steps.append({"masters": [glyphs, gen.perturb_master(rng, glyphs, drop=rng.choice([0, 0, 0.2]))], "info": info})
            else:
                step = {"glyphs": glyphs, "info": info, "separate": rng.random() < 0.8}
                if kind == "DottedCircle" and rng.random() < 0.5:
                    step["lib"] = {"public.openTypeCategories": {sorted(glyphs)[0]: "base"}}
                if kind in ("DecomposeComponents", "ReverseContourDirection", "Transformations", "FlattenComponents", "DecomposeTransformedComponents") \
                        and rng.random() < 0.3:
                    # a colour font: colour-layer copies of some glyphs sit in the glyph set under "<name>.color1"
                    from ..absfont import MS, PS

                    pick = [n_ for n_ in sorted(glyphs) if rng.random() < 0.5][:3] or sorted(glyphs)[:1]
                    layer = {}
                    for n_ in pick:
                        layer[n_] = {"cs": [], "comps": [{"b": "lx", "m": [MS, 0, 0, MS], "d": [rng.randint(-20, 20) * PS, 0]}], "anchors": [],
                                     "w": glyphs[n_]["w"], "h": 0, "u": []}
                    layer["lx"] = {"cs": [], "comps": [{"b": "ly", "m": [-MS, 0, 0, MS], "d": [200 * PS, 0]}], "anchors": [], "w": 0, "h": 0, "u": []}
                    layer["ly"] = {"cs": [[[0, 0, "line"], [100 * PS, 0, "line"], [50 * PS, 80 * PS, "line"]]], "comps": [], "anchors": [], "w": 0, "h": 0, "u": []}
                    step["layers"] = {"color1": layer}
                    step["lib"] = dict(step.get("lib") or {}, **{"com.github.googlei18n.ufo2ft.colorPalettes": [[[1.0, 0.0, 0.0, 1.0]]],
                                                                "com.github.googlei18n.ufo2ft.colorLayerMapping": [["color1", 0]]})
                    step["explode"] = True
                    step["separate"] = True
                steps.append(step)
        spec = _spec(rng, kind, sorted(names))
        if any(st.get("explode") for st in steps):
            spec["include"] = {"kind": "all"}      # (include lists name glyphs, the exploded copies share their names)
        out.append({"cid": f"c14-{seed}-{k}", "lib": rng.choice(["ufoLib2", "defcon"]), "filter": spec, "steps": steps,
                    "interp": interp, "again": kind == "PropagateAnchors"})
    # the separate glyph set as a PLAIN dict of glyph copies, and every filter with its non-default options
    rng2 = random.Random(seed * 104729 + 140014)
    OPTS = {"CubicToQuadratic": [{"rememberCurveType": True}, {"rememberCurveType": True, "reverseDirection": False}, {"conversionError": 0.002}],
            "DecomposeComponents": [{}], "FlattenComponents": [{}], "ReverseContourDirection": [{}], "SortContours": [{}],
            "DecomposeTransformedComponents": [{}], "PropagateAnchors": [{}], "RemoveOverlaps": [{"backend": "pathops"}, {}],
            "Transformations": [{"OffsetX": 10, "ScaleY": 50, "Origin": 1}]}
    kinds_ = sorted(OPTS)
    for k in range(45 if tier == "quick" else 500):
        kind = "CubicToQuadratic" if k % 3 == 0 else kinds_[(k // 3) % len(kinds_)]
        steps, names = [], set()
        for j in range(2):
            glyphs = gen.glyphset(rng2, kinds=["line", "cubic"] if kind in ("RemoveOverlaps", "CubicToQuadratic") else None)
            names |= set(glyphs)
            steps.append({"glyphs": glyphs, "info": {"capHeight": 700, "xHeight": 500}, "separate": True, "plain": (k + j) % 4 != 3})
        spec = {"name": kind, "include": {"kind": "all"} if k % 2 else _include(rng2, sorted(names)),
                "kwargs": dict(OPTS[kind][(k // 3) % len(OPTS[kind])])}
        if k % 5 == 4:
            spec["include"] = {"kind": "list", "names": []}      # an EMPTY include list selects no glyph at all
        out.append({"cid": f"c14-{seed}-p{k}", "lib": rng2.choice(["ufoLib2", "defcon"]), "filter": spec, "steps": steps,
                    "interp": False, "again": False})
    # one filter object with an include / exclude specification shared by all masters of an interpolatable pre-processor run
    # (the `filters` argument of the compile functions)
    rng6 = random.Random(seed * 104729 + 140015)
    P = 1024
    for k in range(12 if tier == "quick" else 150):
        def sq(x, y, w, h):
            return [[x * P, y * P, "line"], [(x + w) * P, y * P, "line"], [(x + w) * P, (y + h) * P, "line"], [x * P, (y + h) * P, "line"]]

        masters = []
        for j in range(2 + k % 2):
            d = 4 * j
            g = {"a": {"cs": [sq(0, 0, 100 + d, 200)], "comps": [], "anchors": [], "w": 300 * P, "h": 0, "u": []},
                 "b": {"cs": [], "comps": [{"b": "a", "m": [64, 0, 0, 64], "d": [(10 + d) * P, 0]}], "anchors": [], "w": 300 * P, "h": 0, "u": []},
                 "c": {"cs": [], "comps": [{"b": "a", "m": [-64, 0, 0, 64], "d": [(200 + d) * P, 0]}, {"b": "a", "m": [64, 0, 0, 64], "d": [0, (250 + d) * P]}],
                       "anchors": [], "w": 400 * P, "h": 0, "u": []},
                 "e": {"cs": [], "comps": [{"b": "b", "m": [64, 0, 0, 64], "d": [(5 + d) * P, 5 * P]}], "anchors": [], "w": 300 * P, "h": 0, "u": []},
                 "f": {"cs": [], "comps": [{"b": "e", "m": [64, 0, 0, 64], "d": [0, (20 + d) * P]}, {"b": "c", "m": [64, 0, 0, 64], "d": [500 * P, 0]}],
                       "anchors": [], "w": 900 * P, "h": 0, "u": []}}
            masters.append(g)
        kind = ["DecomposeComponents", "FlattenComponents", "DecomposeTransformedComponents"][k % 3]
        inc = [{"kind": "list", "names": ["b"]}, {"kind": "list", "names": ["e"]}, {"kind": "exclude", "names": ["c", "f"]},
               {"kind": "list", "names": ["c", "f"]}, {"kind": "pred", "pred": "wide"}, {"kind": "list", "names": []}][k % 6]
        out.append({"cid": f"c14-{seed}-sh{k}", "shared": True, "lib": rng6.choice(["ufoLib2", "defcon"]), "filter": {"name": kind, "include": inc},
                    "masters": masters})
    return out


def _execute_shared(case):
    """ONE filter object (with an include / exclude specification) handed to an interpolatable pre-processor through the
    `filters` argument: it serves every master; only included glyphs change.  The families are straight-line, never mixed,
    with equal 2x2 everywhere and reverseDirection off, so the custom filter is the only stage that changes anything."""
    from ufo2ft.preProcessor import OTFInterpolatablePreProcessor, TTFInterpolatablePreProcessor

    from .. import absfont

    spec = case["filter"]
    fonts = [absfont.build_font({"glyphs": m, "info": {"unitsPerEm": 1000}}, case["lib"]) for m in case["masters"]]
    befores = [absfont.abs_glyphset({g.name: g for g in f}) for f in fonts]
    flt = fc.make_filter(spec)
    flt.pre = True
    names = set()
    for f in fonts:
        names |= set(fc.included_names(spec, {g.name: g for g in f}))
    pp = TTFInterpolatablePreProcessor(fonts, filters=[flt], reverseDirection=False, convertCubics=True)
    gss = pp.process()
    afters = [absfont.abs_glyphset(gs) for gs in gss]
    changed = sorted({n for b, a in zip(befores, afters) for n in b if a.get(n) != b[n]})
    return [{"tid": case["cid"], "filter": spec["name"], "sep": True, "lib": case["lib"], "inc": sorted(names),
             "masters": [{"before": b, "after": a} for b, a in zip(befores, afters)], "modified": changed, "opt": {},
             "srcSame": True, "_sig": [case["cid"]]}]


def execute(case):
    if case.get("shared"):
        return _execute_shared(case)
    if case.get("interp"):
        return fc.invoke_ihistory(case)
    return fc.invoke_history(case)


def preclassify(rec, rep):
    if rec.get("skip"):
        rep.notes["skipped"] = rep.notes.get("skipped", 0) + 1
        if rec.get("raisedSame") is False:
            rep.violation(rec["tid"], "stateless(raise)", {"record": rec})
        return "skip"


def nontrivial(rec):
    return bool(rec.get("modified"))


def classify(rec, pfail, mfail, extra, rep):
    if pfail == "source-untouched" and rec["filter"] == "DottedCircle" and set(rec.get("srcDiff", [])) <= {"lib", "fea"}:
        rep.known("F-C14-2", "DottedCircleFilter.ensure_base writes font.lib[public.openTypeCategories] / font.features.text "
                             "although a separate glyph set was passed")
        return "known:F-C14-2"
    if pfail == "matrix-applied":
        return None
    tag = extra[0] if extra else "none"
    if tag == "F-C15-1" and pfail == "none":
        rep.known("F-C15-1", "TransformationsFilter double application (see C15)")
    return None
