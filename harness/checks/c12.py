"""C12 -- CFF optimisation, subroutiniser and version never change what is drawn."""
import random

from .. import compile_exec, gen, project

PROPERTY = "C12"
TRACE_MODULE = "PipelineTrace"
TRACE_CFG = "PipelineTrace.cfg"
RULE = ("random exact-domain UFOs (incl. widths equal to the default / nominal width, zero-length and implied closing "
        "segments) x ALL 18 combinations optimizeCFF {0,1,2} x subroutinizer {None, cffsubr, compreffor} x cffVersion {1,2}; "
        "every supported combination must draw the source outline (same expectation as C01), same advances, byte-equal "
        "layout tables; the unsupported combination must raise NotImplementedError; plus 2-3 master families with a segment that "
        "degenerates in one master only, through compileVariableCFF2 at levels 0/1/2 (instantiated at every master location) and "
        "compileInterpolatableOTFsFromDS at levels 0/1, each judged against the master's source; non-trivial = glyph set with curves or "
        "components; distinct by (source digest, combination)")
ASSUMPTIONS = ["fontTools' charstring interpreter decodes subroutinised / specialised / CFF2 charstrings (trusted)",
               "cffsubr / compreffor are environment"]

COMBOS = [(o, s, v) for o in (0, 1, 2) for s in (None, "cffsubr", "compreffor") for v in (1, 2)]


def design_checks(tier):
    return [dict(module="CffOptions", cfg="CffOptions.cfg", workers=2, timeout=120)]


def cases(tier, seed):
    n = 9 if tier == "quick" else 120
    rng = random.Random(seed * 49979687 + 12)
    out = []
    for k in range(n):
        glyphs = gen.glyphset(rng, nmin=4, nmax=7, unicodes=True)
        # make several glyphs share one advance so that it becomes defaultWidthX / nominalWidthX
        names = sorted(glyphs)
        w = glyphs[names[0]]["w"]
        for nm in names[1:3]:
            glyphs[nm]["w"] = w
        # a contour with an explicit closing point equal to the start (zero-length closing segment)
        g0 = glyphs[names[0]]
        if g0["cs"] and all(p[2] == "line" for p in g0["cs"][0]):
            g0["cs"][0].append(list(g0["cs"][0][0]))
        info_ = {"unitsPerEm": 1000, "ascender": 800, "descender": -200}
        if k % 3 == 1:
            # explicit default / nominal widths; one glyph is exactly as wide as the nominal width, another as the default
            dw, nw = glyphs[names[0]]["w"] // 1024, (glyphs[names[-1]]["w"] // 1024) or 560
            info_["postscriptDefaultWidthX"], info_["postscriptNominalWidthX"] = dw, nw
            glyphs[names[-1]]["w"] = nw * 1024
            if k % 6 == 4:
                # the UFO specification allows any number here: a NEGATIVE nominal width (and, every other time, a zero
                # default width) -- the charstrings' width operands and the Private DICT must still agree
                info_["postscriptNominalWidthX"] = -40 - (k % 5)
                if k % 12 == 4:
                    info_["postscriptDefaultWidthX"] = 0
        ufo = {"glyphs": glyphs, "info": info_,
               "kerning": [[names[0], names[1], -40]], "kernScale": 1}
        case = {"cid": f"c12-{seed}-{k}", "lib": rng.choice(["ufoLib2", "defcon"]), "ufo": ufo}
        if k % 3 == 2 and len(names) >= 3:
            # production names that are other glyphs' current names (a rotation): the renamed font must still draw, index
            # by index, what the combination without renaming draws
            rot = rng.sample(names, 3)
            ufo["lib"] = {"public.postscriptNames": {a_: b_ for a_, b_ in zip(rot, rot[1:] + rot[:1])}}
            case["rename"] = True
        out.append(case)
    # SMOOTH quadratic splines (a circle converted from cubic arcs with cu2qu, control points on the quarter-unit grid, two or
    # more off-curve points per arc): a curve fitter could merge them, the compiler may not -- every optimisation level
    # draws each quadratic piece as its exact cubic
    from fontTools.cu2qu import curve_to_quadratic

    rng7 = random.Random(seed * 49979687 + 120012)
    P = 1024
    for k in range(3 if tier == "quick" else 30):
        glyphs = {}
        for gi, nm in enumerate(["o", "c"][: 1 + k % 2] + ["l"]):
            if nm == "l":
                glyphs[nm] = {"cs": [[[0, 0, "line"], [80 * P, 0, "line"], [80 * P, 700 * P, "line"], [0, 700 * P, "line"]]], "comps": [], "anchors": [],
                              "w": 200 * P, "h": 0, "u": [0x6C]}
                continue
            r = rng7.randint(150, 300)
            cx, cy = rng7.randint(250, 350), rng7.randint(250, 350)
            kq = 0.5523 * r
            arcs = [((cx + r, cy), (cx + r, cy + kq), (cx + kq, cy + r), (cx, cy + r)), ((cx, cy + r), (cx - kq, cy + r), (cx - r, cy + kq), (cx - r, cy)),
                    ((cx - r, cy), (cx - r, cy - kq), (cx - kq, cy - r), (cx, cy - r)), ((cx, cy - r), (cx + kq, cy - r), (cx + r, cy - kq), (cx + r, cy))]
            pts = [[int(cx + r) * P, int(cy) * P, "qcurve"]]
            for ai, arc in enumerate(arcs):
                q = curve_to_quadratic(arc, 0.3 if gi == 0 else 0.1)
                for (x, y) in q[1:-1]:
                    pts.append([int(round(x * 4)) * P // 4, int(round(y * 4)) * P // 4, "off"])
                if ai < 3:
                    pts.append([int(round(q[-1][0])) * P, int(round(q[-1][1])) * P, "qcurve"])
            glyphs[nm] = {"cs": [pts], "comps": [], "anchors": [], "w": (2 * cx) * P, "h": 0, "u": [0x6F + gi]}
        out.append({"cid": f"c12-{seed}-sq{k}", "lib": rng7.choice(["ufoLib2", "defcon"]),
                    "ufo": {"glyphs": glyphs, "info": {"unitsPerEm": 1000, "ascender": 800, "descender": -200},
                            "kerning": [["l", "o", -40]], "kernScale": 1}})
    # designspace paths: masters must stay unspecialised whatever level is asked for, the variable font is optimised as a whole
    for k in range(8 if tier == "quick" else 100):
        base = gen.glyphset(rng, nmin=3, nmax=6, max_depth=2, kinds=["line", "cubic", "mixed"], unicodes=True)
        nm = rng.choice([2, 3])
        masters = [base] + [gen.perturb_master(rng, base, change_2x2=0.0) for _ in range(nm - 1)]
        # a segment that degenerates (two consecutive on-curve points coincide) in ONE master only
        which = rng.randrange(nm)
        for g in masters[which].values():
            for c in g["cs"]:
                idx = [i for i in range(2, len(c)) if c[i][2] == "line" and c[i - 1][2] != "off"]
                if idx and rng.random() < 0.7:
                    i = rng.choice(idx)
                    c[i][0], c[i][1] = c[i - 1][0], c[i - 1][1]
        out.append({"cid": f"c12-{seed}-ds{k}", "lib": rng.choice(["ufoLib2", "defcon"]), "masters": masters, "ds": True})
    return out


def execute(case):
    if case.get("ds"):
        recs = []
        for fn, levels in (("varcff2", (0, 1, 2)), ("interp", (0, 1))):
            for o in levels:
                sub = {"cid": f"{case['cid']}/{fn}-o{o}", "lib": case["lib"], "masters": case["masters"], "fn": fn, "kwargs": {"optimizeCFF": o}}
                for rec in compile_exec.interp_cff_compile(sub):
                    rec["_sig"] = rec["tid"]
                    recs.append(rec)
        return recs
    recs = []
    base_layout = None
    plain_order = None
    if case.get("rename"):
        plain = compile_exec.static_compile({"cid": case["cid"] + "/plain", "lib": case["lib"], "flavor": "cff", "ufo": case["ufo"],
                                             "kwargs": {"useProductionNames": False, "optimizeCFF": 0}}, glyphsets=False)
        plain_order = (plain.get("ret") or {}).get("order")
    for (o, s, v) in COMBOS:
        kwargs = {"optimizeCFF": o, "cffVersion": v}
        if plain_order:
            kwargs["useProductionNames"] = True
        if s is not None:
            kwargs["subroutinizer"] = s
        unsupported = (o == 2 and s == "compreffor" and v == 2)
        sub = {"cid": f"{case['cid']}/o{o}-{s}-v{v}", "lib": case["lib"], "flavor": "cff", "ufo": case["ufo"],
               "kwargs": kwargs, "expectErr": "NotImplementedError" if unsupported else "", "wantLayout": True}
        rec = compile_exec.static_compile(sub, glyphsets=False)
        if rec.get("skip"):
            recs.append(rec)
            continue
        if plain_order and "order" in rec.get("ret", {}) and len(rec["ret"]["order"]) == len(plain_order):
            # back to source names, index by index
            back = dict(zip(rec["ret"]["order"], plain_order))
            ret = rec["ret"]
            ret["order"] = [back[n] for n in ret["order"]]
            for key in ("adv", "outline", "cffAdv"):
                if key in ret:
                    ret[key] = {back.get(n, n): val for n, val in ret[key].items()}
        lay = rec.pop("_layout", None)
        if lay is not None:
            if base_layout is None:
                base_layout = lay
            rec["ret"]["layoutSame"] = (lay == base_layout)
        rec["_sig"] = sub["cid"]
        recs.append(rec)
    return recs


def preclassify(rec, rep):
    if rec.get("skip"):
        rep.notes["skipped"] = rep.notes.get("skipped", 0) + 1
        return "skip"
