"""C01 -- CFF outlines and advances equal the source with components resolved."""
import random

from .. import absfont, compile_exec, gen

PROPERTY = "C01"
TRACE_MODULE = "PipelineTrace"
TRACE_CFG = "PipelineTrace.cfg"
ACCEPTORS = {"_default": ("PipelineTrace", "PipelineTrace.cfg"), "color": ("ColorTrace", "ColorTrace.cfg")}
RULE = ("random exact-domain UFOs (3-7 glyphs, nested / mirrored / sheared / scaled components, line + cubic + quadratic "
        "segments, k/4 coordinates and advances with .5 ties of both signs) x roundTolerance {None, 0, 0.25, 0.5} x cffVersion "
        "{1, 2} x {defcon, ufoLib2} (one case in six with a skipExportGlyphs list, one in seven a colour font whose layer "
        "re-draws a composite with deeper nesting); compiled with compileOTF, saved, reloaded, drawn with RecordingPen; non-trivial = the "
        "font has at least one composite glyph; distinct by source digest + options; plus (one case in five) families of "
        "2-3 compatible masters compiled with compileInterpolatableOTFsFromDS in which a composite glyph (incl. mirrored and "
        "nested components) is drawn as plain contours in some masters and composed in the others -- every master is judged "
        "against its own source")
ASSUMPTIONS = ["fontTools' CFF charstring decoder and RecordingPen are the observation channel (trusted)",
               "exact dyadic input domain; quadratic->cubic control points (thirds) are matched up to rounding ties"]


def design_checks(tier):
    if tier == "quick":
        return [dict(module="FiltersMC", cfg="FiltersMC_decompose.cfg", workers=8, timeout=300)]
    return [dict(module="FiltersMC", cfg="FiltersMC_full.cfg", workers=16, timeout=3000)]


def cases(tier, seed):
    n = 160 if tier == "quick" else 3000
    rng = random.Random(seed * 15485863 + 1)
    out = []
    for k in range(n):
        if k % 5 == 4:
            fam = _interp_family(rng)
            if fam:
                out.append({"cid": f"c01-{seed}-{k}", "lib": rng.choice(["ufoLib2", "defcon"]), "interp": True, "masters": fam,
                            "kwargs": {"optimizeCFF": rng.choice([0, 1]), **({"roundTolerance": rng.choice([0, 0.5])} if rng.random() < 0.3 else {})}})
                continue
        tol = rng.choice([None, None, 0, 0.25, 0.5])
        kinds = None if tol in (None, 0.5) else ["line", "cubic", "mixed"]
        glyphs = gen.glyphset(rng, kinds=kinds, unicodes=True)
        kwargs = {"roundTolerance": tol, "cffVersion": rng.choice([1, 2]), "optimizeCFF": rng.choice([0, 1, 2])}
        if tol is None:
            del kwargs["roundTolerance"]
        ufo_lib = {}
        if k % 6 == 1:
            # some glyphs are not exported: what references them (also through mirrored components) still has to draw them
            names = sorted(glyphs)
            skip = gen.subset(rng, names, 0.3)
            if len(skip) == len(names):
                skip = skip[:-1]
            if rng.random() < 0.5:
                kwargs["skipExportGlyphs"] = skip
            else:
                ufo_lib = {"public.skipExportGlyphs": skip}
        layers = None
        if k % 7 == 3:
            # a colour font: a layer holds another drawing of a composite glyph, nested more deeply than the default-layer one;
            # the exploded copies live in the working glyph set under keys that differ from their names
            cands = [n_ for n_, g in glyphs.items() if g["comps"] and all(not glyphs[c["b"]]["comps"] for c in g["comps"])]
            if cands:
                from ..absfont import MS, PS

                g_ = rng.choice(cands)
                # the colour alternates have advances of their own (they differ from the default-layer glyphs of the same
                # name); `ly` is drawn in the layer under the NAME of a default-layer glyph when one is free
                simple = sorted(n_ for n_, g in glyphs.items() if not g["comps"] and n_ != g_ and n_ != ".notdef")
                ly = rng.choice(simple) if simple and k % 2 else "ly"
                layers = {"color1": {
                    g_: {"cs": [], "comps": [{"b": "lx", "m": [MS, 0, 0, MS], "d": [10 * PS, 0]}], "anchors": [],
                         "w": abs(glyphs[g_]["w"] + (rng.choice([-80, 37, 120]) * PS if k % 4 < 3 else 0)), "h": 0, "u": []},   # (an advance is never negative)
                    "lx": {"cs": [], "comps": [{"b": ly, "m": [-MS, 0, 0, MS], "d": [200 * PS, 0]}], "anchors": [], "w": 0, "h": 0, "u": []},
                    ly: {"cs": [[[0, 0, "line"], [100 * PS, 0, "line"], [50 * PS, 80 * PS, "line"]]], "comps": [], "anchors": [],
                         "w": (glyphs[ly]["w"] + 62 * PS) if ly in glyphs else 0, "h": 0, "u": []}}}
                ufo_lib = dict(ufo_lib)
                ufo_lib["com.github.googlei18n.ufo2ft.colorPalettes"] = [[[1.0, 0.0, 0.0, 1.0], [0.0, 0.4, 1.0, 1.0]]]
                ufo_lib["com.github.googlei18n.ufo2ft.colorLayerMapping"] = [["color1", 1]]
        ufo_ = {"glyphs": glyphs, "info": {"unitsPerEm": 1000, "ascender": 800, "descender": -200}, "lib": ufo_lib}
        if layers:
            ufo_["layers"] = layers
        out.append({"cid": f"c01-{seed}-{k}", "lib": rng.choice(["ufoLib2", "defcon"]), "flavor": "cff", "ufo": ufo_, "kwargs": kwargs})
    return out


def _interp_family(rng):
    """2-3 compatible masters; every composite glyph is, independently per master, either composed or drawn as the
    equivalent contours (at least one master of each form when the family has a composite)."""
    base = gen.glyphset(rng, nmin=3, nmax=6, max_depth=2, kinds=["line", "cubic", "mixed"], unicodes=True, mixed=False)
    nm = rng.choice([2, 3])
    masters = [base] + [gen.perturb_master(rng, base, change_2x2=0.0) for _ in range(nm - 1)]
    comps = [n for n, g in base.items() if g["comps"]]
    if not comps:
        return None
    out = [dict(m) for m in masters]
    for name in comps:
        forms = [rng.random() < 0.5 for _ in range(nm)]
        if all(forms) or not any(forms):
            forms[rng.randrange(nm)] = not forms[0]
        for k in range(nm):
            if forms[k]:
                try:
                    out[k][name] = compile_exec.resolved_form(masters[k], name)
                except absfont.Inexact:  # inexact after resolution: keep the composite
                    pass
    return out


def execute(case):
    if case.get("interp"):
        return compile_exec.interp_cff_compile(case)
    rec = compile_exec.static_compile(case)
    if case["ufo"].get("layers") and "opts" in rec:
        rec["opts"]["srcExempt"] = True      # (the colour-layer filter's lib write is finding F-C07-2, decided by C07)
        # the colour alternates are exported glyphs too: '<glyph>.<layer>' draws the layer's glyph, its components resolved
        # inside the layer, with the layer glyph's own advance and no code point
        for lname, lglyphs in case["ufo"]["layers"].items():
            # (a glyph that is not exported has no colour alternates either)
            todo = [n for n in lglyphs if n in case["ufo"]["glyphs"] and n not in rec["opts"]["skip"]]
            seen = set()
            while todo:
                n = todo.pop()
                if n in seen:
                    continue
                seen.add(n)
                todo.extend(c["b"] for c in lglyphs[n]["comps"])
            for n in seen:
                g = dict(lglyphs[n])
                g["comps"] = [dict(c, b=f"{c['b']}.{lname}") for c in g["comps"]]
                g["u"] = []
                rec.setdefault("srcExtra", {})[f"{n}.{lname}"] = g
        crec = _color_record(case, rec)
        if crec is not None:
            return [rec, crec]
    return [rec]


def _color_record(case, rec):
    """ColorLayers.tla: the abstract colour font and what the compiled COLR / CPAL / glyph order / cmap show."""
    import io

    from fontTools.ttLib import TTFont

    from .. import absfont

    if "ret" not in rec or "err" in rec["ret"] or rec.get("skip"):
        return None
    ufo = case["ufo"]
    font = absfont.build_font(ufo, case.get("lib", "ufoLib2"))
    import ufo2ft

    kw = dict(case.get("kwargs") or {})
    kw.setdefault("useProductionNames", False)
    otf = ufo2ft.compileOTF(font, **kw)
    buf = io.BytesIO()
    otf.save(buf)
    f2 = TTFont(io.BytesIO(buf.getvalue()))
    if "COLR" not in f2 or f2["COLR"].version != 0:
        return None
    skip = set(rec["opts"]["skip"])
    order = [n for n in (ufo.get("glyphNames") or list(ufo["glyphs"])) if n not in skip]
    layers = []
    for lname, lg in ufo["layers"].items():
        layers.append({"name": lname, "glyphs": [{"n": n, "comps": [c["b"] for c in g["comps"]],
                                                 "same": n in ufo["glyphs"] and {k: v for k, v in g.items() if k != "u"} ==
                                                 {k: v for k, v in ufo["glyphs"][n].items() if k != "u"} and not ufo["glyphs"][n].get("u")}
                                                for n, g in lg.items()]})
    lib = ufo.get("lib") or {}
    fifths = lambda v: int(round(v * 5))  # noqa
    colr = f2["COLR"]
    gid = {n: k for k, n in enumerate(f2.getGlyphOrder())}
    obs = [{"base": b, "layers": [[l.name, int(l.colorID)] for l in ls]} for b, ls in sorted(colr.ColorLayers.items(), key=lambda kv: gid[kv[0]])]
    cpal = [[[int(round(c.red)), int(round(c.green)), int(round(c.blue)), int(round(c.alpha))] for c in pal] for pal in f2["CPAL"].palettes]
    return {"tid": case["cid"] + "/color", "_acc": "color", "glyphs": order, "layers": layers,
            "mapping": [[l, int(c)] for l, c in lib.get("com.github.googlei18n.ufo2ft.colorLayerMapping", [])], "own": [],
            "palettes": [[[fifths(v) for v in col] for col in pal] for pal in lib.get("com.github.googlei18n.ufo2ft.colorPalettes", [])],
            "order": f2.getGlyphOrder(), "colr": obs, "cpal": cpal, "encoded": sorted(set((f2.getBestCmap() or {}).values())),
            "_sig": [case["cid"], "color"]}


def preclassify(rec, rep):
    if rec.get("skip"):
        rep.notes["skipped"] = rep.notes.get("skipped", 0) + 1
        return "skip"


def nontrivial(rec):
    if rec.get("_acc") == "color":
        return len(rec["colr"]) > 0
    return any(g["comps"] for g in rec["src"].values())

