"""C01 -- CFF outlines and advances equal the source with components resolved."""
import random

from .. import absfont, compile_exec, gen

PROPERTY = "C01"
TRACE_MODULE = "PipelineTrace"
TRACE_CFG = "PipelineTrace.cfg"
RULE = ("random exact-domain UFOs (3-7 glyphs, nested / mirrored / sheared / scaled components, line + cubic + quadratic "
        "segments, k/4 coordinates and advances with .5 ties of both signs) x roundTolerance {None, 0, 0.25, 0.5} x cffVersion "
        "{1, 2} x {defcon, ufoLib2} (one case in six with a skipExportGlyphs list); compiled with compileOTF, saved, reloaded, drawn with RecordingPen; non-trivial = the "
        "font has at least one composite glyph; distinct by source digest + options; plus (one case in five) families of "
        "2-3 compatible masters compiled with compileInterpolatableOTFsFromDS in which a composite glyph (incl. mirrored and "
        "nested components) is drawn as plain contours in some masters and composed in the others -- every master is judged "
        "against its own source")
ASSUMPTIONS = ["fontTools' CFF charstring decoder and RecordingPen are the observation channel (trusted)",
               "exact dyadic input domain; quadratic->cubic control points (thirds) are matched up to rounding ties"]


def design_checks(tier):
    if tier == "quick":
        return [dict(module="FiltersMC", cfg="FiltersMC_decompose.cfg", workers=8, timeout=300)]
    return [dict(module="FiltersMC", cfg="FiltersMC_full.cfg", workers=16, timeout=3000)]


def cases(tier, seed):
    n = 160 if tier == "quick" else 3000
    rng = random.Random(seed * 15485863 + 1)
    out = []
    for k in range(n):
        if k % 5 == 4:
            fam = _interp_family(rng)
            if fam:
                out.append({"cid": f"c01-{seed}-{k}", "lib": rng.choice(["ufoLib2", "defcon"]), "interp": True, "masters": fam,
                            "kwargs": {"optimizeCFF": rng.choice([0, 1]), **({"roundTolerance": rng.choice([0, 0.5])} if rng.random() < 0.3 else {})}})
                continue
        tol = rng.choice([None, None, 0, 0.25, 0.5])
        kinds = None if tol in (None, 0.5) else ["line", "cubic", "mixed"]
        glyphs = gen.glyphset(rng, kinds=kinds, unicodes=True)
        kwargs = {"roundTolerance": tol, "cffVersion": rng.choice([1, 2]), "optimizeCFF": rng.choice([0, 1, 2])}
        if tol is None:
            del kwargs["roundTolerance"]
        ufo_lib = {}
        if k % 6 == 1:
            # some glyphs are not exported: what references them (also through mirrored components) still has to draw them
            names = sorted(glyphs)
            skip = gen.subset(rng, names, 0.3)
            if len(skip) == len(names):
                skip = skip[:-1]
            if rng.random() < 0.5:
                kwargs["skipExportGlyphs"] = skip
            else:
                ufo_lib = {"public.skipExportGlyphs": skip}
        out.append({"cid": f"c01-{seed}-{k}", "lib": rng.choice(["ufoLib2", "defcon"]), "flavor": "cff",
                    "ufo": {"glyphs": glyphs, "info": {"unitsPerEm": 1000, "ascender": 800, "descender": -200}, "lib": ufo_lib},
                    "kwargs": kwargs})
    return out


def _interp_family(rng):
    """2-3 compatible masters; every composite glyph is, independently per master, either composed or drawn as the
    equivalent contours (at least one master of each form when the family has a composite)."""
    base = gen.glyphset(rng, nmin=3, nmax=6, max_depth=2, kinds=["line", "cubic", "mixed"], unicodes=True, mixed=False)
    nm = rng.choice([2, 3])
    masters = [base] + [gen.perturb_master(rng, base, change_2x2=0.0) for _ in range(nm - 1)]
    comps = [n for n, g in base.items() if g["comps"]]
    if not comps:
        return None
    out = [dict(m) for m in masters]
    for name in comps:
        forms = [rng.random() < 0.5 for _ in range(nm)]
        if all(forms) or not any(forms):
            forms[rng.randrange(nm)] = not forms[0]
        for k in range(nm):
            if forms[k]:
                try:
                    out[k][name] = compile_exec.resolved_form(masters[k], name)
                except absfont.Inexact:  # inexact after resolution: keep the composite
                    pass
    return out


def execute(case):
    if case.get("interp"):
        return compile_exec.interp_cff_compile(case)
    return [compile_exec.static_compile(case)]


def preclassify(rec, rep):
    if rec.get("skip"):
        rep.notes["skipped"] = rep.notes.get("skipped", 0) + 1
        return "skip"


def nontrivial(rec):
    return any(g["comps"] for g in rec["src"].values())
