"""C16 -- any valid font info compiles; explicit values win, absent ones fall back."""
import random

from .. import absfont, layout_gen, project

PROPERTY = "C16"
TRACE_MODULE = "FontInfoTrace"
TRACE_CFG = "FontInfoTrace.cfg"
RULE = ("random subsets of the metric cluster (unitsPerEm, ascender, descender, xHeight, capHeight, hhea / typo / win metrics, "
        "caret slope, underline) with integral / fractional (.5, .25) / negative spec-valid values, of the bit-list attributes "
        "(head flags, OS/2 selection / type / Unicode ranges / code page ranges: valid bit numbers in any order, possibly repeated "
        "or empty), of further OS/2 / head / post / vhea attributes (weight and width class, sub/superscript and strikeout "
        "metrics with their unitsPerEm fallbacks, version numbers, fixed pitch, the vertical metrics that create a vhea table and "
        "its caret fields), of thirteen plain name records plus version / unique-ID / vendor strings, and of the naming cluster "
        "(family, style, style-map, preferred, PostScript, version) with strings drawn from ASCII, Latin-1, Latin Extended, "
        "Greek, CJK, emoji and PostScript-forbidden characters x {TTF, OTF}; reloaded name / OS/2 / hhea / head / post fields "
        "are compared with the TLA+ fallback formulas; non-trivial = at least one attribute absent and one present; distinct by "
        "digest of the info subset")
ASSUMPTIONS = ["italicAngle = 0 in the exact domain (caret slope fallbacks use tan otherwise)",
               "unitsPerEm in {1000, 2048, 500, 1024.5? no: integral}: upm * 0.05 etc. are exact for the generated values",
               "non-ASCII PostScript names: only the character-set post-condition is demanded (NFKD is environment)"]

NUM_ATTRS = {
    "unitsPerEm": [1000, 2048, 500, 1000],
    "ascender": [800, 750.5, 1900, 0, 812.25],
    "descender": [-200, -250.5, 0, -187.75],
    "xHeight": [500, 480.5],
    "capHeight": [700, 712.5],
    "openTypeHheaAscender": [1000, 951],
    "openTypeHheaDescender": [-300, -251],
    "openTypeHheaLineGap": [0, 90, 33],
    "openTypeHheaCaretSlopeRise": [1000, 1],
    "openTypeHheaCaretSlopeRun": [0, 176],
    "openTypeHheaCaretOffset": [0, 12],
    "openTypeOS2TypoAscender": [800, 701],
    "openTypeOS2TypoDescender": [-200, -301],
    "openTypeOS2TypoLineGap": [0, 200, 91],
    "openTypeOS2WinAscent": [950, 1001],
    "openTypeOS2WinDescent": [250, 301],
    "postscriptUnderlineThickness": [50, 42.5],
    "postscriptUnderlinePosition": [-75, -100.5],
}
# further numeric attributes (direct mappings / simple fallbacks); integer-typed ones only get integers
MORE_NUM = {
    "openTypeOS2WeightClass": [100, 250, 400, 700, 900, 1],
    "openTypeOS2WidthClass": [1, 3, 5, 9],
    "openTypeHeadLowestRecPPEM": [6, 9, 12],
    "openTypeOS2SubscriptXSize": [650, 600, 0], "openTypeOS2SubscriptYSize": [600, 0, 699],
    "openTypeOS2SubscriptXOffset": [0, 12, -7], "openTypeOS2SubscriptYOffset": [75, 0, 140],
    "openTypeOS2SuperscriptXSize": [650, 0, 500], "openTypeOS2SuperscriptYSize": [600, 0, 450],
    "openTypeOS2SuperscriptXOffset": [0, 30], "openTypeOS2SuperscriptYOffset": [350, 0, 477],
    "openTypeOS2StrikeoutSize": [50, 0, 64], "openTypeOS2StrikeoutPosition": [300, 0, -10, 258],
    "versionMajor": [1, 0, 2, 13], "versionMinor": [0, 5, 50, 999, 100],
    "postscriptIsFixedPitch": [False, True],
    "openTypeVheaVertTypoAscender": [500, 0, 440], "openTypeVheaVertTypoDescender": [-500, 0, -460], "openTypeVheaVertTypoLineGap": [0, 1000, 90],
    "openTypeVheaCaretSlopeRise": [0, 1], "openTypeVheaCaretSlopeRun": [1, 0], "openTypeVheaCaretOffset": [0, 37, -12],
}
MORE_STR = {
    "copyright": ["(c) 2026 Someone", "Ünïcode ©", ""], "trademark": ["Foo is a trademark", "™ 明朝"],
    "openTypeNameManufacturer": ["Maker Ltd.", ""], "openTypeNameDesigner": ["A. Designer", "Ďesigner"],
    "openTypeNameDescription": ["A description.\nSecond line", "x"], "openTypeNameManufacturerURL": ["https://example.com"],
    "openTypeNameDesignerURL": ["https://example.org/d"], "openTypeNameLicense": ["OFL 1.1", ""],
    "openTypeNameLicenseURL": ["https://openfontlicense.org"], "openTypeNameCompatibleFullName": ["Compat Full", ""],
    "openTypeNameSampleText": ["Pack my box 😀", "abc"], "openTypeNameWWSFamilyName": ["WWS Fam"], "openTypeNameWWSSubfamilyName": ["WWS Sub"],
    "openTypeNameVersion": ["Version 2.100", "1.5 beta", "Version 0.001;build 7"], "openTypeNameUniqueID": ["unique-id-1", "x;y;z"],
    "openTypeOS2VendorID": ["ABCD", "XY", "Goog", "N"],
}


STRINGS = ["Test Family", "Ābc Sans", "Grüße", "Ελληνικά", "明朝", "Emoji 😀 Font", "Paren (Test) [x]", "Slash/Per%cent", "  Padded  ",
           "A", "New-Font", "Ünï Çödé"]
STYLES = ["Regular", "Bold", "Italic", "Bold Italic", "bold", "Light", "Condensed Bold", "Regular ", "SemiBold Italic", "Ēxtra"]
STR_ATTRS = {
    "familyName": STRINGS, "styleName": STYLES, "styleMapFamilyName": STRINGS, "styleMapStyleName": ["regular", "bold", "italic", "bold italic"],
    "openTypeNamePreferredFamilyName": STRINGS, "openTypeNamePreferredSubfamilyName": STYLES,
    "postscriptFontName": ["MyFont-Regular", "My(Font)-Bold", "Plain"],
}


# bit-list attributes: values from the UFO3-valid bit numbers; a list may name a bit more than once and in any order
BIT_ATTRS = {
    "openTypeHeadFlags": list(range(0, 15)),
    "openTypeOS2Type": [0, 1, 2, 3, 8, 9],
    "openTypeOS2Selection": [1, 2, 3, 4, 7, 8, 9],
    "openTypeOS2UnicodeRanges": list(range(0, 128)),
    "openTypeOS2CodePageRanges": [0, 1, 2, 3, 4, 5, 6, 7, 8, 16, 17, 18, 19, 20, 21, 29, 30, 31, 48, 49, 50, 51, 52, 53, 54, 55, 56, 57, 58, 59, 60, 61, 62, 63],
}


def _bitlist(rng, valid):
    if rng.random() < 0.15:
        return []
    bits = rng.sample(valid, rng.randint(1, min(5, len(valid))))
    if rng.random() < 0.4:
        bits += [rng.choice(bits) for _ in range(rng.randint(1, 2))]     # repeated bit numbers
    if rng.random() < 0.5:
        rng.shuffle(bits)
    return bits


def _bits_of(*words):
    out, base = [], 0
    for w in words:
        out += [base + k for k in range(32) if (w >> k) & 1]
        base += 32
    return out


def design_checks(tier):
    # InfoOverrides: several variable fonts recompiling their info from a shared base master, one after the other -- holds
    # when the temporary info object is a copy; the aliasing design (seeded C08-c / C16-g) must fail
    return [dict(module="FontInfoMC", cfg="FontInfoMC.cfg", workers=8, timeout=300),
            dict(module="InfoOverrides", cfg="InfoOverrides.cfg", workers=2, timeout=120),
            dict(module="InfoOverrides", cfg="InfoOverrides_alias.cfg", workers=2, timeout=120, expect_violation="OwnOverridesOnly")]


def cases(tier, seed):
    n = 200 if tier == "quick" else 3000
    rng = random.Random(seed * 314606869 + 16)
    out = []
    for k in range(n):
        info = {}
        pn = rng.choice([0.2, 0.5, 0.8])
        for a, vals in NUM_ATTRS.items():
            if rng.random() < pn:
                info[a] = rng.choice(vals)
        ps = rng.choice([0.2, 0.5, 0.8])
        for a, vals in STR_ATTRS.items():
            if rng.random() < ps:
                info[a] = rng.choice(vals)
        for a, valid in BIT_ATTRS.items():
            if rng.random() < 0.3:
                info[a] = _bitlist(rng, valid)
        pm = rng.choice([0.1, 0.3, 0.6])
        for a, vals in MORE_NUM.items():
            if rng.random() < pm:
                info[a] = rng.choice(vals)
        if rng.random() < 0.3:       # the three vertical metrics together: the font then gets a vhea table
            for a in ("openTypeVheaVertTypoAscender", "openTypeVheaVertTypoDescender", "openTypeVheaVertTypoLineGap"):
                info.setdefault(a, rng.choice(MORE_NUM[a]))
        for a, vals in MORE_STR.items():
            if rng.random() < pm:
                info[a] = rng.choice(vals)
        # keep the subset spec-valid
        if info.get("ascender", 1) < 0:
            info.pop("ascender")
        if info.get("descender", -1) > 0:
            info.pop("descender")
        case = {"cid": f"c16-{seed}-{k}", "lib": rng.choice(["ufoLib2", "defcon"]), "flavor": rng.choice(["tt", "cff"]), "info": info}
        if rng.random() < 0.25:
            # variable-font info overrides (designspace <variable-font> lib key public.fontInfo): explicit values -- zero and
            # empty ones included -- must win over what the default master contributes
            over = {}
            for a, vals in NUM_ATTRS.items():
                if a != "unitsPerEm" and rng.random() < 0.35:
                    over[a] = rng.choice(vals + [0])
            for a in ("openTypeHheaAscender", "openTypeOS2WinAscent", "openTypeOS2WinDescent"):
                if a in over and over[a] < 0:
                    over.pop(a)
            if over.get("ascender", 1) < 0:
                over.pop("ascender")
            if over.get("descender", -1) > 0:
                over.pop("descender")
            case["vfInfo"] = over
            case["flavor"] = rng.choice(["tt", "cff2"])
        out.append(case)
    return out


def _cps(s):
    return [ord(c) for c in s]


def execute(case):
    import ufo2ft

    glyphs = {"a": {"cs": [layout_gen.box()], "comps": [], "anchors": [], "w": 500 * 1024, "h": 0, "u": [0x61]}}
    if "vfInfo" in case:
        if int(case["cid"].rsplit("-", 1)[1]) % 2:
            return _execute_vfs(case, glyphs)
        return [_execute_vf(case, glyphs)]
    font = absfont.build_font({"glyphs": glyphs, "info": dict(case["info"])}, case["lib"])
    info = case["info"]
    rec = {"tid": case["cid"], "present": sorted(a for a in info if a not in BIT_ATTRS), "flavor": case["flavor"],
           "num": {a: absfont.to_scaled(int(v) if isinstance(v, bool) else v, 4) for a, v in info.items() if a in NUM_ATTRS or a in MORE_NUM},
           "str": {a: _cps(v) for a, v in info.items() if a in STR_ATTRS or a in MORE_STR},
           "bits": {a: list(v) for a, v in info.items() if a in BIT_ATTRS}}
    try:
        otf = (ufo2ft.compileTTF if case["flavor"] == "tt" else ufo2ft.compileOTF)(font, useProductionNames=False)
        data, f2 = project.save_reload(otf)
    except Exception as e:  # noqa
        rec["ret"] = {"err": type(e).__name__}
        rec["_msg"] = str(e)[:200]
        return [rec]
    hh, os2, hd, post = f2["hhea"], f2["OS/2"], f2["head"], f2["post"]
    num = {"unitsPerEm": hd.unitsPerEm, "hheaAscent": hh.ascent, "hheaDescent": hh.descent, "hheaLineGap": hh.lineGap,
           "caretSlopeRise": hh.caretSlopeRise, "caretSlopeRun": hh.caretSlopeRun, "caretOffset": hh.caretOffset,
           "sTypoAscender": os2.sTypoAscender, "sTypoDescender": os2.sTypoDescender, "sTypoLineGap": os2.sTypoLineGap,
           "usWinAscent": os2.usWinAscent, "usWinDescent": os2.usWinDescent, "sxHeight": os2.sxHeight, "sCapHeight": os2.sCapHeight,
           "underlineThickness": post.underlineThickness, "underlinePosition": post.underlinePosition}
    names = {}
    for nr in f2["name"].names:
        if nr.platformID == 3 and nr.langID == 0x409:
            names[str(nr.nameID)] = _cps(nr.toUnicode())
    ret = {"num": num, "names": names, "reloaded": True,
           "bits": {"headFlags": _bits_of(hd.flags), "fsType": _bits_of(os2.fsType), "fsSelection": _bits_of(os2.fsSelection),
                    "macStyle": _bits_of(hd.macStyle),
                    "unicodeRanges": _bits_of(os2.ulUnicodeRange1, os2.ulUnicodeRange2, os2.ulUnicodeRange3, os2.ulUnicodeRange4),
                    "codePageRanges": _bits_of(os2.ulCodePageRange1, os2.ulCodePageRange2)}}
    ret["more"] = {"usWeightClass": os2.usWeightClass, "usWidthClass": os2.usWidthClass, "lowestRecPPEM": hd.lowestRecPPEM,
                   "ySubscriptXSize": os2.ySubscriptXSize, "ySubscriptYSize": os2.ySubscriptYSize, "ySubscriptXOffset": os2.ySubscriptXOffset,
                   "ySubscriptYOffset": os2.ySubscriptYOffset, "ySuperscriptXSize": os2.ySuperscriptXSize, "ySuperscriptYSize": os2.ySuperscriptYSize,
                   "ySuperscriptXOffset": os2.ySuperscriptXOffset, "ySuperscriptYOffset": os2.ySuperscriptYOffset,
                   "yStrikeoutSize": os2.yStrikeoutSize, "yStrikeoutPosition": os2.yStrikeoutPosition,
                   "isFixedPitch": int(post.isFixedPitch), "fontRevision1000": int(round(hd.fontRevision * 1000))}
    ret["hasVhea"] = "vhea" in f2
    if "vhea" in f2:
        vh = f2["vhea"]
        ret["vhea"] = {"ascent": vh.ascent, "descent": vh.descent, "lineGap": vh.lineGap, "caretSlopeRise": vh.caretSlopeRise,
                       "caretSlopeRun": vh.caretSlopeRun, "caretOffset": vh.caretOffset}
    ret["vendor"] = _cps(os2.achVendID)
    if "CFF " in f2:
        cff = f2["CFF "].cff
        ret["cffName"] = _cps(cff.fontNames[0])
    rec["ret"] = ret
    return [rec]


def _execute_vf(case, glyphs):
    import copy

    import ufo2ft

    from .. import dsbuild

    base_info = dict(case["info"])
    base_info.setdefault("familyName", "VF Test")
    base_info.pop("postscriptFontName", None)
    for a in list(BIT_ATTRS) + list(MORE_NUM) + list(MORE_STR):
        base_info.pop(a, None)
    merged = dict(base_info)
    merged.update(case["vfInfo"])
    g2 = copy.deepcopy(glyphs)
    g2["a"]["w"] = 600 * 1024
    masters = [{"loc": {"Weight": 400}, "ufo": {"glyphs": glyphs, "info": dict(base_info, styleName=base_info.get("styleName", "Regular"))}, "name": "m0"},
               {"loc": {"Weight": 700}, "ufo": {"glyphs": g2, "info": dict(base_info, styleName=base_info.get("styleName", "Regular"))}, "name": "m1"}]
    fam = {"axes": [{"name": "Weight", "tag": "wght", "min": 400, "default": 400, "max": 700}], "masters": masters,
           "variableFonts": [{"name": "TestVF", "lib": {"public.fontInfo": dict(case["vfInfo"])}}]}
    ds = dsbuild.build_designspace(fam, case["lib"])
    info = merged
    rec = {"tid": case["cid"], "present": sorted(a for a in info if a in NUM_ATTRS or a in STR_ATTRS), "flavor": case["flavor"],
           "num": {a: absfont.to_scaled(v, 4) for a, v in info.items() if a in NUM_ATTRS},
           "str": {a: _cps(v) for a, v in info.items() if a in STR_ATTRS}, "_vf": True}
    try:
        fn = ufo2ft.compileVariableTTF if case["flavor"] == "tt" else ufo2ft.compileVariableCFF2
        otf = fn(ds, useProductionNames=False)
        data, f2 = project.save_reload(otf)
    except Exception as e:  # noqa
        rec["ret"] = {"err": type(e).__name__}
        rec["_msg"] = str(e)[:200]
        return rec
    hh, os2, hd, post = f2["hhea"], f2["OS/2"], f2["head"], f2["post"]
    num = {"unitsPerEm": hd.unitsPerEm, "hheaAscent": hh.ascent, "hheaDescent": hh.descent, "hheaLineGap": hh.lineGap,
           "caretSlopeRise": hh.caretSlopeRise, "caretSlopeRun": hh.caretSlopeRun, "caretOffset": hh.caretOffset,
           "sTypoAscender": os2.sTypoAscender, "sTypoDescender": os2.sTypoDescender, "sTypoLineGap": os2.sTypoLineGap,
           "usWinAscent": os2.usWinAscent, "usWinDescent": os2.usWinDescent, "sxHeight": os2.sxHeight, "sCapHeight": os2.sCapHeight,
           "underlineThickness": post.underlineThickness, "underlinePosition": post.underlinePosition}
    names = {}
    for nr in f2["name"].names:
        if nr.platformID == 3 and nr.langID == 0x409 and nr.nameID < 256:
            names[str(nr.nameID)] = _cps(nr.toUnicode())
    rec["ret"] = {"num": num, "names": names, "reloaded": True}
    return rec


def _execute_vfs(case, glyphs):
    """Two <variable-font>s cut from one designspace whose masters carry DIFFERENT font info: one keeps the document's
    default location, the other moves its default to the second master (userdefault) or pins the axis there; both have
    public.fontInfo overrides.  Each one's tables derive from ITS default master's info plus its overrides."""
    import copy

    import ufo2ft

    from .. import dsbuild

    base_info = dict(case["info"])
    base_info.setdefault("familyName", "VF Test")
    base_info.pop("postscriptFontName", None)
    for a in list(BIT_ATTRS) + list(MORE_NUM) + list(MORE_STR):
        base_info.pop(a, None)
    base_info.setdefault("styleName", "Regular")
    # explicit name records in other languages / on the Macintosh platform: they sit next to the English records the compiler
    # builds, for the same name IDs
    extra_recs = [{"nameID": 1, "platformID": 3, "encodingID": 1, "languageID": 0x407, "string": "Pr\u00fcfschrift"},
                  {"nameID": 9, "platformID": 3, "encodingID": 1, "languageID": 0x407, "string": "Entwerferin"},
                  {"nameID": 4, "platformID": 1, "encodingID": 0, "languageID": 0, "string": "Mac Full Name"}]
    base_info["openTypeNameRecords"] = [dict(r) for r in extra_recs]
    bold_info = dict(base_info)
    # the second master sets a few attributes of its own (numbers shifted, names replaced)
    bold_info["styleName"] = "Bold" if base_info["styleName"] != "Bold" else "Heavy"
    bold_info["ascender"] = (base_info.get("ascender") or 800) + 13
    bold_info["xHeight"] = (base_info.get("xHeight") or 500) + 7
    bold_info["openTypeOS2TypoLineGap"] = (base_info.get("openTypeOS2TypoLineGap") or 0) + 11
    bold_info["postscriptUnderlineThickness"] = (base_info.get("postscriptUnderlineThickness") or 50) + 4
    bold_info["openTypeNamePreferredFamilyName"] = "Second Master Family"
    g2 = copy.deepcopy(glyphs)
    g2["a"]["w"] = 600 * 1024
    masters = [{"loc": {"Weight": 400}, "ufo": {"glyphs": glyphs, "info": dict(base_info)}, "name": "m0"},
               {"loc": {"Weight": 700}, "ufo": {"glyphs": g2, "info": dict(bold_info)}, "name": "m1"}]
    over = dict(case["vfInfo"])
    pinned = False        # (pinning the only axis leaves no axis: not a variable font)
    # two more variable fonts share KeepVF's default master but override only every second key each (disjoint halves): what one
    # variable font overrides must not show in another
    keys = sorted(over)
    halfA = {k_: over[k_] for k_ in keys[0::2]}
    halfB = {k_: over[k_] for k_ in keys[1::2]}
    vfs = [{"name": "KeepVF", "lib": {"public.fontInfo": dict(over)}},
           {"name": "ShiftVF", "lib": {"public.fontInfo": dict(over)}, "subsets": {"Weight": {"value": 700} if pinned else {"default": 700}}},
           {"name": "HalfAVF", "lib": {"public.fontInfo": dict(halfA)}}, {"name": "HalfBVF", "lib": {"public.fontInfo": dict(halfB)}}]
    if len(over) % 3 == 0:
        vfs.reverse()
    overs = {"KeepVF": over, "ShiftVF": over, "HalfAVF": halfA, "HalfBVF": halfB}
    fam = {"axes": [{"name": "Weight", "tag": "wght", "min": 400, "default": 400, "max": 700}], "masters": masters, "variableFonts": vfs}
    ds = dsbuild.build_designspace(fam, case["lib"])
    recs = []
    try:
        fn = ufo2ft.compileVariableTTFs if case["flavor"] == "tt" else ufo2ft.compileVariableCFF2s
        outs = fn(ds, useProductionNames=False)
        err = None
    except Exception as e:  # noqa
        outs, err = {}, e
    for vfname, minfo in (("KeepVF", base_info), ("ShiftVF", bold_info), ("HalfAVF", base_info), ("HalfBVF", base_info)):
        if not overs[vfname]:
            continue      # (an empty override dict: nothing of the variable font's own to check)
        info = dict(minfo)
        info.update(overs[vfname])
        rec = {"tid": f"{case['cid']}/{vfname}", "present": sorted(a for a in info if a in NUM_ATTRS or a in STR_ATTRS), "flavor": case["flavor"],
               "num": {a: absfont.to_scaled(v, 4) for a, v in info.items() if a in NUM_ATTRS},
               "str": {a: _cps(v) for a, v in info.items() if a in STR_ATTRS}, "_vf": True}
        if err is not None or vfname not in outs:
            rec["ret"] = {"err": type(err).__name__ if err is not None else "MissingVF"}
            rec["_msg"] = str(err)[:200]
            recs.append(rec)
            continue
        data, f2 = project.save_reload(outs[vfname])
        hh, os2, hd, post = f2["hhea"], f2["OS/2"], f2["head"], f2["post"]
        num = {"unitsPerEm": hd.unitsPerEm, "hheaAscent": hh.ascent, "hheaDescent": hh.descent, "hheaLineGap": hh.lineGap,
               "caretSlopeRise": hh.caretSlopeRise, "caretSlopeRun": hh.caretSlopeRun, "caretOffset": hh.caretOffset,
               "sTypoAscender": os2.sTypoAscender, "sTypoDescender": os2.sTypoDescender, "sTypoLineGap": os2.sTypoLineGap,
               "usWinAscent": os2.usWinAscent, "usWinDescent": os2.usWinDescent, "sxHeight": os2.sxHeight, "sCapHeight": os2.sCapHeight,
               "underlineThickness": post.underlineThickness, "underlinePosition": post.underlinePosition}
        names = {}
        for nr in f2["name"].names:
            if nr.platformID == 3 and nr.langID == 0x409 and nr.nameID < 256:
                names[str(nr.nameID)] = _cps(nr.toUnicode())
        rec["ret"] = {"num": num, "names": names, "reloaded": True}
        rec["expNameRecs"] = [[r["nameID"], r["platformID"], r["encodingID"], r["languageID"], _cps(r["string"])] for r in extra_recs]
        rec["ret"]["nameRecs"] = [[nr.nameID, nr.platformID, nr.platEncID, nr.langID, _cps(nr.toUnicode())] for nr in f2["name"].names]
        recs.append(rec)
    return recs


def nontrivial(rec):
    return 0 < len(rec["present"]) < len(NUM_ATTRS) + len(STR_ATTRS) + len(MORE_NUM) + len(MORE_STR)


def classify(rec, pfail, mfail, extra, rep):
    if pfail != "none":
        rep.notes.setdefault("witnesses", []).append({"tid": rec["tid"], "clause": pfail, "bad": extra[0] if extra else "", "msg": rec.get("_msg", "")})
    return None
