"""C16 -- any valid font info compiles; explicit values win, absent ones fall back."""
import random

from .. import absfont, layout_gen, project

PROPERTY = "C16"
TRACE_MODULE = "FontInfoTrace"
TRACE_CFG = "FontInfoTrace.cfg"
RULE = ("random subsets of the metric cluster (unitsPerEm, ascender, descender, xHeight, capHeight, hhea / typo / win metrics, "
        "caret slope, underline) with integral / fractional (.5, .25) / negative spec-valid values, of the bit-list attributes "
        "(head flags, OS/2 selection / type / Unicode ranges / code page ranges: valid bit numbers in any order, possibly repeated "
        "or empty), and of the naming cluster "
        "(family, style, style-map, preferred, PostScript, version) with strings drawn from ASCII, Latin-1, Latin Extended, "
        "Greek, CJK, emoji and PostScript-forbidden characters x {TTF, OTF}; reloaded name / OS/2 / hhea / head / post fields "
        "are compared with the TLA+ fallback formulas; non-trivial = at least one attribute absent and one present; distinct by "
        "digest of the info subset")
ASSUMPTIONS = ["italicAngle = 0 in the exact domain (caret slope fallbacks use tan otherwise)",
               "unitsPerEm in {1000, 2048, 500, 1024.5? no: integral}: upm * 0.05 etc. are exact for the generated values",
               "non-ASCII PostScript names: only the character-set post-condition is demanded (NFKD is environment)"]

NUM_ATTRS = {
    "unitsPerEm": [1000, 2048, 500, 1000],
    "ascender": [800, 750.5, 1900, 0, 812.25],
    "descender": [-200, -250.5, 0, -187.75],
    "xHeight": [500, 480.5],
    "capHeight": [700, 712.5],
    "openTypeHheaAscender": [1000, 951],
    "openTypeHheaDescender": [-300, -251],
    "openTypeHheaLineGap": [0, 90, 33],
    "openTypeHheaCaretSlopeRise": [1000, 1],
    "openTypeHheaCaretSlopeRun": [0, 176],
    "openTypeHheaCaretOffset": [0, 12],
    "openTypeOS2TypoAscender": [800, 701],
    "openTypeOS2TypoDescender": [-200, -301],
    "openTypeOS2TypoLineGap": [0, 200, 91],
    "openTypeOS2WinAscent": [950, 1001],
    "openTypeOS2WinDescent": [250, 301],
    "postscriptUnderlineThickness": [50, 42.5],
    "postscriptUnderlinePosition": [-75, -100.5],
}
STRINGS = ["Test Family", "Ābc Sans", "Grüße", "Ελληνικά", "明朝", "Emoji 😀 Font", "Paren (Test) [x]", "Slash/Per%cent", "  Padded  ",
           "A", "New-Font", "Ünï Çödé"]
STYLES = ["Regular", "Bold", "Italic", "Bold Italic", "bold", "Light", "Condensed Bold", "Regular ", "SemiBold Italic", "Ēxtra"]
STR_ATTRS = {
    "familyName": STRINGS, "styleName": STYLES, "styleMapFamilyName": STRINGS, "styleMapStyleName": ["regular", "bold", "italic", "bold italic"],
    "openTypeNamePreferredFamilyName": STRINGS, "openTypeNamePreferredSubfamilyName": STYLES,
    "postscriptFontName": ["MyFont-Regular", "My(Font)-Bold", "Plain"],
}


# bit-list attributes: values from the UFO3-valid bit numbers; a list may name a bit more than once and in any order
BIT_ATTRS = {
    "openTypeHeadFlags": list(range(0, 15)),
    "openTypeOS2Type": [0, 1, 2, 3, 8, 9],
    "openTypeOS2Selection": [1, 2, 3, 4, 7, 8, 9],
    "openTypeOS2UnicodeRanges": list(range(0, 128)),
    "openTypeOS2CodePageRanges": [0, 1, 2, 3, 4, 5, 6, 7, 8, 16, 17, 18, 19, 20, 21, 29, 30, 31, 48, 49, 50, 51, 52, 53, 54, 55, 56, 57, 58, 59, 60, 61, 62, 63],
}


def _bitlist(rng, valid):
    if rng.random() < 0.15:
        return []
    bits = rng.sample(valid, rng.randint(1, min(5, len(valid))))
    if rng.random() < 0.4:
        bits += [rng.choice(bits) for _ in range(rng.randint(1, 2))]     # repeated bit numbers
    if rng.random() < 0.5:
        rng.shuffle(bits)
    return bits


def _bits_of(*words):
    out, base = [], 0
    for w in words:
        out += [base + k for k in range(32) if (w >> k) & 1]
        base += 32
    return out


def design_checks(tier):
    return [dict(module="FontInfoMC", cfg="FontInfoMC.cfg", workers=8, timeout=300)]


def cases(tier, seed):
    n = 200 if tier == "quick" else 3000
    rng = random.Random(seed * 314606869 + 16)
    out = []
    for k in range(n):
        info = {}
        pn = rng.choice([0.2, 0.5, 0.8])
        for a, vals in NUM_ATTRS.items():
            if rng.random() < pn:
                info[a] = rng.choice(vals)
        ps = rng.choice([0.2, 0.5, 0.8])
        for a, vals in STR_ATTRS.items():
            if rng.random() < ps:
                info[a] = rng.choice(vals)
        for a, valid in BIT_ATTRS.items():
            if rng.random() < 0.3:
                info[a] = _bitlist(rng, valid)
        # keep the subset spec-valid
        if info.get("ascender", 1) < 0:
            info.pop("ascender")
        if info.get("descender", -1) > 0:
            info.pop("descender")
        case = {"cid": f"c16-{seed}-{k}", "lib": rng.choice(["ufoLib2", "defcon"]), "flavor": rng.choice(["tt", "cff"]), "info": info}
        if rng.random() < 0.25:
            # variable-font info overrides (designspace <variable-font> lib key public.fontInfo): explicit values -- zero and
            # empty ones included -- must win over what the default master contributes
            over = {}
            for a, vals in NUM_ATTRS.items():
                if a != "unitsPerEm" and rng.random() < 0.35:
                    over[a] = rng.choice(vals + [0])
            for a in ("openTypeHheaAscender", "openTypeOS2WinAscent", "openTypeOS2WinDescent"):
                if a in over and over[a] < 0:
                    over.pop(a)
            if over.get("ascender", 1) < 0:
                over.pop("ascender")
            if over.get("descender", -1) > 0:
                over.pop("descender")
            case["vfInfo"] = over
            case["flavor"] = rng.choice(["tt", "cff2"])
        out.append(case)
    return out


def _cps(s):
    return [ord(c) for c in s]


def execute(case):
    import ufo2ft

    glyphs = {"a": {"cs": [layout_gen.box()], "comps": [], "anchors": [], "w": 500 * 1024, "h": 0, "u": [0x61]}}
    if "vfInfo" in case:
        return [_execute_vf(case, glyphs)]
    font = absfont.build_font({"glyphs": glyphs, "info": dict(case["info"])}, case["lib"])
    info = case["info"]
    rec = {"tid": case["cid"], "present": sorted(a for a in info if a not in BIT_ATTRS), "flavor": case["flavor"],
           "num": {a: absfont.to_scaled(v, 4) for a, v in info.items() if a in NUM_ATTRS},
           "str": {a: _cps(v) for a, v in info.items() if a in STR_ATTRS},
           "bits": {a: list(v) for a, v in info.items() if a in BIT_ATTRS}}
    try:
        otf = (ufo2ft.compileTTF if case["flavor"] == "tt" else ufo2ft.compileOTF)(font, useProductionNames=False)
        data, f2 = project.save_reload(otf)
    except Exception as e:  # noqa
        rec["ret"] = {"err": type(e).__name__}
        rec["_msg"] = str(e)[:200]
        return [rec]
    hh, os2, hd, post = f2["hhea"], f2["OS/2"], f2["head"], f2["post"]
    num = {"unitsPerEm": hd.unitsPerEm, "hheaAscent": hh.ascent, "hheaDescent": hh.descent, "hheaLineGap": hh.lineGap,
           "caretSlopeRise": hh.caretSlopeRise, "caretSlopeRun": hh.caretSlopeRun, "caretOffset": hh.caretOffset,
           "sTypoAscender": os2.sTypoAscender, "sTypoDescender": os2.sTypoDescender, "sTypoLineGap": os2.sTypoLineGap,
           "usWinAscent": os2.usWinAscent, "usWinDescent": os2.usWinDescent, "sxHeight": os2.sxHeight, "sCapHeight": os2.sCapHeight,
           "underlineThickness": post.underlineThickness, "underlinePosition": post.underlinePosition}
    names = {}
    for nr in f2["name"].names:
        if nr.platformID == 3 and nr.langID == 0x409:
            names[str(nr.nameID)] = _cps(nr.toUnicode())
    ret = {"num": num, "names": names, "reloaded": True,
           "bits": {"headFlags": _bits_of(hd.flags), "fsType": _bits_of(os2.fsType), "fsSelection": _bits_of(os2.fsSelection),
                    "macStyle": _bits_of(hd.macStyle),
                    "unicodeRanges": _bits_of(os2.ulUnicodeRange1, os2.ulUnicodeRange2, os2.ulUnicodeRange3, os2.ulUnicodeRange4),
                    "codePageRanges": _bits_of(os2.ulCodePageRange1, os2.ulCodePageRange2)}}
    if "CFF " in f2:
        cff = f2["CFF "].cff
        ret["cffName"] = _cps(cff.fontNames[0])
    rec["ret"] = ret
    return [rec]


def _execute_vf(case, glyphs):
    import copy

    import ufo2ft

    from .. import dsbuild

    base_info = dict(case["info"])
    base_info.setdefault("familyName", "VF Test")
    base_info.pop("postscriptFontName", None)
    for a in BIT_ATTRS:
        base_info.pop(a, None)
    merged = dict(base_info)
    merged.update(case["vfInfo"])
    g2 = copy.deepcopy(glyphs)
    g2["a"]["w"] = 600 * 1024
    masters = [{"loc": {"Weight": 400}, "ufo": {"glyphs": glyphs, "info": dict(base_info, styleName=base_info.get("styleName", "Regular"))}, "name": "m0"},
               {"loc": {"Weight": 700}, "ufo": {"glyphs": g2, "info": dict(base_info, styleName=base_info.get("styleName", "Regular"))}, "name": "m1"}]
    fam = {"axes": [{"name": "Weight", "tag": "wght", "min": 400, "default": 400, "max": 700}], "masters": masters,
           "variableFonts": [{"name": "TestVF", "lib": {"public.fontInfo": dict(case["vfInfo"])}}]}
    ds = dsbuild.build_designspace(fam, case["lib"])
    info = merged
    rec = {"tid": case["cid"], "present": sorted(a for a in info if a in NUM_ATTRS or a in STR_ATTRS), "flavor": case["flavor"],
           "num": {a: absfont.to_scaled(v, 4) for a, v in info.items() if a in NUM_ATTRS},
           "str": {a: _cps(v) for a, v in info.items() if a in STR_ATTRS}, "_vf": True}
    try:
        fn = ufo2ft.compileVariableTTF if case["flavor"] == "tt" else ufo2ft.compileVariableCFF2
        otf = fn(ds, useProductionNames=False)
        data, f2 = project.save_reload(otf)
    except Exception as e:  # noqa
        rec["ret"] = {"err": type(e).__name__}
        rec["_msg"] = str(e)[:200]
        return rec
    hh, os2, hd, post = f2["hhea"], f2["OS/2"], f2["head"], f2["post"]
    num = {"unitsPerEm": hd.unitsPerEm, "hheaAscent": hh.ascent, "hheaDescent": hh.descent, "hheaLineGap": hh.lineGap,
           "caretSlopeRise": hh.caretSlopeRise, "caretSlopeRun": hh.caretSlopeRun, "caretOffset": hh.caretOffset,
           "sTypoAscender": os2.sTypoAscender, "sTypoDescender": os2.sTypoDescender, "sTypoLineGap": os2.sTypoLineGap,
           "usWinAscent": os2.usWinAscent, "usWinDescent": os2.usWinDescent, "sxHeight": os2.sxHeight, "sCapHeight": os2.sCapHeight,
           "underlineThickness": post.underlineThickness, "underlinePosition": post.underlinePosition}
    names = {}
    for nr in f2["name"].names:
        if nr.platformID == 3 and nr.langID == 0x409 and nr.nameID < 256:
            names[str(nr.nameID)] = _cps(nr.toUnicode())
    rec["ret"] = {"num": num, "names": names, "reloaded": True}
    return rec


def nontrivial(rec):
    return 0 < len(rec["present"]) < len(NUM_ATTRS) + len(STR_ATTRS)


def classify(rec, pfail, mfail, extra, rep):
    if pfail != "none":
        rep.notes.setdefault("witnesses", []).append({"tid": rec["tid"], "clause": pfail, "bad": extra[0] if extra else "", "msg": rec.get("_msg", "")})
    return None
