"""C18 -- GDEF classes, ligature carets and cursive anchors mirror the UFO data."""
import random

from .. import layout_exec, layout_gen

PROPERTY = "C18"
TRACE_MODULE = "GdefCursTrace"
TRACE_CFG = "GdefCursTrace.cfg"
RULE = ("random Latin / Arabic fonts x category maps (all five values, invalid values, glyphs not exported or unknown) x caret_ / "
        "vcaret_ anchor sets (fractional, duplicate coordinates) x entry/exit anchors (one-sided, suffixed .LTR/.RTL/.alt pairs, "
        "mixed-direction repertoires, alternates reached through GSUB) x optional user GDEF block x skipExportGlyphs; default "
        "feature writers, or (one case in four) one list of writer instances handed to two or three successive compiles of "
        "different fonts; plus two-master designspaces with a substitution rule whose replacement glyph carries cursive anchors "
        "(compileInterpolatableTTFsFromDS / compileVariableTTF with merged layout), and variable fonts whose cursive / caret "
        "anchors differ between two full masters, with a sparse layer master in between that lacks the anchored glyphs, read "
        "back at all three locations; non-trivial = the font has categories, carets or cursive anchors; distinct by source digest")
ASSUMPTIONS = ["without any assigned category feaLib infers the glyph classes from the positioning rules (environment): no clause then"]


def design_checks(tier):
    return [dict(module="CursMC", cfg="CursMC.cfg", workers=4, timeout=300),
            dict(module="FeaPipeline", cfg="FeaPipeline.cfg", workers=2, timeout=120),
            dict(module="FeaPipeline", cfg="FeaPipeline_ltr.cfg", workers=2, timeout=120),
            dict(module="FeaPipeline", cfg="FeaPipeline_shared.cfg", workers=2, timeout=120, expect_violation="VariableSurvives")]


def cases(tier, seed):
    n = 150 if tier == "quick" else 2000
    rng = random.Random(seed * 236887691 + 18)
    out = []
    for k in range(n):
        c = layout_gen.gdefcurs_font(rng)
        c.update({"cid": f"c18-{seed}-{k}", "lib": rng.choice(["ufoLib2", "defcon"]), "writers": "default"})
        if k % 4 == 1:
            c["via"] = rng.choice(["vf", "vf-merge", "interp"])
        if k % 4 == 3:
            # the same writer objects serve several fonts in a row (as they do for the masters of a family)
            c["writers"] = ["kern", "mark", "gdef", "curs"]
            c["then"] = []
            for j in range(rng.randint(1, 2)):
                d = layout_gen.gdefcurs_font(rng)
                d.update({"cid": f"c18-{seed}-{k}+{j + 1}", "lib": c["lib"], "writers": c["writers"]})
                c["then"].append(d)
        out.append(c)
    # variable anchors: two full masters whose cursive / caret anchors differ, plus a sparse layer master in between that does
    # NOT contain the anchored glyphs: at its location the anchors are the blend of the full masters
    for k in range(10 if tier == "quick" else 120):
        c = layout_gen.gdefcurs_font(rng)
        c.pop("kwargs", None)
        c.update({"cid": f"c18-{seed}-sv{k}", "lib": rng.choice(["ufoLib2", "defcon"]), "writers": "default", "sparseVar": True,
                  "delta": [rng.randint(-20, 20), rng.randint(-20, 20)], "flavor": rng.choice(["tt", "cff2"])})
        out.append(c)
    # designspace paths: substitution RULES make a glyph reachable from a character without any GSUB rule in the feature file
    for k in range(12 if tier == "quick" else 150):
        c = layout_gen.gdefcurs_font(rng)
        names = c["ufo"]["glyphNames"]
        P = 1024
        if "x.alt" not in names:
            names.append("x.alt")
            c["ufo"]["glyphs"]["x.alt"] = {"cs": [layout_gen.box()], "comps": [], "anchors": [], "w": 500 * P, "h": 0, "u": []}
        # the replacement glyph carries cursive anchors and is not mentioned by the feature file
        c["ufo"]["glyphs"]["x.alt"]["anchors"] = [{"n": "entry", "x": 300 * P, "y": 0}, {"n": "exit", "x": 0, "y": 20 * P}]
        import re as _re

        # no hand-written GDEF and no GSUB rule mentioning the replacement glyph in these cases
        fea_ = _re.sub(r"table GDEF \{.*?\} GDEF;", "", c["ufo"]["fea"], flags=_re.S)
        c["ufo"]["fea"] = "\n".join(l for l in fea_.split("\n") if "x.alt" not in l)
        c["userClasses"] = None
        src = rng.choice([n for n in ("a", "b", "beh-ar", "period") if n in names] or [names[0]])
        c.pop("kwargs", None)
        c.update({"cid": f"c18-{seed}-ds{k}", "lib": rng.choice(["ufoLib2", "defcon"]), "writers": "default", "ds": True,
                  "rule": [src, "x.alt"], "fn": rng.choice(["interp", "interp", "var-merge", "var-features"])})
        out.append(c)
    # designspace paths where the default source is NOT listed first and the first-listed master declares other glyph
    # categories (or none): GDEF classes, and everything the writers derive from them, mirror the DEFAULT source
    rng3 = random.Random(seed * 236887691 + 180019)
    made = 0
    for _try in range(300):
        if made >= (10 if tier == "quick" else 120):
            break
        c = layout_gen.gdefcurs_font(rng3)
        cats = (c["ufo"].get("lib") or {}).get("public.openTypeCategories")
        if not cats or c.get("userClasses"):
            continue
        names = c["ufo"]["glyphNames"]
        other = None if made % 3 == 0 else {n_: ("mark" if cats.get(n_) == "base" else "base") for n_ in names if n_ in cats}
        c.update({"cid": f"c18-{seed}-of{made}", "lib": rng3.choice(["ufoLib2", "defcon"]), "writers": "default",
                  "via": ["vf", "vf", "vf", "interp"][made % 4], "otherFirst": True, "otherCats": other})
        out.append(c)
        made += 1
    # the user's own GDEF block defines the ligature carets by CONTOUR POINT INDEX (or by position) while the ligature also
    # carries caret anchors: the writer adds nothing to them
    rng4 = random.Random(seed * 236887691 + 180020)
    made = 0
    for _try in range(300):
        if made >= (8 if tier == "quick" else 80):
            break
        c = layout_gen.gdefcurs_font(rng4)
        if "f_i" not in c["ufo"]["glyphNames"] or c.get("userClasses") or c.get("kwargs", {}).get("skipExportGlyphs"):
            continue
        g = c["ufo"]["glyphs"]["f_i"]
        if not any(a["n"].startswith("caret_") for a in g["anchors"]):
            g["anchors"].append({"n": "caret_1", "x": 300 * 1024, "y": 0})
        by_index = made % 2 == 0
        c["ufo"]["fea"] = c["ufo"]["fea"] + "\ntable GDEF {\n " + ("LigatureCaretByIndex f_i 2;" if by_index else "LigatureCaretByPos f_i 123;") + "\n} GDEF;"
        c["userCarets"] = {"f_i": [[2, 2]] if by_index else [[1, 123]]}
        c.update({"cid": f"c18-{seed}-uc{made}", "lib": rng4.choice(["ufoLib2", "defcon"]), "writers": "default"})
        out.append(c)
        made += 1
    # a glyph with cursive anchors that is reachable from a letter ONLY through a substitution whose input or context also
    # holds a direction-neutral glyph (contextual / ligature rules): it takes the letter's direction
    rng2 = random.Random(seed * 236887691 + 180018)
    import re as _re

    for k in range(12 if tier == "quick" else 150):
        c = layout_gen.gdefcurs_font(rng2)
        names = c["ufo"]["glyphNames"]
        P = 1024
        letter = "a" if k % 3 != 2 else "beh-ar"
        for n_, cp in (("x.alt", None), ("period", 0x2E), (letter, 0x61 if letter == "a" else 0x628)):
            if n_ not in names:
                names.append(n_)
                c["ufo"]["glyphs"][n_] = {"cs": [layout_gen.box()], "comps": [], "anchors": [], "w": 500 * P, "h": 0, "u": [cp] if cp else []}
        if "order" in c["ufo"]:
            c["ufo"]["order"] = list(names)
        c["ufo"]["glyphs"]["x.alt"]["anchors"] = [{"n": "entry", "x": 300 * P, "y": 0}, {"n": "exit", "x": 0, "y": 20 * P}]
        fea_ = _re.sub(r"table GDEF \{.*?\} GDEF;", "", c["ufo"]["fea"], flags=_re.S)
        fea_ = "\n".join(l for l in fea_.split("\n") if "x.alt" not in l)
        rule = [f"sub period {letter}' by x.alt;", f"sub {letter} period by x.alt;", f"sub {letter}' period by x.alt;"][k % 3]
        c["ufo"]["fea"] = fea_ + "\nfeature calt {\n " + rule + "\n} calt;"
        c["userClasses"] = None
        if c.get("kwargs", {}).get("skipExportGlyphs"):
            c["kwargs"]["skipExportGlyphs"] = [n_ for n_ in c["kwargs"]["skipExportGlyphs"] if n_ not in ("x.alt", "period", letter)]
        c.update({"cid": f"c18-{seed}-cx{k}", "lib": rng2.choice(["ufoLib2", "defcon"]), "writers": "default"})
        out.append(c)
    return out


def _execute_ds(case):
    import copy

    import ufo2ft

    from .. import dsbuild, project

    u0 = case["ufo"]
    u1 = copy.deepcopy(u0)
    for g in u1["glyphs"].values():
        if g["w"]:
            g["w"] += 20 * 1024
    u1["info"] = dict(u1["info"], styleName="Bold")
    fam = {"axes": [{"name": "Weight", "tag": "wght", "min": 0, "default": 0, "max": 8}],
           "masters": [{"loc": {"Weight": 0}, "ufo": u0, "name": "M0"}, {"loc": {"Weight": 8}, "ufo": u1, "name": "M1"}],
           "rules": [{"name": "r1", "conditionSets": [[{"name": "Weight", "minimum": 4, "maximum": 8}]], "subs": [list(case["rule"])]}]}
    ds = dsbuild.build_designspace(fam, case["lib"])
    extra = {case["rule"][0]: {case["rule"][1]}}
    recs = []
    if case["fn"] == "interp":
        outs = [s.font for s in ufo2ft.compileInterpolatableTTFsFromDS(ds, useProductionNames=False).sources]
    else:
        outs = [ufo2ft.compileVariableTTF(ds, useProductionNames=False, variableFeatures=case["fn"] == "var-features")]
    for k, otf in enumerate(outs):
        data, f2 = project.save_reload(otf)
        rec = layout_exec.gdefcurs_record(case, f2, f"{case['cid']}-{k}", extra)
        recs.append(rec)
    return recs


def _shift_anchors(ufo, dx, dy):
    import copy

    u = copy.deepcopy(ufo)
    for g in u["glyphs"].values():
        for a in g["anchors"]:
            a["x"] += dx * 1024
            a["y"] += dy * 1024
    return u


def _execute_sparse_var(case):
    import io

    import ufo2ft
    from fontTools.ttLib import TTFont
    from fontTools.varLib import instancer

    from .. import dsbuild, project

    dx, dy = case["delta"]
    u0 = case["ufo"]
    umid = _shift_anchors(u0, dx, dy)
    u1 = _shift_anchors(u0, 2 * dx, 2 * dy)
    u1["info"] = dict(u1["info"], styleName="Bold")
    u0 = dict(u0)
    # the sparse layer holds one glyph without anchors; every anchored glyph is missing from it
    plain = [n for n, g in u0["glyphs"].items() if not g["anchors"]]
    if not plain:
        return []
    u0["layers"] = {"sparse": {plain[0]: dict(u0["glyphs"][plain[0]], anchors=[])}}
    fam = {"axes": [{"name": "Weight", "tag": "wght", "min": 0, "default": 0, "max": 8}],
           "masters": [{"loc": {"Weight": 0}, "ufo": u0, "name": "M0"}, {"loc": {"Weight": 4}, "layer": "sparse", "of": 0, "name": "Sparse"},
                       {"loc": {"Weight": 8}, "ufo": u1, "name": "M1"}]}
    ds = dsbuild.build_designspace(fam, case["lib"])
    fn = ufo2ft.compileVariableTTF if case["flavor"] == "tt" else ufo2ft.compileVariableCFF2
    vf = fn(ds, useProductionNames=False)
    data, _ = project.save_reload(vf)
    recs = []
    for loc, u in ((0, case["ufo"]), (4, umid), (8, u1)):
        inst = instancer.instantiateVariableFont(TTFont(io.BytesIO(data)), {"wght": loc}, inplace=False)
        _, f2 = project.save_reload(inst)
        rec = layout_exec.gdefcurs_record(dict(case, ufo=u), f2, f"{case['cid']}@{loc}")
        rec["orderFree"] = loc != 0
        recs.append(rec)
    return recs


def execute(case):
    if case.get("sparseVar"):
        return _execute_sparse_var(case)
    if case.get("ds"):
        return _execute_ds(case)
    if case.get("then"):
        ws = layout_exec._writers(case)
        recs = []
        for c in [case] + case["then"]:
            f2, fea, data = layout_exec.compile_layout(c, writer_objs=ws)
            rec = layout_exec.gdefcurs_record(c, f2, c["cid"])
            rec["_fea"] = fea
            recs.append(rec)
        return recs
    f2, fea, data = layout_exec.compile_layout(case, via=case.get("via", "static"))
    rec = layout_exec.gdefcurs_record(case, f2, case["cid"])
    rec["_fea"] = fea
    return [rec]


def nontrivial(rec):
    return any(g["cat"] or g["carets"] or g["curs"] for g in rec["glyphs"])
