"""C18 -- GDEF classes, ligature carets and cursive anchors mirror the UFO data."""
import random

from .. import layout_exec, layout_gen

PROPERTY = "C18"
TRACE_MODULE = "GdefCursTrace"
TRACE_CFG = "GdefCursTrace.cfg"
RULE = ("random Latin / Arabic fonts x category maps (all five values, invalid values, glyphs not exported or unknown) x caret_ / "
        "vcaret_ anchor sets (fractional, duplicate coordinates) x entry/exit anchors (one-sided, suffixed .LTR/.RTL/.alt pairs, "
        "mixed-direction repertoires, alternates reached through GSUB) x optional user GDEF block x skipExportGlyphs; default "
        "feature writers, or (one case in four) one list of writer instances handed to two or three successive compiles of "
        "different fonts; non-trivial = the font has categories, carets or cursive anchors; distinct by source digest")
ASSUMPTIONS = ["without any assigned category feaLib infers the glyph classes from the positioning rules (environment): no clause then"]


def design_checks(tier):
    return [dict(module="CursMC", cfg="CursMC.cfg", workers=4, timeout=300)]


def cases(tier, seed):
    n = 150 if tier == "quick" else 2000
    rng = random.Random(seed * 236887691 + 18)
    out = []
    for k in range(n):
        c = layout_gen.gdefcurs_font(rng)
        c.update({"cid": f"c18-{seed}-{k}", "lib": rng.choice(["ufoLib2", "defcon"]), "writers": "default"})
        if k % 4 == 3:
            # the same writer objects serve several fonts in a row (as they do for the masters of a family)
            c["writers"] = ["kern", "mark", "gdef", "curs"]
            c["then"] = []
            for j in range(rng.randint(1, 2)):
                d = layout_gen.gdefcurs_font(rng)
                d.update({"cid": f"c18-{seed}-{k}+{j + 1}", "lib": c["lib"], "writers": c["writers"]})
                c["then"].append(d)
        out.append(c)
    return out


def execute(case):
    if case.get("then"):
        ws = layout_exec._writers(case)
        recs = []
        for c in [case] + case["then"]:
            f2, fea, data = layout_exec.compile_layout(c, writer_objs=ws)
            rec = layout_exec.gdefcurs_record(c, f2, c["cid"])
            rec["_fea"] = fea
            recs.append(rec)
        return recs
    f2, fea, data = layout_exec.compile_layout(case)
    rec = layout_exec.gdefcurs_record(case, f2, case["cid"])
    rec["_fea"] = fea
    return [rec]


def nontrivial(rec):
    return any(g["cat"] or g["carets"] or g["curs"] for g in rec["glyphs"])
