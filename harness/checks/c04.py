"""C04 -- compiled fonts are serialisable and their derived fields are consistent."""
import random

from .. import font_exec, gen
from . import c02
from .c03 import _square

PROPERTY = "C04"
TRACE_MODULE = "FontTrace"
TRACE_CFG = "FontTrace.cfg"
RULE = ("(every fourth case enters through compileVariableTTF or the first master of compileInterpolatable*FromDS, with the UFO as default master of a two-master family) random UFOs: empty glyphs, glyphs with only components (TrueType), zero / equal / descending / random advance "
        "sequences, box-less glyphs first or last, vertical metrics on or off with per-glyph vertical origins, BMP and "
        "supplementary code points x {TTF, OTF}; the reloaded hhea/hmtx/vhea/vmtx/head/maxp/OS/2/post/VORG are projected and "
        "every derived field is recomputed by the TLA+ operators; the font is saved, reloaded and re-saved; non-trivial = "
        "at least two different advances or a box-less glyph; distinct by digest of the source")
ASSUMPTIONS = ["glyph bounding boxes are recomputed by the harness from the stored outlines (point extrema; BoundsPen for CFF)",
               "VORG: only decode-equivalence is demanded, not optimality of the default"]


def design_checks(tier):
    return [dict(module="MetricsMC", cfg="MetricsMC.cfg", workers=4, timeout=300)]


def cases(tier, seed):
    n = 200 if tier == "quick" else 4000
    rng = random.Random(seed * 122949829 + 4)
    out = []
    P = 1024
    for k in range(n):
        flavor = rng.choice(["tt", "cff"])
        cnt = rng.randint(1, 8)
        names = rng.sample(gen.NAMES, cnt)
        mode = rng.choice(["equal", "desc", "zeros", "random", "tail-equal", "random"])
        advs = []
        for i in range(cnt):
            if mode == "equal":
                advs.append(500)
            elif mode == "desc":
                advs.append(900 - 100 * i)
            elif mode == "zeros":
                advs.append(0)
            elif mode == "tail-equal":
                advs.append(rng.choice([300, 500]) if i < cnt // 2 else 600)
            else:
                advs.append(rng.choice([0, 300, 500, 500, 1200]))
        glyphs = {}
        for i, nm in enumerate(names):
            g = {"cs": [], "comps": [], "anchors": [], "w": advs[i] * P + rng.choice([0, 0, P // 2]), "h": rng.choice([0, 1000, 900]) * P,
                 "u": []}
            r = rng.random()
            if r < 0.6:
                for _ in range(rng.randint(1, 2)):
                    # (one in eight: a degenerate outline -- all points coincide -- which still has a position)
                    g["cs"].append(_square(rng.randint(-200, 300), rng.randint(-300, 500), rng.choice([0] + [rng.randint(10, 400)] * 7)))
            elif r < 0.8 and flavor == "tt" and i > 0 and glyphs[names[0]]["cs"]:
                g["comps"].append({"b": names[0], "m": [64, 0, 0, 64], "d": [rng.randint(-100, 100) * P, rng.randint(-100, 100) * P]})
            if rng.random() < 0.6:
                g["u"] = [rng.choice([0x41 + i, 0x3B1 + i, 0x1F600 + i, 0xE000 + i])]
            glyphs[nm] = g
        info = {"unitsPerEm": 1000, "ascender": 800, "descender": -200}
        vertical = rng.random() < 0.5
        ufo = {"glyphs": glyphs, "info": info}
        if vertical:
            info.update({"openTypeVheaVertTypoAscender": 500, "openTypeVheaVertTypoDescender": -500, "openTypeVheaVertTypoLineGap": 0})
            if rng.random() < 0.7:
                ufo["verticalOrigin"] = {nm: rng.choice([880, 880, 900, 750.5, 0, 0.0, -120]) for nm in names if rng.random() < 0.7}
        if rng.random() < 0.3:
            glyphs[".notdef"] = {"cs": [], "comps": [], "anchors": [], "w": 0, "h": 0, "u": []}
        kwargs = {}
        if flavor == "cff" and any(all(p[:2] == c[0][:2] for p in c) for g in glyphs.values() for c in g["cs"]):
            kwargs["optimizeCFF"] = 0      # (with charstring optimisation on: known finding F-C04-2, witnessed by a fixed case below)
        out.append({"cid": f"c04-{seed}-{k}", "lib": rng.choice(["ufoLib2", "defcon"]), "flavor": flavor, "ufo": ufo,
                    "vertical": vertical, "kwargs": kwargs})
    # CFF fonts in which some glyph is exactly as wide as nominalWidthX (and not as defaultWidthX): explicit Private-dict widths,
    # and width multisets for which fontTools' optimiser picks such a pair
    rng3 = random.Random(seed * 122949829 + 40005)
    for k in range(10 if tier == "quick" else 120):
        ws = [[500, 500, 500, 600, 300, 820], [700, 700, 500, 400], [500, 600, 600, 450]][k % 3] if k % 2 else [rng3.choice([300, 400, 500, 600]) for _ in range(5)]
        names = rng3.sample(gen.NAMES, len(ws))
        glyphs = {nm: {"cs": [_square(10, 0, 100 + 10 * i)] if i % 3 else [], "comps": [], "anchors": [], "w": w * P, "h": 0, "u": [0x41 + i]}
                  for i, (nm, w) in enumerate(zip(names, ws))}
        info = {"unitsPerEm": 1000, "ascender": 800, "descender": -200}
        if k % 2 == 0:
            info["postscriptDefaultWidthX"], info["postscriptNominalWidthX"] = ws[0], ws[1] if ws[1] != ws[0] else ws[0] + 100
            glyphs[names[2]]["w"] = info["postscriptNominalWidthX"] * P
        out.append({"cid": f"c04-{seed}-nw{k}", "lib": rng3.choice(["ufoLib2", "defcon"]), "flavor": "cff", "vertical": False,
                    "kwargs": {"optimizeCFF": k % 3}, "ufo": {"glyphs": glyphs, "info": info}})
    # TrueType glyph programs: simple and composite glyphs carry programs of different lengths (the longest on either kind)
    rng2 = random.Random(seed * 122949829 + 40004)
    for k in range(12 if tier == "quick" else 150):
        cnt = rng2.randint(2, 5)
        names = rng2.sample(gen.NAMES, cnt)
        glyphs = {}
        for i, nm in enumerate(names):
            g = {"cs": [], "comps": [], "anchors": [], "w": rng2.choice([300, 500, 640]) * P, "h": 0, "u": [0x41 + i]}
            if i == 0 or rng2.random() < 0.4:
                g["cs"].append(_square(rng2.randint(0, 100), rng2.randint(0, 100), rng2.randint(50, 400)))
            else:
                for _ in range(rng2.randint(1, 2)):
                    g["comps"].append({"b": names[0], "m": [64, 0, 0, 64], "d": [rng2.randint(-100, 100) * P, rng2.randint(-100, 100) * P]})
            glyphs[nm] = g
        sizes = rng2.sample(range(1, 40), cnt)
        if k % 2:
            # the longest program sits on a composite
            comp = [nm for nm in names if glyphs[nm]["comps"]]
            if comp:
                sizes.sort()
                order_ = [nm for nm in names if nm not in comp] + comp
                instr = dict(zip(order_, sizes))
            else:
                instr = dict(zip(names, sizes))
        else:
            instr = dict(zip(names, sizes))
        if rng2.random() < 0.3:
            instr.pop(rng2.choice(sorted(instr)))
        out.append({"cid": f"c04-{seed}-ti{k}", "lib": rng2.choice(["ufoLib2", "defcon"]), "flavor": "tt", "vertical": False, "kwargs": {},
                    "ufo": {"glyphs": glyphs, "info": {"unitsPerEm": 1000, "ascender": 800, "descender": -200}}, "ttInstr": instr})
    # degenerate sources: no glyph at all (only the synthesised .notdef remains)
    for flavor in ("cff", "tt"):
        out.append({"cid": f"c04-{seed}-empty-{flavor}", "lib": "ufoLib2", "flavor": flavor,
                    "ufo": {"glyphs": {}, "info": {"unitsPerEm": 1000, "ascender": 800, "descender": -200}},
                    "vertical": False, "kwargs": {}})
    # the fixed witness of F-C04-2: a single-point outline away from the origin, CFF with the default charstring optimisation
    out.append({"cid": f"c04-{seed}-degenerate-cff", "lib": "ufoLib2", "flavor": "cff", "vertical": False, "kwargs": {},
                "ufo": {"glyphs": {"a": {"cs": [_square(100, 0, 300)], "comps": [], "anchors": [], "w": 500 * P, "h": 0, "u": [0x61]},
                                   "dot": {"cs": [_square(-40, 900, 0)], "comps": [], "anchors": [], "w": 300 * P, "h": 0, "u": [0x2E]}},
                        "info": {"unitsPerEm": 1000, "ascender": 800, "descender": -200}}})
    return out


def classify(rec, pfail, mfail, extra, rep):
    if rec["tid"].endswith("-degenerate-cff") and pfail in ("lsb", "hhea", "font-box"):
        rep.known("F-C04-2", "CFF with charstring optimisation: a glyph whose outline is a single point loses that outline in the "
                             "charstring while hmtx lsb / hhea / head still account for the point")
        return "known:F-C04-2"
    if pfail != "none" and font_exec.isoadobe_prefix_failure(rec):
        rep.known("F-C04-1", "compileOTF (CFF 1, cffsubr) of a font whose glyph order is a prefix of the ISOAdobe charset "
                             "(e.g. only .notdef, or .notdef + space) returns a font that cannot be saved "
                             "(AttributeError: charset)")
        return "known:F-C04-1"
    return None


def execute(case):
    # every fourth case enters through a designspace function instead of compileTTF / compileOTF
    k = sum(ord(ch) for ch in case["cid"])
    if "via" not in case and k % 4 == 0 and not case["cid"].count("empty") and not case["cid"].count("degenerate"):
        case = dict(case, via="vf" if (case["flavor"] == "tt" and k % 8 == 0) else "interp")
    return [font_exec.font_record(case)]


def nontrivial(rec):
    return len(set(rec["srcAdv"].values())) > 1 or any(not b for b in (rec.get("ret", {}).get("box") or {}).values())
