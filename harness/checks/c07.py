"""C07 -- compiling never modifies the caller's sources unless inplace is requested."""
import glob
import os
import random

from .. import gen, purity_exec

PROPERTY = "C07"
TRACE_MODULE = "PurityTrace"
TRACE_CFG = "PurityTrace.cfg"
GROUP_KEY = "group"
RULE = ("schedules = source x compile function (all 9 public functions) x option combination (removeOverlaps, "
        "flattenComponents, skip list, lib filters incl. dottedCircle / propagateAnchors / transformations, explicit filters, "
        "colour layers, MATH constants, variable features, debugFeatureFile, layerName) x 1-2 calls; sources = generated "
        "rich UFOs and 2-3 master families plus every UFO / designspace fixture of tests/data; a structural snapshot of "
        "every layer, lib, info, kerning, groups, features and the designspace is taken at EVERY hook; every second family has "
        "nested and mixed composites and lib-selected pre-filters (propagateAnchors, flattenComponents, decomposeTransformed); non-trivial = the call "
        "ran at least 5 pipeline stages; distinct by (source, function, options)")
ASSUMPTIONS = ["the snapshot covers: every layer's glyphs (outline, components, anchors, width, height, code points, lib), "
               "layer libs, font lib, info attributes, kerning, groups, feature text, designspace axes/sources/rules/lib"]

DATA = "/repo/tests/data"
STATIC_OPTS = [
    {}, {"removeOverlaps": True}, {"flattenComponents": True}, {"skipExportGlyphs": ["e", "period"]},
    {"filters": [{"name": "PropagateAnchors", "include": {"kind": "all"}}, "..."]},
    {"filters": [{"name": "Transformations", "kwargs": {"OffsetX": 10}, "include": {"kind": "all"}}]},
    {"filters": [{"name": "DottedCircle", "include": {"kind": "all"}, "kwargs": {"pre": True}}]},
    {"debugFeatureFile": True}, {"useProductionNames": True}, {"inplace": True},
]
DS_FNS = ["compileInterpolatableTTFsFromDS", "compileInterpolatableOTFsFromDS", "compileVariableTTF", "compileVariableCFF2",
          "compileVariableTTFs", "compileVariableCFF2s"]
DS_OPTS = [{}, {"variableFeatures": False}, {"flattenComponents": True}, {"debugFeatureFile": True},
           {"useProductionNames": True}, {"inplace": True}]


def design_checks(tier):
    return [dict(module="Purity", cfg="Purity.cfg", workers=8, timeout=300),
            dict(module="Purity", cfg="Purity_known.cfg", workers=8, timeout=300)]


def _valid_opts(fn, opts):
    o = dict(opts)
    if fn == "compileOTF":
        o.pop("flattenComponents", None)
    if "OTF" in fn or "CFF2" in fn:
        o.pop("flattenComponents", None)
    if fn.startswith("compileInterpolatable"):
        o.pop("variableFeatures", None)
    return o


def _fixture_specs(rng, tier):
    specs = []
    ufos = sorted(glob.glob(os.path.join(DATA, "*.ufo")))
    dss = sorted(glob.glob(os.path.join(DATA, "*.designspace")) + glob.glob(os.path.join(DATA, "*", "*.designspace")))
    if tier == "quick":
        ufos = [u for u in ufos if os.path.basename(u) in ("ColorTest.ufo", "TestMathFont-Regular.ufo", "TestFont.ufo",
                                                           "DottedCircleTest.ufo", "LayerFont-Regular.ufo", "COLRv1Test.ufo")]
        dss = [d for d in dss if os.path.basename(d) in ("TestVarFont.designspace", "NestedComponents.designspace",
                                                         "TestVarfea.designspace")]
    for u in ufos:
        for fn in ("compileTTF", "compileOTF"):
            optsets = [{}, {"removeOverlaps": True}] if tier != "quick" else [{}]
            for o in optsets:
                lib = rng.choice(["ufoLib2", "defcon"])
                specs.append({"source": {"kind": "ufo-path", "path": u}, "lib": lib,
                              "history": [{"fn": fn, "kwargs": o}, {"fn": fn, "kwargs": o}]})
    def _loadable(d):
        # some fixture documents name sources that are not in the repository
        from fontTools.designspaceLib import DesignSpaceDocument

        try:
            doc = DesignSpaceDocument.fromfile(d)
            return all(s.path and os.path.exists(s.path) for s in doc.sources)
        except Exception:  # noqa
            return False

    dss = [d for d in dss if _loadable(d)]
    for d in dss:
        for fn in (DS_FNS if tier != "quick" else rng.sample(DS_FNS, 3)):
            lib = rng.choice(["ufoLib2", "defcon"])
            o = _valid_opts(fn, rng.choice(DS_OPTS[:5]))
            specs.append({"source": {"kind": "ds-path", "path": d}, "lib": lib,
                          "history": [{"fn": fn, "kwargs": o}, {"fn": fn, "kwargs": o}]})
    return specs


def cases(tier, seed):
    rng = random.Random(seed * 141650939 + 7)
    specs = []
    n_gen = 14 if tier == "quick" else 150
    for k in range(n_gen):
        ufo = gen.rich_ufo(rng)
        r = rng.random()
        if r < 0.3:
            ufo.setdefault("lib", {})["com.github.googlei18n.ufo2ft.filters"] = [
                rng.choice([{"name": "propagateAnchors", "pre": True}, {"name": "decomposeTransformedComponents", "pre": True},
                            {"name": "transformations", "kwargs": {"OffsetX": 5}}, {"name": "sortContours"}])]
        if rng.random() < 0.3:
            ufo.setdefault("lib", {})["public.skipExportGlyphs"] = ["a.alt"]
        if k % 3 == 1 or rng.random() < 0.2:
            # list-valued info attributes given explicitly, every style-map style
            ufo["info"]["styleMapStyleName"] = "bold italic" if k % 3 == 1 else rng.choice(["bold", "italic", "regular"])
            ufo["info"]["openTypeOS2Selection"] = rng.choice([[7], [8, 7], []])
            ufo["info"]["openTypeOS2Type"] = [2]
            ufo["info"]["openTypeHeadFlags"] = [0, 1, 3]
        hist = []
        for _ in range(rng.choice([1, 2, 2])):
            fn = rng.choice(["compileTTF", "compileOTF"])
            hist.append({"fn": fn, "kwargs": _valid_opts(fn, rng.choice(STATIC_OPTS))})
        specs.append({"source": {"kind": "ufo", "ufo": ufo}, "lib": rng.choice(["ufoLib2", "defcon"]), "history": hist})
    n_skip = 10 if tier == "quick" else 120
    for k in range(n_skip):
        # component graphs with random skip sets: skipped glyphs that reference skipped glyphs, mirrored references ...
        glyphs = gen.glyphset(rng, nmin=4, nmax=7, kinds=["line", "quad"], unicodes=True)
        names = sorted(glyphs)
        skip = gen.subset(rng, names, 0.45)
        if len(skip) == len(names):
            skip = skip[:-1]
        ufo = {"glyphs": glyphs, "order": names, "info": {"unitsPerEm": 1000, "ascender": 800, "descender": -200}}
        kw = {}
        if rng.random() < 0.5:
            kw["skipExportGlyphs"] = skip
        else:
            ufo["lib"] = {"public.skipExportGlyphs": skip}
        fn = rng.choice(["compileTTF", "compileOTF"])
        specs.append({"source": {"kind": "ufo", "ufo": ufo}, "lib": rng.choice(["ufoLib2", "defcon"]),
                      "history": [{"fn": fn, "kwargs": kw}] * rng.choice([1, 2])})
    n_fam = 10 if tier == "quick" else 100
    for k in range(n_fam):
        fam = gen.rich_family(rng, n_masters=rng.choice([2, 3]))
        if k % 2 == 1:
            # nested composites (a contour-less composite of a composite, a composite of a MIXED glyph) and filters selected
            # through the lib of every master: pre-filters resolve nested bases through the on-the-fly interpolated layers
            flt = rng.choice([[{"name": "propagateAnchors", "pre": True}], [{"name": "propagateAnchors", "pre": True}, {"name": "flattenComponents", "pre": True}],
                              [{"name": "decomposeTransformedComponents", "pre": True}], [{"name": "propagateAnchors"}]])
            for m in fam["masters"]:
                g = m["ufo"]["glyphs"]
                P = 1024
                g["aacute.nest"] = {"cs": [], "comps": [{"b": "aacute", "m": [64, 0, 0, 64], "d": [10 * P, 0]}], "anchors": [], "w": g["aacute"]["w"], "h": 0, "u": []}
                g["amixed"] = {"cs": [[[0, 0, "line"], [50 * P, 0, "line"], [50 * P, 50 * P, "line"]]],
                               "comps": [{"b": "a", "m": [64, 0, 0, 64], "d": [60 * P, 0]}], "anchors": [], "w": 600 * P, "h": 0, "u": []}
                g["amixed.nest"] = {"cs": [], "comps": [{"b": "amixed", "m": [64, 0, 0, 64], "d": [0, 20 * P]},
                                                        {"b": "acutecomb", "m": [64, 0, 0, 64], "d": [250 * P, 0]}], "anchors": [], "w": 600 * P, "h": 0, "u": []}
                m["ufo"]["order"] = list(m["ufo"]["order"]) + ["aacute.nest", "amixed", "amixed.nest"]
                m["ufo"].setdefault("lib", {})["com.github.googlei18n.ufo2ft.filters"] = flt
        if k % 3 == 2:
            # every master's own lib carries a (different) public.skipExportGlyphs list: the list-of-UFOs entry point takes
            # their union
            for j, m in enumerate(fam["masters"]):
                m["ufo"].setdefault("lib", {})["public.skipExportGlyphs"] = [["a.alt"], ["a.alt", "period"], ["one"]][j % 3]
            fam["_listFirst"] = True
        if k % 3 == 0:
            # two variable fonts, one of them with font-info overrides in its lib (applied after the masters are compiled)
            fam["variableFonts"] = [{"name": "PlainVF"}, {"name": "NamedVF", "lib": {"public.fontInfo": {
                "familyName": "Renamed Family", "versionMajor": 3, "openTypeOS2VendorID": "ABCD", "ascender": 810}}}]
            rng.shuffle(fam["variableFonts"])
        hist = []
        for _ in range(rng.choice([1, 2])):
            fn = rng.choice(DS_FNS + ["compileInterpolatableTTFs"])
            if "variableFonts" in fam and rng.random() < 0.7:
                fn = rng.choice(["compileVariableTTFs", "compileVariableCFF2s"])
            if fam.get("_listFirst") and not hist:
                fn = "compileInterpolatableTTFs"
            hist.append({"fn": fn, "kwargs": _valid_opts(fn, rng.choice(DS_OPTS)) if fn != "compileInterpolatableTTFs" else {}})
        specs.append({"source": {"kind": "family", "family": fam}, "lib": rng.choice(["ufoLib2", "defcon"]), "history": hist})
    specs += _fixture_specs(rng, tier)
    # in-memory designspaces whose <source> descriptors have no name, or share one (legal: the compilers name their working
    # copies themselves) -- the caller's descriptors keep what they had
    rng2 = random.Random(seed * 1000003 + 70007)
    for k in range(8 if tier == "quick" else 60):
        fam = gen.rich_family(rng2, n_masters=3 if k % 2 else 2)
        for j, m in enumerate(fam["masters"]):
            m["name"] = None if k % 4 < 2 else ("master" if j < 2 else "other")
        if k % 4 == 1:
            fam["masters"][0]["name"] = "named"
        fn = ["compileVariableTTF", "compileVariableCFF2", "compileVariableTTFs", "compileVariableCFF2s",
              "compileInterpolatableTTFsFromDS", "compileInterpolatableOTFsFromDS"][k % 6]
        hist = [{"fn": fn, "kwargs": {}}] * (2 if k % 3 == 0 else 1)
        specs.append({"source": {"kind": "family", "family": fam}, "lib": rng2.choice(["ufoLib2", "defcon"]), "history": hist})
    out = []
    for k, s in enumerate(specs):
        s["cid"] = f"c07-{seed}-{k}"
        s["via"] = "memory"
        out.append(s)
    return out


def execute(case):
    calls = purity_exec.run_history(case)
    recs = []
    src = case["source"]
    for c in calls:
        recs.append({
            "tid": f"{case['cid']}/{c['k']}", "group": case["cid"], "fn": c["fn"], "optsKey": c["optsKey"],
            "content": c["content"], "inplace": c["inplace"], "raised": c["raised"], "outSha": c["outSha"],
            "events": [{"ev": e["ev"], "srcSame": e["srcSame"], "name": e["name"] or "-"} for e in c["events"]],
            "comp": {"useProductionNames": "None", "postProcessorClass": "PostProcessor", "skipFeatureCompilation": False, "ftConfig": ""},
            "_diff": c["srcDiffAfter"], "_first": next((e for e in c["events"] if not e["srcSame"]), None),
            "_src": src.get("path", src["kind"]), "_sig": [src.get("path", case["cid"]), c["fn"], c["optsKey"]],
            "_nstages": len(c["events"]), "_msg": c.get("raisedMsg", ""),
        })
    return recs


def nontrivial(rec):
    return rec["_nstages"] >= 5


def _components(diff):
    return {d.split(":", 1)[1].split("/")[0] if ":" in d else d for d in diff}


def classify(rec, pfail, mfail, extra, rep):
    if pfail != "source-untouched":
        if pfail in ("pure-function", "same-exception"):
            return known_c08(rec, rep, "C07")
        return None
    diff = rec["_diff"] or (rec["_first"] or {}).get("srcDiff", [])
    kinds = {d.split(":", 1)[1] if d.startswith("src") else d for d in diff}
    src = rec["_src"]
    if kinds <= {"lib"} and "TestMathFont" in src:
        rep.known("F-C07-1", "outlineCompiler.setupTable_MATH pops 'MinConnectorOverlap' out of the caller's "
                             "font.lib[com.nagwa.MATHPlugin.constants] dict")
        return "known:F-C07-1"
    if kinds <= {"lib"} and ("Color" in src or "COLR" in src):
        rep.known("F-C07-2", "ExplodeColorLayerGlyphsFilter writes the generated colorLayers mapping into the caller's font.lib")
        return "known:F-C07-2"
    if kinds <= {"lib", "fea"} and ("DottedCircle" in src or "DottedCircle" in str(rec.get("_sig"))):
        rep.known("F-C07-3", "DottedCircleFilter.ensure_base writes font.lib[public.openTypeCategories] / font.features.text")
        return "known:F-C07-3"
    return None


def known_c08(rec, rep, prop):
    src = rec["_src"]
    if "TestMathFont" in src and rec["content"] != "pristine":
        return "ok"
    return None
