"""C10 -- a variable font reproduces each master at that master's location."""
import copy
import random

from .. import absfont, dsbuild, gen, layout_exec, project, tracer

PROPERTY = "C10"
TRACE_MODULE = "VFTrace"
TRACE_CFG = "VFTrace.cfg"
ACCEPTORS = {"vf": ("VFTrace", "VFTrace.cfg"), "kern": ("KernTrace", "KernTrace.cfg"), "mark": ("MarkTrace", "MarkTrace.cfg")}
RULE = ("random compatible families of 2-3 masters (Latin + combining marks, composites, per-master kerning with group and "
        "glyph keys, a pair present in one master only, per-master anchors) x {compileVariableTTF, compileVariableCFF2} x "
        "variableFeatures on/off x production names x {default kern writer, kernFeatureWriter2 through the lib key}; the variable font is instantiated with fontTools.varLib.instancer at every "
        "full master's location and compared (a) with the interpolatable master (outline / advance deviation), (b) through the "
        "TLA+ GPOS interpreter with that master's UFO kerning and anchors; non-trivial = master is not the default; distinct by "
        "family digest + options + master")
ASSUMPTIONS = ["fontTools.varLib merge / instancer are environment", "outline deviation measured point-wise by the harness"]
SHARDS = 12


def design_checks(tier):
    return [dict(module="Purity", cfg="Purity.cfg", workers=8, timeout=300)]


def cases(tier, seed):
    n = 18 if tier == "quick" else 250
    rng = random.Random(seed * 373587883 + 10)
    out = []
    for k in range(n):
        fam = gen.rich_family(rng, n_masters=rng.choice([2, 3]))
        if k % 4 == 2:
            # fixed shares: three masters, variable features, default kern writer; a glyph-to-class exception that one
            # non-default master lacks (there the class value applies), and values that agree in the first- and last-listed
            # source while the middle one differs
            fam = gen.rich_family(rng, n_masters=3)
            cand = [m for m in fam["masters"] if m["loc"]["Weight"] != 400]
            m_ = rng.choice(cand)
            m_["ufo"]["kerning"] = [e for e in m_["ufo"].get("kerning", []) if (e[0], e[1]) != ("e", "public.kern2.A")]
            a_, c_ = fam["masters"][0]["ufo"], fam["masters"][2]["ufo"]
            ka = {(l, r): v for l, r, v in a_.get("kerning", [])}
            c_["kerning"] = [[l, r, ka.get((l, r), v) if (l, r) != ("e", "public.kern2.A") else v] for l, r, v in c_.get("kerning", [])]
            for n_, g in c_["glyphs"].items():
                if n_ in a_["glyphs"] and len(g["anchors"]) == len(a_["glyphs"][n_]["anchors"]):
                    g["anchors"] = copy.deepcopy(a_["glyphs"][n_]["anchors"])
            out.append({"cid": f"c10-{seed}-{k}", "lib": rng.choice(["ufoLib2", "defcon"]), "fam": fam, "flavor": rng.choice(["tt", "cff2"]),
                        "varFeatures": True, "prodNames": False, "kern2": False})
            continue
        if k % 4 == 1:
            # a full master (not the default) that kerns nothing at all
            cand = [m for m in fam["masters"] if m["loc"]["Weight"] != 400]
            if cand:
                rng.choice(cand)["ufo"]["kerning"] = []
        out.append({"cid": f"c10-{seed}-{k}", "lib": rng.choice(["ufoLib2", "defcon"]), "fam": fam,
                    "flavor": rng.choice(["tt", "cff2"]), "varFeatures": rng.random() < 0.6,
                    "prodNames": rng.random() < 0.2, "kern2": rng.random() < 0.25})
        if k % 4 == 3:
            # fixed share: a glyph-to-class exception that is exactly 0 in EVERY master (it cancels the class-to-class value
            # for that glyph), variable features, both kern writers in turn
            for m in fam["masters"]:
                kern = m["ufo"].get("kerning")
                if kern is None:
                    continue
                kern[:] = [e for e in kern if (e[0], e[1]) != ("e", "public.kern2.A")] + [["e", "public.kern2.A", 0]]
                if not any((e[0], e[1]) == ("public.kern1.O", "public.kern2.A") for e in kern):
                    kern.append(["public.kern1.O", "public.kern2.A", -37 * 4])
            out[-1].update({"varFeatures": True, "prodNames": False, "kern2": k % 8 == 7})
    out += vfs_cases(random.Random(seed * 373587883 + 100010), 4 if tier == "quick" else 40, f"c10-{seed}")
    # flattenComponents on a variable TrueType build with a composite nested two levels deep whose INNER offsets differ between
    # the masters: each master's nested references are resolved in that master
    rng4 = random.Random(seed * 373587883 + 100012)
    for k in range(4 if tier == "quick" else 40):
        fam = gen.rich_family(rng4, n_masters=2 + k % 2, kerning=False, features=False)
        P = 1024
        for j, m in enumerate(fam["masters"]):
            g = m["ufo"]["glyphs"]
            g["box"] = {"cs": [[[0, 0, "line"], [100 * P, 0, "line"], [100 * P, (200 + 20 * j) * P, "line"], [0, (200 + 20 * j) * P, "line"]]],
                        "comps": [], "anchors": [], "w": 300 * P, "h": 0, "u": []}
            g["mid"] = {"cs": [], "comps": [{"b": "box", "m": [64, 0, 0, 64], "d": [(10 + 25 * j) * P, (10 * j) * P]}], "anchors": [], "w": 300 * P, "h": 0, "u": []}
            g["top"] = {"cs": [], "comps": [{"b": "mid", "m": [64, 0, 0, 64], "d": [(5 + 3 * j) * P, 150 * P]}, {"b": "box", "m": [64, 0, 0, 64], "d": [400 * P, 0]}],
                        "anchors": [], "w": 600 * P, "h": 0, "u": [0x54]}
            m["ufo"]["order"] = list(m["ufo"]["order"]) + ["box", "mid", "top"]
        out.append({"cid": f"c10-{seed}-fl{k}", "lib": rng4.choice(["ufoLib2", "defcon"]), "fam": fam, "flavor": "tt", "varFeatures": True,
                    "prodNames": False, "kern2": False, "extraKw": {"flattenComponents": True} if k % 4 != 3 else {}})
    # kerning groups need not be the same in every master: a group (and a class pair using it) that only a NON-default master
    # defines still kerns at that master's location
    rng3 = random.Random(seed * 373587883 + 100011)
    for k in range(4 if tier == "quick" else 40):
        fam = gen.rich_family(rng3, n_masters=2 + k % 2)
        cand = [m for m in fam["masters"] if m["loc"]["Weight"] != 400 and m["ufo"].get("kerning")]
        if cand:
            m_ = cand[k % len(cand)]
            side1 = k % 2 == 0
            gname = "public.kern1.Vx" if side1 else "public.kern2.Vx"
            m_["ufo"].setdefault("groups", []).append([gname, ["V", "one"]])
            m_["ufo"]["kerning"].append([gname, "a", -33 * 4] if side1 else ["a", gname, -33 * 4])
        out.append({"cid": f"c10-{seed}-g{k}", "lib": rng3.choice(["ufoLib2", "defcon"]), "fam": fam, "flavor": "tt" if k % 2 else "cff2",
                    "varFeatures": True, "prodNames": False, "kern2": k % 4 == 3})
    return out


def _max_diff_tt(a, b):
    worst, same_struct, same_glyphs = 0.0, True, set(a.getGlyphOrder()) == set(b.getGlyphOrder())
    ga, gb = a["glyf"], b["glyf"]
    for n in a.getGlyphOrder():
        if n not in gb.glyphs and n not in b.getGlyphOrder():
            continue
        x, y = ga[n], gb[n]
        if x.isComposite() != y.isComposite():
            same_struct = False
            continue
        if x.isComposite():
            if [c.glyphName for c in x.components] != [c.glyphName for c in y.components]:
                same_struct = False
                continue
            for c, d in zip(x.components, y.components):
                worst = max(worst, abs(c.x - d.x), abs(c.y - d.y))
            # what the composite DRAWS (its components resolved with their 2x2 and offsets) has to agree as well
            ca, ea, _ = x.getCoordinates(ga)
            cb, eb, _ = y.getCoordinates(gb)
            if list(ea) != list(eb) or len(ca) != len(cb):
                same_struct = False
                continue
            for (x1, y1), (x2, y2) in zip(ca, cb):
                worst = max(worst, abs(x1 - x2), abs(y1 - y2))
        elif x.numberOfContours > 0 or y.numberOfContours > 0:
            if x.numberOfContours != y.numberOfContours:
                same_struct = False
                continue
            ca, ea, fa = x.getCoordinates(ga)
            cb, eb, fb = y.getCoordinates(gb)
            if list(ea) != list(eb) or len(ca) != len(cb):
                same_struct = False
                continue
            for (x1, y1), (x2, y2) in zip(ca, cb):
                worst = max(worst, abs(x1 - x2), abs(y1 - y2))
    return worst, same_struct, same_glyphs


def _max_diff_cff(a, b):
    from fontTools.pens.recordingPen import RecordingPen

    worst, same_struct, same_glyphs = 0.0, True, set(a.getGlyphOrder()) == set(b.getGlyphOrder())
    sa, sb = a.getGlyphSet(), b.getGlyphSet()
    for n in a.getGlyphOrder():
        if n not in sb:
            continue
        pa, pb = RecordingPen(), RecordingPen()
        sa[n].draw(pa)
        sb[n].draw(pb)
        if [op for op, _ in pa.value] != [op for op, _ in pb.value]:
            same_struct = False
            continue
        for (_, xa), (_, xb) in zip(pa.value, pb.value):
            for p, q in zip(xa, xb):
                worst = max(worst, abs(p[0] - q[0]), abs(p[1] - q[1]))
    return worst, same_struct, same_glyphs


def execute(case):
    import ufo2ft
    from fontTools.varLib import instancer

    if case.get("vfs"):
        return execute_vfs(case)
    lib = case["lib"]
    fam = case["fam"]
    kw = {"variableFeatures": case["varFeatures"], "useProductionNames": case["prodNames"]}
    kw.update(case.get("extraKw") or {})
    if case.get("kern2"):
        # the second kern writer, selected through the lib of every source (the variable-features path reads the default's)
        fam = copy.deepcopy(fam)
        for m in fam["masters"]:
            if m.get("ufo"):
                m["ufo"].setdefault("lib", {})["com.github.googlei18n.ufo2ft.featureWriters"] = [
                    {"module": "ufo2ft.featureWriters.kernFeatureWriter2", "class": "KernFeatureWriter"},
                    {"class": "MarkFeatureWriter"}, {"class": "GdefFeatureWriter"}, {"class": "CursFeatureWriter"}]
    ds = dsbuild.build_designspace(fam, lib)
    fonts = []
    for s in ds.sources:
        if all(s.font is not f for f in fonts):
            fonts.append(s.font)
    recs = []
    with tracer.tracing(fonts, designspace=ds, snap=False, glyphsets=False) as tr:
        try:
            vf = (ufo2ft.compileVariableTTF if case["flavor"] == "tt" else ufo2ft.compileVariableCFF2)(ds, **kw)
        except Exception as e:  # noqa
            keysets = [{(l, r) for l, r, _ in m["ufo"].get("kerning", [])} for m in fam["masters"]]
            return [{"tid": case["cid"], "_acc": "vf", "err": type(e).__name__ + ": " + str(e)[:200], "events": [],
                     "_varFeatures": case["varFeatures"], "_kernKeysDiffer": any(k != keysets[0] for k in keysets)}]
    events = [e["ev"] for e in tr.events]
    # FeaPipeline.tla, OnlyAdds: what earlier writers put into the shared feature file is still there, unchanged, after
    # every later writer (statement texts, in order)
    def stmts(text):
        return [ln.strip() for ln in text.splitlines() if ln.strip() and not ln.strip().startswith("#")]

    def subseq(a, b):
        it = iter(b)
        return all(any(x == y for y in it) for x in a)

    by_compile = {}
    for e in tr.events:
        if e["ev"] == "Writer":
            by_compile.setdefault(e.get("compilerId", 0), []).append(stmts(e.get("fea", "")))
    writers_only_add = all(subseq(a, b) for wtexts in by_compile.values() for a, b in zip(wtexts, wtexts[1:]))
    data, vf = project.save_reload(vf)
    ds2 = dsbuild.build_designspace(fam, lib)
    xkw = dict(case.get("extraKw") or {})
    if case["flavor"] == "tt":
        masters = [s.font for s in ufo2ft.compileInterpolatableTTFsFromDS(ds2, useProductionNames=case["prodNames"], **xkw).sources]
    else:
        masters = [s.font for s in ufo2ft.compileInterpolatableOTFsFromDS(ds2, useProductionNames=case["prodNames"], **xkw).sources]
    for k, m in enumerate(fam["masters"]):
        loc = m["loc"]["Weight"]
        from fontTools.ttLib import TTFont
        import io

        inst = instancer.instantiateVariableFont(TTFont(io.BytesIO(data)), {"wght": loc}, inplace=False)
        idata, inst = project.save_reload(inst)
        mdata, mfont = project.save_reload(masters[k])
        if case["flavor"] == "tt":
            worst, same_struct, same_glyphs = _max_diff_tt(inst, mfont)
        else:
            worst, same_struct, same_glyphs = _max_diff_cff(inst, mfont)
        hm_i, hm_m = inst["hmtx"], mfont["hmtx"]
        adv = max(abs(hm_i[n][0] - hm_m[n][0]) for n in inst.getGlyphOrder() if n in hm_m.metrics)
        tid = f"{case['cid']}/m{k}"
        recs.append({"tid": tid + "/vf", "_acc": "vf", "outlineDiffMilli": int(worst * 1000), "advDiff": int(adv), "structSame": same_struct,
                     "glyphsSame": same_glyphs, "events": events, "varFeatures": case["varFeatures"], "writersOnlyAdd": writers_only_add,
                     "_sig": [case["cid"], k], "_k": k})
        if case["flavor"] == "tt":
            # ... and with the master's SOURCE: glyphs made of straight lines only are compared point set against point set
            # (the compiled masters could share an error with the variable font)
            sd = _source_point_distance(m["ufo"]["glyphs"], inst)
            if sd is not None:
                recs[-1]["srcDiffMilli"] = sd
        if not case["prodNames"]:
            mcase = {"ufo": m["ufo"], "q": 1, "var": True}
            kr = layout_exec.kern_record(mcase, inst, tid + "/kern")
            kr["_acc"] = "kern"
            kr["_k"] = k
            recs.append(kr)
            mr = layout_exec.mark_record(mcase, inst, tid + "/mark")
            mr["_acc"] = "mark"
            mr["_k"] = k
            recs.append(mr)
    return recs


def _source_point_distance(glyphs, inst):
    """largest distance (milli-units) between the point set a line-only source glyph resolves to and the point set the
    instance draws for it, both ways; None when no glyph qualifies"""
    from .. import compile_exec
    from ..absfont import PS

    glyf = inst["glyf"]
    worst, seen = 0.0, False
    for n, g in glyphs.items():
        if n not in glyf.glyphs and n not in inst.getGlyphOrder():
            continue
        try:
            r = compile_exec.resolved_form(glyphs, n)
        except Exception:  # noqa
            continue
        pts = [(p[0] / PS, p[1] / PS) for c in r["cs"] for p in c]
        if not pts or any(p[2] != "line" for c in r["cs"] for p in c):
            continue
        tt = glyf[n]
        if tt.numberOfContours == 0:
            continue
        coords, _, _ = tt.getCoordinates(glyf)
        obs = [(float(x), float(y)) for x, y in coords]
        if not obs:
            continue
        seen = True
        for A, B in ((pts, obs), (obs, pts)):
            for (x, y) in A:
                worst = max(worst, min(max(abs(x - u), abs(y - v)) for (u, v) in B))
    return int(worst * 1000) if seen else None


def vfs_cases(rng, n, prefix):
    """Designspaces with two <variable-font>s sharing masters: one spans the whole axis, the other only its lower part
    (listed before or after).  A composite whose 2x2 differs ONLY in the master outside the smaller one's range must still
    be stored as contours in every master, or the full variable font loses it."""
    out = []
    for k in range(n):
        fam = gen.rich_family(rng, n_masters=3, kerning=(k % 2 == 0))
        by = {m["loc"]["Weight"]: m for m in fam["masters"]}
        if "colon" in by[400]["ufo"]["glyphs"]:
            for m in fam["masters"]:
                for c in m["ufo"]["glyphs"]["colon"]["comps"]:
                    c["m"] = [64, 0, 0, 64]
            by[700]["ufo"]["glyphs"]["colon"]["comps"][k % 2]["m"] = [80, 0, 0, 80]
        vfs = [{"name": "FullVF"}, {"name": "LowVF", "subsets": {"Weight": {"min": 400, "max": 550}}}]
        if k % 3 == 2:
            vfs.reverse()
        fam["variableFonts"] = vfs
        out.append({"cid": f"{prefix}-vfs{k}", "vfs": True, "lib": rng.choice(["ufoLib2", "defcon"]), "fam": fam,
                    "flavor": "tt" if k % 4 != 3 else "cff2"})
    return out


def execute_vfs(case):
    """compileVariableTTFs / compileVariableCFF2s: every variable font, instantiated at the location of each master inside
    its range, against the jointly compiled interpolatable master."""
    import io

    import ufo2ft
    from fontTools.ttLib import TTFont
    from fontTools.varLib import instancer

    lib, fam = case["lib"], case["fam"]
    ds = dsbuild.build_designspace(fam, lib)
    tt = case["flavor"] == "tt"
    try:
        outs = (ufo2ft.compileVariableTTFs if tt else ufo2ft.compileVariableCFF2s)(ds, useProductionNames=False)
    except Exception as e:  # noqa
        return [{"tid": case["cid"], "_acc": "vf", "err": type(e).__name__ + ": " + str(e)[:200], "events": [], "multi": True}]
    ds2 = dsbuild.build_designspace(fam, lib)
    masters = [s.font for s in (ufo2ft.compileInterpolatableTTFsFromDS if tt else ufo2ft.compileInterpolatableOTFsFromDS)(
        ds2, useProductionNames=False).sources]
    recs = []
    for vf in fam["variableFonts"]:
        sub = (vf.get("subsets") or {}).get("Weight") or {}
        lo, hi = sub.get("min", fam["axes"][0]["min"]), sub.get("max", fam["axes"][0]["max"])
        if vf["name"] not in outs:
            recs.append({"tid": f"{case['cid']}/{vf['name']}", "_acc": "vf", "err": "MissingVF", "events": [], "multi": True})
            continue
        data, _ = project.save_reload(outs[vf["name"]])
        for k, m in enumerate(fam["masters"]):
            loc = m["loc"]["Weight"]
            if not lo <= loc <= hi:
                continue
            inst = instancer.instantiateVariableFont(TTFont(io.BytesIO(data)), {"wght": loc}, inplace=False)
            _, inst = project.save_reload(inst)
            _, mfont = project.save_reload(masters[k])
            worst, same_struct, same_glyphs = (_max_diff_tt if tt else _max_diff_cff)(inst, mfont)
            hm_i, hm_m = inst["hmtx"], mfont["hmtx"]
            adv = max(abs(hm_i[n][0] - hm_m[n][0]) for n in inst.getGlyphOrder() if n in hm_m.metrics)
            recs.append({"tid": f"{case['cid']}/{vf['name']}/m{k}", "_acc": "vf", "outlineDiffMilli": int(worst * 1000), "advDiff": int(adv),
                         "structSame": same_struct, "glyphsSame": same_glyphs, "events": [], "multi": True, "varFeatures": True,
                         "_sig": [case["cid"], vf["name"], k], "_k": 1 if loc != 400 else 0})
    return recs


def nontrivial(rec):
    return rec.get("_k", 0) > 0


def classify(rec, pfail, mfail, extra, rep):
    acc = rec.get("_acc")
    if pfail == "compiles" and rec.get("err", "").startswith("ShouldBeConstant") and not rec.get("_varFeatures") and rec.get("_kernKeysDiffer"):
        rep.known("F-C10-1", "variableFeatures=False: kerning pairs present in only some masters give per-master GPOS tables of "
                             "different structure and fontTools.varLib refuses to merge them (ShouldBeConstant)")
        return "known:F-C10-1"
    if acc == "kern":
        if extra[1]:
            rep.known("F-C05-1", "class pair dropped for mixed bidi members (see C05)")
        if extra[2]:
            rep.known("F-C05-2", "neutral pair without RTL placement (see C05)")
    if acc == "mark" and extra and extra[2]:
        rep.known("F-C06-1", "unpaired mark glyph (see C06)")
    if pfail != "none":
        rep.notes.setdefault("witnesses", []).append({"tid": rec["tid"], "clause": pfail, "extra": [str(x)[:200] for x in extra], "err": rec.get("err", "")})
    return None
