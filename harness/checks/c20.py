"""C20 -- generated positioning features are reachable from every registered script."""
import random

from .. import layout_exec, layout_gen, otproject

PROPERTY = "C20"
TRACE_MODULE = "LayoutTrace"
TRACE_CFG = "LayoutTrace.cfg"
RULE = ("random single- and multi-script fonts (Latin, Arabic, Cyrillic, Devanagari with its two OpenType tags) having "
        "kerning AND attaching anchors (and cursive anchors for Arabic) x languagesystem statements {none, DFLT only, DFLT + "
        "first script, DFLT + all scripts; non-default languages, different lists for the two tags of one script}; default "
        "feature writers; entry points: compileTTF / compileOTF, compileVariableTTF / CFF2 with variable or merged layout, "
        "interpolatable masters; the compiled ScriptList / FeatureList / lookups are dumped and TLC checks, per script with "
        "kerning and per language system, that every generated mark / mkmk / curs / abvm / blwm feature acting on glyphs of "
        "that script is reachable; non-trivial = GPOS has at least two scripts; distinct by source digest")
ASSUMPTIONS = ["'acts on glyphs of the script' = some lookup of the feature lists a base / ligature / mark2 / cursive glyph whose "
               "script extensions contain the script"]


def design_checks(tier):
    return [dict(module="Layout", cfg="Layout.cfg", workers=4, timeout=300),
            dict(module="Layout", cfg="Layout_strict.cfg", workers=4, timeout=300, expect_violation="C20_Strict")]


def cases(tier, seed):
    n = 200 if tier == "quick" else 1500
    rng = random.Random(seed * 256203221 + 20)
    out = []
    for k in range(n):
        c = layout_gen.full_font(rng)
        c.update({"cid": f"c20-{seed}-{k}", "lib": rng.choice(["ufoLib2", "defcon"]), "writers": "default",
                  "via": rng.choice(["static", "static", "vf", "vf-merge", "interp"]), "flavor": rng.choice(["tt", "tt", "cff"])})
        out.append(c)
    # scripts chained by kerning pairs that straddle two of them (every listing order of the links): each script's language
    # system exposes the kerning that acts on its glyphs, next to the mark features
    rng2 = random.Random(seed * 256203221 + 200020)
    for k in range(24 if tier == "quick" else 240):
        c = layout_gen.chain_pairs_font(rng2, k)
        c.update({"cid": f"c20-{seed}-ch{k}", "lib": rng2.choice(["ufoLib2", "defcon"]), "writers": "default",
                  "via": "static" if k % 4 else "vf", "flavor": "tt"})
        out.append(c)
    return out


def execute(case):
    f2, fea, data = layout_exec.compile_layout(case, flavor=case.get("flavor", "tt"), via=case.get("via", "static"))
    order = f2.getGlyphOrder()
    props = otproject.glyph_properties(f2)
    F = {"gpos": otproject.gpos(f2), "gdef": otproject.gdef(f2)}
    tags = [{"tag": s["tag"], "script": otproject.script_of_tag(s["tag"])} for s in F["gpos"]["scripts"]]
    return [{"tid": case["cid"], "n": len(order), "order": order, "glyphs": [{"scripts": props[n]["scripts"], "single": props[n]["single"]} for n in order],
             "tags": tags, "declared": case["declared"], "F": F, "_fea": fea,
             "declaredPairs": [[(m.group(1) + "    ")[:4], (m.group(2) + "    ")[:4] if m.group(2) != "dflt" else "dflt"]
                               for m in __import__("re").finditer(r"languagesystem\s+(\S+)\s+(\S+)\s*;", case["ufo"]["fea"])]}]


def nontrivial(rec):
    return len(rec["tags"]) >= 2


def classify(rec, pfail, mfail, extra, rep):
    if extra and extra[0]:
        rep.known("F-C20-1", "a script that carries generated kerning but is not named by a languagesystem statement (in "
                             "particular: no languagesystem at all) gets kern but not the generated mark / mkmk / curs features")
    if pfail != "none":
        rep.notes.setdefault("witnesses", []).append({"tid": rec["tid"], "missing": extra[1]})
    return None
