"""C08 -- output is a pure function of UFO content and options."""
import glob
import json
import os
import random
import subprocess
import sys
import tempfile

from .. import gen, layout_gen
from . import c07

PROPERTY = "C08"
TRACE_MODULE = "PurityTrace"
TRACE_CFG = "PurityTrace.cfg"
GROUP_KEY = "group"
RULE = ("for each source (generated rich UFOs / families, fixtures of tests/data) every call history (single call; twice; "
        "TTF then OTF and the reverse; static then variable; inplace; layout-heavy sources with writer options and sources with "
        "lib-selected filters / designspaces whose variable fonts carry public.fontInfo overrides -- PropagateAnchors on ligature marks with curved components -- through one compileTTF) is run in FRESH subprocesses under PYTHONHASHSEED in "
        "{0,1,2,3,17,101} x {defcon, ufoLib2} x {in memory, saved and reopened}; sha256 of the saved bytes is logged per call and "
        "TLC rebuilds the memo (function, options \\ inplace, content-before) -> digest over the union of all processes' logs; "
        "non-trivial = a key observed in at least two different environments; distinct by (source, function, options, env)")
ASSUMPTIONS = ["SOURCE_DATE_EPOCH pins timestamps", "content-before is 'pristine' unless an earlier call of the history changed "
               "the source snapshot (then the digest of that change enters the key)"]

SEEDS_Q = ["0", "1", "17", "101"]
SEEDS_T = ["0", "1", "2", "3", "17", "101"]
VERIF = os.path.dirname(os.path.dirname(os.path.dirname(os.path.abspath(__file__))))


def design_checks(tier):
    return [dict(module="Purity", cfg="Purity.cfg", workers=8, timeout=300)]


UFO_HISTORIES = [
    [("compileTTF", {})], [("compileOTF", {})], [("compileTTF", {}), ("compileOTF", {})], [("compileOTF", {}), ("compileTTF", {})],
    [("compileTTF", {}), ("compileTTF", {})], [("compileTTF", {"inplace": True})], [("compileOTF", {"inplace": True})],
    [("compileTTF", {"useProductionNames": True}), ("compileTTF", {})],
]
DS_HISTORIES = [
    [("compileVariableTTF", {})], [("compileVariableCFF2", {})], [("compileInterpolatableTTFsFromDS", {}), ("compileVariableTTF", {})],
    [("compileVariableCFF2", {}), ("compileVariableTTF", {})], [("compileVariableTTF", {}), ("compileVariableTTF", {})],
    [("compileVariableTTF", {"variableFeatures": False})], [("compileVariableTTF", {"inplace": True})],
    [("compileInterpolatableOTFsFromDS", {})],
]


def cases(tier, seed):
    rng = random.Random(seed * 179424673 + 8)
    seeds = SEEDS_Q if tier == "quick" else SEEDS_T
    sources = []
    for k in range(2 if tier == "quick" else 12):
        sources.append(("ufo", {"kind": "ufo", "ufo": gen.rich_ufo(rng)}, f"gen-ufo-{k}"))
    for k in range(2 if tier == "quick" else 10):
        # partial / absent public.glyphOrder: the remaining glyphs are ordered by the compiler; defcon maintains an
        # implicit glyph order that ufoLib2 does not, so these sources are compared per library (suffix @lib)
        u = gen.rich_ufo(rng)
        u["order"] = None if k % 2 else u["order"][: len(u["order"]) // 2]
        u["glyphNames"] = rng.sample(sorted(u["glyphs"]), len(u["glyphs"]))
        sources.append(("ufo", {"kind": "ufo", "ufo": u}, f"gen-partial-{k}@lib"))
    for k in range(12 if tier == "quick" else 60):
        # layout-heavy sources with non-default writer options (set through the UFO lib so every call history sees them):
        # many mark classes with marks in several classes, grouped mark lookups, both kern writers, quantisation
        kind = 0 if k % 2 == 0 else (1 + (k // 2) % 2)       # every second layout source stresses the mark writer
        if kind == 0:
            # keep drawing until the font has >= 3 mark classes and a mark glyph that belongs to two of them
            for _try in range(200):
                c = layout_gen.mark_conflict_font(rng) if (k // 2) % 3 != 2 else layout_gen.anchors_font(rng)
                marks = [[a["n"] for a in g["anchors"] if a["n"].startswith("_") and not a["n"][1:].isdigit()] for g in c["ufo"]["glyphs"].values()]
                classes = {a for m in marks for a in m}
                if len(classes) >= 3 and any(len(set(m)) >= 2 for m in marks):
                    break
            c["ufo"].setdefault("lib", {})["com.github.googlei18n.ufo2ft.featureWriters"] = [
                {"class": "MarkFeatureWriter", "options": {"groupMarkClasses": True, "quantization": c["q"]}}]
        elif kind == 1:
            c = layout_gen.kerning_font(rng)
            c["ufo"].setdefault("lib", {})["com.github.googlei18n.ufo2ft.featureWriters"] = [
                {"class": "KernFeatureWriter", "options": {"quantization": c["q"]}}, {"class": "MarkFeatureWriter"}]
        else:
            c = layout_gen.gdefcurs_font(rng)
        sources.append(("ufo", {"kind": "ufo", "ufo": c["ufo"]}, f"gen-layout-{k}"))
    for k in range(8 if tier == "quick" else 40):
        # more mark-class conflict graphs (edges plus isolated vertices) for the lookup grouping, each under many hash seeds
        c = layout_gen.mark_conflict_font(rng)
        c["ufo"].setdefault("lib", {})["com.github.googlei18n.ufo2ft.featureWriters"] = [
            {"class": "MarkFeatureWriter", "options": {"groupMarkClasses": True}}]
        sources.append(("ufo", {"kind": "ufo", "ufo": c["ufo"]}, f"gen-layout-mc{k}"))
    for k in range(2 if tier == "quick" else 10):
        # filters chosen through the UFO lib (PropagateAnchors on ligature marks with curved components): compared across
        # UFO libraries and storage
        c = layout_gen.propagate_font(rng)
        sources.append(("ufo", {"kind": "ufo", "ufo": c["ufo"]}, f"gen-propagate-{k}"))
    for k in range(3 if tier == "quick" else 12):
        # the DottedCircle filter averages anchor positions over all bases: compared across glyph iteration orders
        c = layout_gen.dotted_circle_font(rng)
        sources.append(("ufo", {"kind": "ufo", "ufo": c["ufo"]}, f"gen-propagate-dc{k}"))
    for k in range(1 if tier == "quick" else 8):
        sources.append(("ds", {"kind": "family", "family": gen.rich_family(rng, n_masters=rng.choice([2, 3]))}, f"gen-fam-{k}"))
    for k in range(1 if tier == "quick" else 6):
        fam = gen.rich_family(rng, n_masters=2)
        fam["variableFonts"] = [{"name": "PlainVF"}, {"name": "NamedVF", "lib": {"public.fontInfo": {
            "familyName": "Renamed Family", "versionMajor": 3, "openTypeOS2VendorID": "ABCD"}}}]
        if k % 2:
            fam["variableFonts"].reverse()
        sources.append(("ds", {"kind": "family", "family": fam}, f"gen-faminfo-{k}"))
    # one options object (ftConfig with a GPOS compaction level) owned by the caller and handed to every call
    sources.append(("ds", {"kind": "family", "family": gen.class_kerning_family(rng)}, "gen-ftconfig-0"))
    fx_u = ["TestFont.ufo", "ColorTest.ufo", "TestMathFont-Regular.ufo"] if tier == "quick" else \
        [os.path.basename(p) for p in sorted(glob.glob(os.path.join(c07.DATA, "*.ufo")))]
    for u in fx_u:
        sources.append(("ufo", {"kind": "ufo-path", "path": os.path.join(c07.DATA, u)}, u))
    fx_d = ["TestVarFont.designspace"] if tier == "quick" else ["TestVarFont.designspace", "NestedComponents.designspace",
                                                                 "TestVarfea.designspace", "SkipExportGlyphsTest.designspace"]
    for d in fx_d:
        sources.append(("ds", {"kind": "ds-path", "path": os.path.join(c07.DATA, d)}, d))
    # nested composites whose intermediate glyph is changed by an EARLIER filter (a lib pre-filter decomposing its scaled
    # component / a skip list removing it) and then flattened: the result may not depend on inplace
    rng2 = random.Random(seed * 179424673 + 80008)
    P = 1024
    for k in range(3 if tier == "quick" else 12):
        sq = lambda x, y, w: [[x * P, y * P, "line"], [(x + w) * P, y * P, "line"], [(x + w) * P, (y + w) * P, "line"], [x * P, (y + w) * P, "line"]]  # noqa
        g = {"A": {"cs": [sq(rng2.randint(0, 50), 0, rng2.randint(100, 200))], "comps": [], "anchors": [], "w": 500 * P, "h": 0, "u": [0x41]},
             "B": {"cs": [], "comps": [{"b": "A", "m": [[128, 0, 0, 128], [64, 0, 0, 64], [-64, 0, 0, 64]][k % 3], "d": [rng2.randint(0, 40) * P, 0]}],
                   "anchors": [], "w": 600 * P, "h": 0, "u": [0x42]},
             "C": {"cs": [], "comps": [{"b": "B", "m": [64, 0, 0, 64], "d": [50 * P, rng2.randint(0, 30) * P]}], "anchors": [], "w": 650 * P, "h": 0, "u": [0x43]},
             "D": {"cs": [], "comps": [{"b": "C", "m": [64, 0, 0, 64], "d": [0, 10 * P]}, {"b": "A", "m": [64, 0, 0, 64], "d": [300 * P, 0]}],
                   "anchors": [], "w": 700 * P, "h": 0, "u": [0x44]}}
        u = {"glyphs": g, "order": ["A", "B", "C", "D"], "info": {"unitsPerEm": 1000, "ascender": 800, "descender": -200, "familyName": "Flat", "styleName": "Regular"}}
        u["lib"] = {"com.github.googlei18n.ufo2ft.filters": [{"name": "decomposeTransformedComponents", "pre": True}]} if k % 3 != 1 else \
                   {"public.skipExportGlyphs": ["B"]}
        sources.append(("ufo", {"kind": "ufo", "ufo": u}, f"gen-flatten-{k}"))
    # contextual mark anchors ('*top' with an identifier that keys a GPOS_Context entry in the glyph's public.objectLibs): what
    # the mark writer generates from them may not depend on whether the compile works on the sources or on copies
    for k in range(2 if tier == "quick" else 8):
        def sqr(x, y, w):
            return [[x * P, y * P, "line"], [(x + w) * P, y * P, "line"], [(x + w) * P, (y + w) * P, "line"], [x * P, (y + w) * P, "line"]]

        ctx = ["f *", "* tildecomb", "f * tildecomb"][k % 3]
        g = {"a": {"cs": [sqr(20, 0, 300)], "comps": [], "w": 500 * P, "h": 0, "u": [0x61],
                   "anchors": [{"n": "top", "x": 250 * P, "y": 500 * P}, {"n": "*top", "x": (200 + 10 * k) * P, "y": 550 * P, "id": "ctx1"}],
                   "lib": {"public.objectLibs": {"ctx1": {"GPOS_Context": ctx}}}},
             "f": {"cs": [sqr(10, 0, 200)], "comps": [], "w": 300 * P, "h": 0, "u": [0x66], "anchors": [{"n": "top", "x": 150 * P, "y": 700 * P}]},
             "acutecomb": {"cs": [sqr(-60, 520, 40)], "comps": [], "w": 0, "h": 0, "u": [0x301],
                           "anchors": [{"n": "_top", "x": -40 * P, "y": 500 * P}, {"n": "top", "x": -40 * P, "y": 650 * P}]},
             "tildecomb": {"cs": [sqr(-70, 520, 50)], "comps": [], "w": 0, "h": 0, "u": [0x303],
                           "anchors": [{"n": "_top", "x": -45 * P, "y": 500 * P}, {"n": "top", "x": -45 * P, "y": 640 * P}]}}
        if k % 2:
            g["acutecomb"]["anchors"].append({"n": "*top", "x": -30 * P, "y": 700 * P, "id": "ctx2"})
            g["acutecomb"]["lib"] = {"public.objectLibs": {"ctx2": {"GPOS_Context": "* tildecomb"}}}
        u = {"glyphs": g, "order": ["a", "f", "acutecomb", "tildecomb"],
             "info": {"unitsPerEm": 1000, "ascender": 800, "descender": -200, "familyName": "Ctx", "styleName": "Regular"}}
        sources.append(("ufo", {"kind": "ufo", "ufo": u}, f"gen-ctx-{k}"))
    out = []
    k = 0
    for kind, src, sid in sources:
        hists = UFO_HISTORIES if kind == "ufo" else DS_HISTORIES
        if sid.startswith("gen-layout") or sid.startswith("gen-propagate"):
            hists = [[("compileTTF", {})]]
        elif sid.startswith("gen-ctx"):
            hists = [[("compileTTF", {})], [("compileTTF", {"inplace": True})], [("compileOTF", {})], [("compileOTF", {"inplace": True})],
                     [("compileTTF", {}), ("compileTTF", {"inplace": True})]]
        elif sid.startswith("gen-flatten"):
            hists = [[("compileTTF", {"flattenComponents": True})], [("compileTTF", {"flattenComponents": True, "inplace": True})],
                     [("compileTTF", {"flattenComponents": True}), ("compileTTF", {"flattenComponents": True, "inplace": True})],
                     [("compileOTF", {})], [("compileOTF", {"inplace": True})]]
        elif sid.startswith("gen-ftconfig"):
            cfgkw = {"ftConfig": "@shared"}
            hists = [[("compileVariableTTF", cfgkw), ("compileVariableTTF", cfgkw)], [("compileVariableTTF", cfgkw)],
                     [("compileVariableCFF2", cfgkw), ("compileVariableTTF", cfgkw)], [("compileInterpolatableTTFsFromDS", cfgkw), ("compileVariableTTF", cfgkw)]]
        elif sid.startswith("gen-faminfo"):
            hists = [[("compileVariableTTFs", {}), ("compileVariableTTFs", {})], [("compileVariableTTFs", {}), ("compileInterpolatableTTFsFromDS", {})],
                     [("compileInterpolatableTTFsFromDS", {})], [("compileVariableCFF2s", {}), ("compileVariableTTFs", {})]]
        elif tier == "quick":
            hists = rng.sample(hists, 4)
        for hi, h in enumerate(hists):
            envs = [(hs, lib, via) for hs in seeds for lib in ("ufoLib2", "defcon") for via in ("memory", "disk")]
            # every history is run in >= 3 environments (quick) / all (thorough)
            if sid.startswith("gen-layout"):
                chosen = [(hs, "ufoLib2", "memory") for hs in ["0", "1", "2", "3", "5", "17", "101", "4242"]] + [(seeds[0], "defcon", "disk")]
            elif sid.startswith("gen-flatten") or sid.startswith("gen-ctx"):
                chosen = [(seeds[0], "ufoLib2", "memory"), (seeds[1], "defcon", "memory")]
            elif sid.startswith("gen-ftconfig"):
                chosen = [(seeds[0], "ufoLib2", "memory"), (seeds[1], "defcon", "memory")]
            elif sid.startswith("gen-faminfo"):
                chosen = [(seeds[0], "ufoLib2", "memory"), (seeds[1], "defcon", "memory"), (seeds[0], "ufoLib2", "disk")]
            elif sid.startswith("gen-propagate"):
                chosen = [(seeds[0], "ufoLib2", "memory"), (seeds[0], "defcon", "memory"), (seeds[1], "defcon", "disk"), (seeds[1], "ufoLib2", "disk")]
            else:
                chosen = rng.sample(envs, 3) if tier == "quick" else envs
            if src["kind"].endswith("-path"):
                chosen = [e for e in chosen if e[2] == "memory"] or chosen[:1]
            for hs, lib, via in chosen:
                out.append({"cid": f"c08-{seed}-{k}", "group": sid.replace("@lib", "@" + lib), "source": src, "lib": lib, "via": via, "hashseed": hs,
                            "history": [{"fn": fn, "kwargs": kw} for fn, kw in h], "stage_snapshots": False,
                            **({"sharedFtConfig": {"fontTools.otlLib.optimize.gpos:COMPRESSION_LEVEL": 9}} if sid.startswith("gen-ftconfig") else {})})
                k += 1
    return out


def execute(case):
    with tempfile.NamedTemporaryFile("w", suffix=".json", delete=False, dir=os.path.join(VERIF, "build")) as f:
        json.dump(case, f)
        path = f.name
    env = dict(os.environ)
    env.update({"PYTHONHASHSEED": case["hashseed"], "UFO2FT_VERIF": "1", "SOURCE_DATE_EPOCH": "1700000000",
                "PYTHONPATH": "/repo/Lib:" + VERIF, "PYTHONWARNINGS": "ignore"})
    try:
        p = subprocess.run([sys.executable, "-m", "harness.purity_exec", path], cwd=VERIF, env=env, capture_output=True,
                           text=True, timeout=600)
    finally:
        os.unlink(path)
    if "@@RESULT@@" not in p.stdout:
        raise RuntimeError("subprocess failed: " + p.stderr[-1500:])
    calls = json.loads(p.stdout.split("@@RESULT@@", 1)[1])
    recs = []
    envtag = f"seed{case['hashseed']}-{case['lib']}-{case['via']}"
    for c in calls:
        recs.append({
            "tid": f"{case['cid']}/{c['k']}", "group": case["group"], "fn": c["fn"], "optsKey": c["optsKey"],
            "content": c["content"], "inplace": c["inplace"], "raised": c["raised"], "outSha": c["outSha"],
            "events": [{"ev": e["ev"], "srcSame": True, "name": e["name"] or "-"} for e in c["events"]],
            "comp": {"useProductionNames": "None", "postProcessorClass": "PostProcessor", "skipFeatureCompilation": False, "ftConfig": ""},
            "_env": envtag, "_src": case["group"], "_sig": [case["group"], c["fn"], c["optsKey"], c["content"], envtag],
            "_tables": c.get("tables"), "_msg": c.get("raisedMsg", ""), "_hist": [h["fn"] for h in case["history"]],
        })
    return recs


_seen_keys = {}


def nontrivial(rec):
    key = (rec["group"], rec["fn"], rec["optsKey"], rec["content"])
    envs = _seen_keys.setdefault(key, set())
    envs.add(rec["_env"])
    return len(envs) >= 2


def classify(rec, pfail, mfail, extra, rep):
    if pfail in ("pure-function", "same-exception"):
        src = rec["_src"]
        if "ColorTest" in src or "COLR" in src:
            rep.known("F-C08-1", "second compile of a colour-layer source on the same object differs / raises KeyError because "
                                 "the first compile left colorLayers in font.lib (consequence of F-C07-2)")
            return "known:F-C08-1"
        if "TestMathFont" in src:
            rep.known("F-C08-2", "second compile of the MATH source differs: MinConnectorOverlap was popped (F-C07-1)")
            return "known:F-C08-2"
    return None
