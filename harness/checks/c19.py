"""C19 -- instances equal masters at master locations and the model's blend elsewhere."""
import copy
import random

from .. import absfont, dsbuild, gen, snapshot
from ..absfont import PS

PROPERTY = "C19"
TRACE_MODULE = "InstTrace"
TRACE_CFG = "InstTrace.cfg"
RULE = ("random compatible master families in the exact domain (2-3 masters on one axis at design locations 0/4/8, default at "
        "either end or in the middle, perturbed coordinates / offsets / advances / anchors, per-master kerning and info, "
        "optionally a glyph left empty in one non-default master) x instance locations 0..8 (master locations, extremes, in between) x "
        "round_geometry on/off x substitution rules with an axis condition; each instance is generated twice from one "
        "Instantiator, after other instances and from a fresh Instantiator in another order; sources are snapshotted; "
        "non-trivial = the location is not a master location; distinct by family digest + location + options")
ASSUMPTIONS = ["single-axis families: the variation model is piecewise linear between adjacent masters (fontTools varLib is environment)",
               "kerning is compared for pairs present in every master"]
SHARDS = 12


def design_checks(tier):
    return [dict(module="VarModelMC", cfg="VarModelMC.cfg", workers=8, timeout=300)]


def _family(rng):
    for _ in range(50):
        base = gen.glyphset(rng, nmin=3, nmax=6, max_depth=2, anchors=True, unicodes=True)
        for g in base.values():
            g["h"] = 0
        nm = rng.choice([2, 3])
        locs = [0, 8] if nm == 2 else [0, 4, 8]
        default = rng.choice(range(nm))
        masters = []
        ok = True
        for k in range(nm):
            gs = base if k == default else gen.perturb_master(rng, base, change_2x2=0.0)
            masters.append(copy.deepcopy(gs))
        # a glyph left EMPTY in one non-default master (the designer has not drawn it there yet): that master is skipped
        # for this glyph -- for outline glyphs and for composites alike
        if nm == 3 and default != 1 and rng.random() < 0.45:
            k = 1     # (the intermediate master: the remaining ones still span the axis, so no location is extrapolated)
            cands = [n_ for n_, g in base.items() if g["cs"] or g["comps"]]
            used = {c["b"] for g in base.values() for c in g["comps"]}
            comp_first = [n_ for n_ in cands if base[n_]["comps"] and not base[n_]["cs"] and n_ not in used]
            pool = comp_first if comp_first and rng.random() < 0.7 else [n_ for n_ in cands if n_ not in used]
            if pool:
                n_ = rng.choice(pool)
                masters[k][n_] = dict(masters[k][n_], cs=[], comps=[], anchors=[])
        # a sparse intermediate master (layer-less here: a master lacking some glyphs is modelled by a full master; sparse
        # layers are exercised by C09/C10)
        names = sorted(base)
        kern = []
        for _k in range(rng.randint(1, 4)):
            l, r = rng.choice(names), rng.choice(names)
            kern.append([l, r])
        kern = [list(x) for x in {tuple(k) for k in kern}]
        kvals = [[rng.randint(-60, 60) * 4 + rng.choice([0, 2]) for _ in kern] for _m in range(nm)]
        if nm >= 2 and rng.random() < 0.3:
            # a (non-default) master that kerns nothing: every pair is 0 there
            k0 = rng.choice([j for j in range(nm) if j != default])
            kvals[k0] = [0 for _ in kern]
        info = [{"ascender": rng.randint(700, 900), "xHeight": rng.randint(400, 600) + rng.choice([0, 0.5]), "capHeight": rng.randint(600, 800)}
                for _m in range(nm)]
        rules = []
        if len(names) >= 2 and rng.random() < 0.5:
            a, b = rng.sample(names, 2)
            rules.append({"name": "r1", "conditionSets": [[{"name": "Weight", "minimum": rng.choice([2, 4, 6]), "maximum": 8}]], "subs": [[a, b]]})
        # groups: kerning groups (the same in every master) and ordinary ones (copied from the default source); rule
        # substitutions rename their members too
        groups = []
        if rng.random() < 0.7:
            groups.append(["public.kern1.grp", gen.subset(rng, names, 0.5) or names[:1]])
            groups.append(["lowercase", gen.subset(rng, names, 0.6) or names[:1]])
            if rules and rng.random() < 0.8:
                groups.append(["swapped", [rules[0]["subs"][0][0], rules[0]["subs"][0][1]]])
        return {"locs": locs, "default": default, "masters": masters, "kern": kern, "kvals": kvals, "info": info, "rules": rules,
                "groups": groups}
    raise RuntimeError


def _family_nd(rng):
    """Two masters at 0 and 10 on an axis 0..10: instance locations 1, 3, 7, 9 have NON-dyadic normalised coordinates.  Every
    coordinate / advance / anchor / kerning / info value of the second master differs from the first by a multiple of 10, so
    that each blend is exactly representable (the first master's value plus an integer).  The implementation computes in
    binary floating point: its results are compared after snapping values within 1e-9 of a representable number (a deviation
    of the location by 1/16384 moves them by >= 1e-4); geometry rounding is off for these families (no float-sensitive ties)."""
    from ..absfont import PS

    for _ in range(50):
        base = gen.glyphset(rng, nmin=3, nmax=5, max_depth=2, anchors=True, unicodes=True)
        for g in base.values():
            g["h"] = 0
        m1 = copy.deepcopy(base)
        for g in m1.values():
            for c in g["cs"]:
                for p in c:
                    p[0] += 10 * rng.randint(-6, 6) * PS
                    p[1] += 10 * rng.randint(-6, 6) * PS
            for c in g["comps"]:
                c["d"][0] += 10 * rng.randint(-6, 6) * PS
                c["d"][1] += 10 * rng.randint(-6, 6) * PS
            for a in g["anchors"]:
                a["x"] += 10 * rng.randint(-6, 6) * PS
                a["y"] += 10 * rng.randint(-6, 6) * PS
            g["w"] += 10 * rng.randint(0, 9) * PS
        names = sorted(base)
        kern = [list(x) for x in {(rng.choice(names), rng.choice(names)) for _k in range(rng.randint(1, 4))}]
        k0 = [rng.randint(-60, 60) * 4 for _ in kern]
        kvals = [k0, [v + 40 * rng.randint(-5, 5) for v in k0]]
        i0 = {"ascender": rng.randint(700, 900), "xHeight": rng.randint(400, 600), "capHeight": rng.randint(600, 800)}
        info = [i0, {a: v + 10 * rng.randint(-5, 5) for a, v in i0.items()}]
        return {"locs": [0, 10], "default": 0, "masters": [base, m1], "kern": kern, "kvals": kvals, "info": info, "rules": [],
                "groups": [], "axisMax": 10, "nd": True}
    raise RuntimeError


def cases(tier, seed):
    n = 60 if tier == "quick" else 800
    rng = random.Random(seed * 334214459 + 19)
    out = []
    for k in range(n):
        fam = _family(rng)
        locs = sorted(rng.sample(range(0, 9), rng.randint(2, 4)))
        out.append({"cid": f"c19-{seed}-{k}", "lib": rng.choice(["ufoLib2", "defcon"]), "fam": fam, "inst_locs": locs,
                    "round": rng.random() < 0.5})
    # two axes declared in an order that is NOT alphabetical ("Weight", then "Optical"), with two off-axis masters in the same
    # quadrant, each inside the other's box: the regions the variation model gives them depend on the axis order
    rng3 = random.Random(seed * 334214459 + 190020)
    for k in range(8 if tier == "quick" else 100):
        for _try in range(20):
            try:
                base = gen.glyphset(rng3, nmin=3, nmax=5, max_depth=1, anchors=True, unicodes=True)
                for g in base.values():
                    g["h"] = 0
                locs2 = [[0, 0], [8, 0], [0, 8], [2, 5], [5, 2]] + ([[8, 8]] if k % 2 else [])
                masters = [base] + [gen.perturb_master(rng3, base, change_2x2=0.0) for _ in locs2[1:]]
                break
            except RuntimeError:
                continue
        names = sorted(base)
        kern = [list(x) for x in {(rng3.choice(names), rng3.choice(names)) for _k in range(rng3.randint(1, 3))}]
        kvals = [[rng3.randint(-60, 60) * 4 for _ in kern] for _m in locs2]
        info = [{"ascender": rng3.randint(700, 900), "xHeight": rng3.randint(400, 600), "capHeight": rng3.randint(600, 800)} for _m in locs2]
        out.append({"cid": f"c19-{seed}-ax{k}", "two": True, "lib": rng3.choice(["ufoLib2", "defcon"]),
                    "axes": ["Weight", "Optical"] if k % 4 != 3 else ["Optical", "Weight"],
                    "fam": {"locs2": locs2, "masters": masters, "kern": kern, "kvals": kvals, "info": info},
                    "inst_locs": [[4, 4], [3, 3], [5, 4], [2, 5], [8, 0], [6, 1]][: 3 + k % 4], "round": True})
    rng2 = random.Random(seed * 334214459 + 190019)
    for k in range(12 if tier == "quick" else 150):
        out.append({"cid": f"c19-{seed}-nd{k}", "lib": rng2.choice(["ufoLib2", "defcon"]), "fam": _family_nd(rng2),
                    "inst_locs": sorted(rng2.sample([0, 1, 3, 7, 9, 10], 3)), "round": False})
    return out


def _build(case):
    fam = case["fam"]
    masters = []
    for k, gs in enumerate(fam["masters"]):
        ufo = {"glyphs": gs, "order": sorted(gs), "glyphNames": sorted(gs),
               "info": dict(unitsPerEm=1000, descender=-200, familyName="InstTest", styleName=f"M{k}", **fam["info"][k]),
               "kerning": ([] if fam["kern"] and not any(fam["kvals"][k]) else
                           [[l, r, fam["kvals"][k][j]] for j, (l, r) in enumerate(fam["kern"])]), "kernScale": 4,
               "groups": [list(g) for g in fam.get("groups", [])]}
        masters.append({"loc": {"Weight": fam["locs"][k]}, "ufo": ufo, "name": f"M{k}"})
    d = fam["locs"][fam["default"]]
    family = {"axes": [{"name": "Weight", "tag": "wght", "min": 0, "default": d, "max": fam.get("axisMax", 8)}], "masters": masters,
              "rules": fam["rules"]}
    return dsbuild.build_designspace(family, case["lib"])


def _instance(ds, inst, loc):
    from fontTools.designspaceLib import InstanceDescriptor

    i = InstanceDescriptor()
    i.location = {"Weight": loc}
    i.familyName = "InstTest"
    i.styleName = f"W{loc}"
    return inst.generate_instance(i)


def _proj(font):
    gs = absfont.abs_glyphset({g.name: g for g in font})
    return gs


def _snap(font):
    """remove binary floating-point noise: a value within 1e-9 of a multiple of 1/4 becomes that multiple (in place)"""
    def sn(v):
        r = round(v * 4) / 4
        return r if abs(v - r) < 1e-9 else v

    for g in font:
        g.width = sn(g.width)
        for c in g:
            for p in (c.points if hasattr(c, "points") else c):
                p.x, p.y = sn(p.x), sn(p.y)
        for c in g.components:
            t = tuple(c.transformation)
            c.transformation = tuple(sn(v) for v in t)
        for a in g.anchors:
            a.x, a.y = sn(a.x), sn(a.y)
    for k_ in list(font.kerning.keys()):
        font.kerning[k_] = sn(font.kerning[k_])
    for a in ("ascender", "xHeight", "capHeight", "descender"):
        v = getattr(font.info, a, None)
        if v is not None:
            setattr(font.info, a, sn(v))
    return font


def _execute_two(case):
    """two-axis families: instances against the variation model evaluated by the harness on the raw master values"""
    import math

    from fontTools.designspaceLib import InstanceDescriptor
    from fontTools.varLib.models import VariationModel

    from ufo2ft.instantiator import Instantiator

    fam = case["fam"]
    ax = case["axes"]          # declaration order; locs2 entries are (Weight, Optical)
    val = lambda loc, name: loc[0] if name == "Weight" else loc[1]  # noqa
    masters = []
    for k, gs in enumerate(fam["masters"]):
        ufo = {"glyphs": gs, "order": sorted(gs), "glyphNames": sorted(gs),
               "info": dict(unitsPerEm=1000, descender=-200, familyName="Inst2", styleName=f"M{k}", **fam["info"][k]),
               "kerning": [[l, r, fam["kvals"][k][j]] for j, (l, r) in enumerate(fam["kern"])], "kernScale": 4}
        masters.append({"loc": {"Weight": fam["locs2"][k][0], "Optical": fam["locs2"][k][1]}, "ufo": ufo, "name": f"M{k}"})
    family = {"axes": [{"name": n_, "tag": {"Weight": "wght", "Optical": "opsz"}[n_], "min": 0, "default": 0, "max": 8} for n_ in ax],
              "masters": masters}
    ds = dsbuild.build_designspace(family, case["lib"])
    fonts = [s.font for s in ds.sources]
    before = [snapshot.font_snapshot(f) for f in fonts]
    masters_abs = [_proj(f) for f in fonts]
    inst = Instantiator.from_designspace(ds, round_geometry=True)
    model = VariationModel([{n_: val(l, n_) / 8 for n_ in ax} for l in fam["locs2"]], axisOrder=list(ax))
    otr = lambda v: int(math.floor(v + 0.5))  # noqa
    recs = []
    for loc in case["inst_locs"]:
        i = InstanceDescriptor()
        i.location = {"Weight": loc[0], "Optical": loc[1]}
        i.familyName, i.styleName = "Inst2", f"W{loc[0]}O{loc[1]}"
        tid = f"{case['cid']}/{loc[0]}-{loc[1]}"
        try:
            f = inst.generate_instance(i)
            _snap(f)                # (2x2 entries are blended, not rounded: remove binary floating-point noise)
            gs = _proj(f)
        except Exception as e:  # noqa
            recs.append({"tid": tid, "err": type(e).__name__ + ": " + str(e)[:160], "loc": -1, "locs": [0], "_sig": [case["cid"], str(loc)]})
            continue
        nloc = {n_: val(loc, n_) / 8 for n_ in ax}
        tie = [False]

        def blend(values):          # values at scale PS -> rounded blend at scale PS
            v = model.interpolateFromMasters(nloc, [x / PS for x in values])
            if abs((v % 1) - 0.5) < 1e-6:
                tie[0] = True
            return otr(v) * PS

        exp = {}
        for n_, g0 in masters_abs[0].items():
            ms = [m[n_] for m in masters_abs]
            g = copy.deepcopy(g0)
            for ci, c in enumerate(g["cs"]):
                for pi, p in enumerate(c):
                    p[0] = blend([m["cs"][ci][pi][0] for m in ms])
                    p[1] = blend([m["cs"][ci][pi][1] for m in ms])
            for ci, c in enumerate(g["comps"]):
                c["d"] = [blend([m["comps"][ci]["d"][0] for m in ms]), blend([m["comps"][ci]["d"][1] for m in ms])]
            for ai, a in enumerate(g["anchors"]):
                a["x"] = blend([m["anchors"][ai]["x"] for m in ms])
                a["y"] = blend([m["anchors"][ai]["y"] for m in ms])
            g["w"] = blend([m["w"] for m in ms])
            exp[n_] = g

        def blend_plain(values, away=False):      # plain numbers -> rounded blend at scale 32
            v = model.interpolateFromMasters(nloc, list(values))
            if abs((v % 1) - 0.5) < 1e-6:
                tie[0] = True
            r = (-otr(-v) if (away and v < 0) else otr(v))
            return r * 32

        exp_kern = [[l, r, blend_plain([fam["kvals"][m][j] / 4 for m in range(len(masters))], away=True)] for j, (l, r) in enumerate(fam["kern"])]
        inst_kern = [[l, r, absfont.to_scaled(f.kerning.get((l, r), 0), 32)] for (l, r) in fam["kern"]]
        exp_info = {a: blend_plain([fam["info"][m][a] for m in range(len(masters))]) for a in ("ascender", "xHeight", "capHeight")}
        inst_info = {a: absfont.to_scaled(getattr(f.info, a), 32) for a in ("ascender", "xHeight", "capHeight")}
        if tie[0]:
            recs.append({"tid": tid, "skip": True, "why": "a blend within 1e-6 of a rounding tie"})
            continue
        on_master = loc in fam["locs2"]
        recs.append({"tid": tid, "locs": [0], "default": 1, "masters": masters_abs, "loc": -1 if not on_master else 0, "round": True, "inst": gs,
                     "swaps": [], "kern": [], "instKern": inst_kern, "expKern": exp_kern, "info": [], "instInfo": inst_info, "expInfo": exp_info,
                     "expected2": exp, "srcSame": before == [snapshot.font_snapshot(x) for x in fonts], "groups": [], "instGroups": [],
                     "repeatSame": True, "orderSame": True, "swapTwiceSame": True, "_sig": [case["cid"], str(loc)]})
    return recs


def execute(case):
    if case.get("two"):
        return _execute_two(case)
    from fontTools.designspaceLib import evaluateRule

    from ufo2ft.instantiator import Instantiator, swap_glyph_names

    fam = case["fam"]
    ds = _build(case)
    fonts = [s.font for s in ds.sources]
    before = [snapshot.font_snapshot(f) for f in fonts]
    masters_abs = [_proj(f) for f in fonts]
    inst = Instantiator.from_designspace(ds, round_geometry=case["round"])
    recs = []
    results = {}
    try:
        for loc in case["inst_locs"]:
            results[loc] = _instance(ds, inst, loc)
        # a fresh instantiator, other order
        ds2 = _build(case)
        inst2 = Instantiator.from_designspace(ds2, round_geometry=case["round"])
        other = {}
        for loc in reversed(case["inst_locs"]):
            other[loc] = _instance(ds2, inst2, loc)
    except Exception as e:  # noqa -- a compatible family must instantiate
        return [{"tid": f"{case['cid']}/err", "err": type(e).__name__ + ": " + str(e)[:160], "loc": -1, "locs": fam["locs"], "_sig": [case["cid"], "err"]}]
    src_same = before == [snapshot.font_snapshot(f) for f in fonts]
    for loc in case["inst_locs"]:
        f = results[loc]
        again = _instance(ds, inst, loc)
        if fam.get("nd"):
            _snap(f), _snap(again), _snap(other[loc])
        try:
            gs = _proj(f)
        except absfont.Inexact as e:
            if fam.get("nd"):
                # by construction every blend of this family is a multiple of 1/2: a value that is not is not the blend
                recs.append({"tid": f"{case['cid']}/{loc}", "err": "instance value is not the (representable) blend: " + str(e)[:100],
                             "loc": loc, "locs": fam["locs"], "_sig": [case["cid"], loc]})
                continue
            recs.append({"tid": f"{case['cid']}/{loc}", "skip": True, "why": str(e)})
            continue
        swaps = []
        for r in ds.rules:
            if evaluateRule(r, {"Weight": loc}):
                for a, b in r.subs:
                    if a in gs and a != b:
                        swaps.append([a, b])
        smap = {}
        for a, b in swaps:
            smap[a], smap[b] = b, a
        inst_kern = []
        ok_k = True
        for j, (l, r) in enumerate(fam["kern"]):
            key = (smap.get(l, l), smap.get(r, r))
            v = f.kerning.get(key, 0)
            try:
                inst_kern.append([l, r, absfont.to_scaled(v, 32)])
            except absfont.Inexact:
                ok_k = False
        info = {}
        try:
            for a in ("ascender", "xHeight", "capHeight"):
                info[a] = absfont.to_scaled(getattr(f.info, a), 32)
        except absfont.Inexact:
            info = {}
        # swap twice restores
        twice = True
        if swaps:
            c = _instance(ds2, inst2, loc)
            ref = snapshot.font_snapshot(c)
            a, b = swaps[0]
            swap_glyph_names(c, a, b)
            swap_glyph_names(c, a, b)
            twice = snapshot.font_snapshot(c) == ref
        rec = {"tid": f"{case['cid']}/{loc}", "locs": fam["locs"], "default": fam["default"] + 1, "masters": masters_abs,
               "loc": loc, "round": case["round"], "inst": gs, "swaps": swaps,
               "kern": [[[l, r, fam["kvals"][m][j]] for j, (l, r) in enumerate(fam["kern"])] for m in range(len(fam["locs"]))],
               "instKern": inst_kern if ok_k else [],
               "info": [{a: absfont.to_scaled(fam["info"][m][a], 4) for a in info} for m in range(len(fam["locs"]))],
               "instInfo": info, "srcSame": src_same,
               "groups": [[n_, list(m_)] for n_, m_ in fam.get("groups", [])],
               "instGroups": [[n_, list(f.groups.get(n_, []))] for n_, m_ in fam.get("groups", [])],
               "repeatSame": snapshot.font_snapshot(again) == snapshot.font_snapshot(f),
               "orderSame": snapshot.font_snapshot(other[loc]) == snapshot.font_snapshot(f),
               "swapTwiceSame": twice, "_sig": [case["cid"], loc]}
        if not ok_k:
            rec["kern"] = [[] for _ in fam["locs"]]
        recs.append(rec)
    return recs


def preclassify(rec, rep):
    if rec.get("skip"):
        rep.notes["skipped"] = rep.notes.get("skipped", 0) + 1
        return "skip"


def nontrivial(rec):
    return rec["loc"] not in rec["locs"]


def classify(rec, pfail, mfail, extra, rep):
    if pfail != "none":
        rep.notes.setdefault("witnesses", []).append({"tid": rec["tid"], "clause": pfail, "bad": extra[0] if extra else ""})
    return None
