"""C11 -- production names rename glyphs and change nothing else."""
import random

from .. import absfont, gen, layout_gen, project

PROPERTY = "C11"
TRACE_MODULE = "NamesTrace"
TRACE_CFG = "NamesTrace.cfg"
RULE = ("random glyph-name sets (suffixes, ligature underscores, names colliding with generated uniXXXX / '.N' names incl. chains "
        "where the de-duplicated name N.1 itself collides with a later glyph, names longer "
        "than 63 characters) x public.postscriptNames maps (duplicates, empty values, illegal characters, > 63 characters) x lib "
        "switches (useProductionNames, keepGlyphNames, the Glyphs legacy key) and the argument x {TTF, CFF, CFF2, variable TTF, variable CFF2}, with kerning, "
        "GSUB and cmap present so that every table refers to glyph indices; both fonts are saved and every table's raw bytes are "
        "compared (head.checkSumAdjustment masked); non-trivial = at least one glyph is renamed; distinct by digest of names + "
        "lib + flavour")
ASSUMPTIONS = ["names are compared as code point sequences", "static fonts; the variable-font path uses the same PostProcessor (covered by C10 cases with production names)"]

POOL = [("A", 0x41), ("B", 0x42), ("a", 0x61), ("a.alt", None), ("a.sc", None), ("f", 0x66), ("i", 0x69), ("f_i", None), ("f_i.alt", None),
        ("uni0041", None), ("uni0041.1", None), ("A.1", None), ("A.1.1", None), ("x" * 70, None), ("a.sc.alt", None), ("q.sc", 0x51), ("q.sc.alt", None), ("a.sc.alt.x", None), ("emoji", 0x1F600), ("e_moji", None), ("f_emoji", None), ("emoji_f_i", None), ("emoji_emoji.alt", None),
        ("space", 0x20), ("f_f_i", None), ("a-b", None), ("f-i.alt", None), ("c+d", 0x63), ("Aring-ko", 0xC5), ("a_a.alt", None), ("Aacute", 0xC1), ("Aacute.ss01", None)]
PS_VALUES = ["Alpha", "Alpha", "Alpha.1", "uni0041", "we!rd(name)", "", "x" * 70, "A", "A.1", "B", "ok_name", "é", "a.alt"]


def design_checks(tier):
    return [dict(module="NamesMC", cfg="NamesMC.cfg", workers=8, timeout=300)]


def cases(tier, seed):
    n = 110 if tier == "quick" else 1500
    rng = random.Random(seed * 295075147 + 11)
    out = []
    for k in range(n):
        items = rng.sample(POOL, rng.randint(3, 10))
        nonbmp_liga = rng.random() < 0.25
        if nonbmp_liga:
            # ligatures with a part outside the BMP (such a name cannot use the compact uniXXXXYYYY form)
            want = [("emoji", 0x1F600), ("f", 0x66), rng.choice([("f_emoji", None), ("emoji_f_i", None), ("emoji_emoji.alt", None)])] + ([("i", 0x69)] if rng.random() < 0.7 else [])
            items = [it for it in items if it[0] not in {w[0] for w in want}] + want
            rng.shuffle(items)
        if rng.random() < 0.3:
            # a chain of collisions: X gets the generated name N, Y is literally named N (made unique as N.1) and a glyph
            # literally named N.1 comes later still (and sometimes N.1.1 / N.2 after that)
            chain = [("a-cy", 0x430), ("uni0430", None), ("uni0430.1", None)] + rng.sample([("uni0430.1.1", None), ("uni0430.2", None)], rng.randint(0, 2))
            if rng.random() < 0.3:
                rng.shuffle(chain)
            items = [it for it in items if it[0] not in {c[0] for c in chain}]
            pos = rng.randint(0, len(items))
            items[pos:pos] = chain
        if rng.random() < 0.25:
            # several dot-suffixes: the base of 'a.sc.alt' is 'a.sc' (which may have a code point of its own), not 'a'
            want = [("a", 0x61), ("a.sc", 0x1D00 if rng.random() < 0.6 else None), ("a.sc.alt", None)] + ([("q.sc", 0x51), ("q.sc.alt", None)] if rng.random() < 0.5 else [])
            items = [it for it in items if it[0] not in {w[0] for w in want}] + want
            rng.shuffle(items)
        names = [nm for nm, _ in items]
        glyphs = {}
        for gi, (nm, cp) in enumerate(items):
            glyphs[nm] = {"cs": [layout_gen.box(50, 0, 100 + 10 * gi, 300 + 7 * gi)], "comps": [], "anchors": [], "w": rng.randint(200, 700) * 1024, "h": 0, "u": [cp] if cp else []}
        lib = {}
        r = rng.random()
        if r < 0.55:
            lib["public.postscriptNames"] = {nm: (("y" * 70) if (rng.random() < 0.4 and not nm.replace("_", "").replace(".", "").isalnum()) else rng.choice(PS_VALUES))
                                             for nm in names if rng.random() < 0.7}
        elif r < 0.65:
            lib["public.postscriptNames"] = {}
        if len(names) >= 3 and rng.random() < 0.2:
            # supplied names that are other glyphs' CURRENT names (a rotation / swap / chain): renaming must go through a
            # fresh mapping, not update the tables' name-keyed data in place
            rot = rng.sample(names, rng.randint(2, min(4, len(names))))
            lib["public.postscriptNames"] = dict(lib.get("public.postscriptNames") or {})
            for a_, b_ in zip(rot, rot[1:] + (rot[:1] if rng.random() < 0.7 else [])):
                lib["public.postscriptNames"][a_] = b_
        if nonbmp_liga and rng.random() < 0.7:
            lib.pop("public.postscriptNames", None)       # names are then derived from the code points
        kwargs_on = {}
        mode = rng.choice(["arg", "arg", "lib-true", "lib-false", "glyphs-legacy", "default", "keepnames-false"])
        if mode == "arg":
            kwargs_on["useProductionNames"] = True
        elif mode == "lib-true":
            lib["com.github.googlei18n.ufo2ft.useProductionNames"] = True
        elif mode == "lib-false":
            lib["com.github.googlei18n.ufo2ft.useProductionNames"] = False
        elif mode == "glyphs-legacy":
            lib["com.schriftgestaltung.Don't use Production Names"] = True
        elif mode == "keepnames-false":
            lib["com.github.googlei18n.ufo2ft.keepGlyphNames"] = False
        ufo = {"glyphs": glyphs, "order": names, "glyphNames": names,
               "info": {"unitsPerEm": 1000, "ascender": 800, "descender": -200, "familyName": "NameTest", "styleName": "Regular"},
               "lib": lib}
        if len(names) >= 2:
            ufo["kerning"] = [[names[0], names[1], -80]]
            ufo["kernScale"] = 4
        if "a" in names and "a.alt" in names:
            ufo["fea"] = "feature ss01 { sub a by a.alt; } ss01;"
        flavor = rng.choice(["tt", "cff", "cff2", "tt", "cff", "cff2", "vf-tt", "vf-cff2"])
        out.append({"cid": f"c11-{seed}-{k}", "lib": rng.choice(["ufoLib2", "defcon"]), "ufo": ufo, "flavor": flavor,
                    "kwargs_on": kwargs_on, "mode": mode})
    # the keepGlyphNames lib key only speaks when the argument is silent: the same sources as the "arg" cases with
    # keepGlyphNames = False in the lib and the explicit argument (True for the renamed font, False for the reference)
    import copy

    for c in [c for c in out if c["mode"] == "arg"][: (12 if tier == "quick" else 150)]:
        d = copy.deepcopy(c)
        d["cid"] = c["cid"] + "-kn"
        d["mode"] = "arg+keepnames-false"
        d["ufo"]["lib"]["com.github.googlei18n.ufo2ft.keepGlyphNames"] = False
        out.append(d)
    return out


def _expect_rename(case):
    lib = case["ufo"]["lib"]
    if "useProductionNames" in case["kwargs_on"]:
        return bool(case["kwargs_on"]["useProductionNames"])
    if lib.get("com.github.googlei18n.ufo2ft.keepGlyphNames", True) is False:
        return None  # names are dropped altogether (TTF / CFF2)
    key = "com.github.googlei18n.ufo2ft.useProductionNames"
    if key in lib:
        return bool(lib[key])
    return (not lib.get("com.schriftgestaltung.Don't use Production Names")) and lib.get("public.postscriptNames") is not None


def execute(case):
    import ufo2ft

    def cps(s):
        return [ord(ch) for ch in s]

    fonts = {}
    for variant in ("off", "on"):
        font = absfont.build_font(case["ufo"], case["lib"])
        kw = {"useProductionNames": False} if variant == "off" else dict(case["kwargs_on"])
        if case["flavor"].startswith("vf"):
            # the same UFO as the default of a two-master family: the variable font goes through the same post-processor
            from .. import layout_exec

            ds, _ = layout_exec._two_master_family({"ufo": case["ufo"], "lib": case["lib"]})
            otf = (ufo2ft.compileVariableTTF if case["flavor"] == "vf-tt" else ufo2ft.compileVariableCFF2)(ds, **kw)
        elif case["flavor"] == "tt":
            otf = ufo2ft.compileTTF(font, **kw)
        else:
            otf = ufo2ft.compileOTF(font, cffVersion=2 if case["flavor"] == "cff2" else 1, **kw)
        data, f2 = project.save_reload(otf)
        fonts[variant] = (data, f2)
    def drawn(f):
        from fontTools.pens.recordingPen import RecordingPen

        gs = f.getGlyphSet()
        out = []
        for n in f.getGlyphOrder():
            pen = RecordingPen()
            gs[n].draw(pen)
            out.append(repr(pen.value))
        return out

    outlines_same = drawn(fonts["off"][1]) == drawn(fonts["on"][1])
    exp = _expect_rename(case)
    toff, ton = project.table_digests(fonts["off"][0]), project.table_digests(fonts["on"][0])
    diff = sorted(t for t in set(toff) | set(ton) if toff.get(t) != ton.get(t))
    off, on = fonts["off"][1].getGlyphOrder(), fonts["on"][1].getGlyphOrder()
    if exp is None:
        # keepGlyphNames = False: TTF / CFF2 carry no names (post format 3); CFF 1 keeps them un-renamed
        return [{"tid": case["cid"], "off": [cps(n) for n in off], "on": [cps(n) for n in off], "glyphs": [], "ps": [], "usePs": False,
                 "expectRename": False, "diffTables": [t for t in diff if t not in ("post",)] if case["flavor"] != "cff" else diff,
                 "outlinesSame": outlines_same, "_mode": case["mode"]}]
    ps = case["ufo"]["lib"].get("public.postscriptNames")
    return [{"tid": case["cid"], "off": [cps(n) for n in off], "on": [cps(n) for n in on],
             "glyphs": [{"name": cps(n), "uni": (g["u"][0] if g["u"] else -1)} for n, g in case["ufo"]["glyphs"].items()],
             "ps": [{"name": cps(k), "value": cps(v)} for k, v in (ps or {}).items()], "usePs": bool(ps),
             "expectRename": bool(exp), "diffTables": diff, "outlinesSame": outlines_same, "_mode": case["mode"], "_sig": [case["cid"]]}]


def nontrivial(rec):
    return rec["on"] != rec["off"]
