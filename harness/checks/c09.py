"""C09 -- interpolatable compilation keeps compatible masters compatible."""
import copy
import random

from .. import absfont, dsbuild, gen, project, tracer
from . import c02

PROPERTY = "C09"
TRACE_MODULE = "MastersTrace"
TRACE_CFG = "MastersTrace.cfg"
ACCEPTORS = {"_default": ("MastersTrace", "MastersTrace.cfg"), "vf": ("VFTrace", "VFTrace.cfg"),
             "vfsplit": ("VFSplitTrace", "VFSplitTrace.cfg")}
RULE = ("random families of 2-3 point-compatible masters (a random exact-domain master + perturbations: moved points, offsets, "
        "advances; cubic, quadratic and mixed curves; a component whose 2x2 differs in one master only; mixed glyphs; nested "
        "components) plus optionally a sparse layer master holding a subset of glyphs x {compileInterpolatableTTFs, "
        "compileInterpolatableTTFsFromDS, compileInterpolatableOTFsFromDS} x flattenComponents x skipExportGlyphs (designspace "
        "lib) x a custom lib filter; per-glyph point structure of every compiled master is projected; non-trivial = the family "
        "has a composite glyph; distinct by family digest + path + options")
ASSUMPTIONS = ["cu2qu and varLib instancing of sparse composites are environment; their joint behaviour is observed at the hook events"]
SHARDS = 12
import os
TIE_PROB = float(os.environ.get("C09_TIE_PROB", "0.5"))


def design_checks(tier):
    # VFSplit: which sources a designspace-v5 build compiles together (joint decisions for every variable font sharing a
    # master) and where each variable font takes its info from; the two must-fail configurations are designs that look
    # equivalent (compile per variable font / look the default up once per sub-space)
    return [dict(module="FiltersMC", cfg="FiltersMC_tt.cfg", workers=8, timeout=300),
            dict(module="VFSplit", cfg="VFSplit.cfg", workers=8, timeout=600),
            dict(module="VFSplit", cfg="VFSplit_pervf.cfg", workers=4, timeout=300, expect_violation="JointDecisions"),
            dict(module="VFSplit", cfg="VFSplit_hoist.cfg", workers=4, timeout=300, expect_violation="BaseIsOwnDefault")]


def cases(tier, seed):
    n = 80 if tier == "quick" else 900
    rng = random.Random(seed * 353868013 + 9)
    out = []
    for k in range(n):
        path = rng.choice(["TTFs", "TTFsFromDS", "TTFsFromDS", "OTFsFromDS", "OTFsFromDS"])
        # one case in eight: TrueType from a designspace whose sparse master is a UFO of its own holding a composite (kept as a
        # composite: same 2x2 everywhere, nothing skipped or flattened) without its bases
        force_sa = k % 8 == 5
        force_nested = k % 8 == 2       # (the directed patterns below get a fixed share of the cases, whatever the random draws)
        force_directed = k % 8 == 6
        if force_sa or force_nested or force_directed:
            path = "TTFsFromDS"
        kinds = ["line", "cubic", "mixed"] if path == "OTFsFromDS" else ["line", "quad", "cubic", "mixed"]
        base = gen.glyphset(rng, nmin=3, nmax=6, max_depth=2, kinds=kinds, palette=c02.PALETTE_TT, unicodes=True)
        directed = None
        if path == "TTFsFromDS" and not force_sa and not force_nested and (force_directed or rng.random() < 0.2):
            # a sparse master that holds a MIXED glyph and a composite of the same base but not the base itself: the base is
            # interpolated on the fly when the mixed glyph is decomposed (before the curve conversion) and again when a
            # post filter decomposes the composite (after it)
            simple = [n_ for n_ in sorted(base) if base[n_]["cs"] and not base[n_]["comps"]]
            if simple:
                b_ = rng.choice(simple)
                P = absfont.PS
                base["mx"] = {"cs": [[[0, 0, "line"], [40 * P, 0, "line"], [40 * P, 30 * P, "line"]]],
                              "comps": [{"b": b_, "m": [64, 0, 0, 64], "d": [rng.randint(-40, 40) * P, 0]}], "anchors": [], "w": 500 * P, "h": 0, "u": []}
                base["cx"] = {"cs": [], "comps": [{"b": b_, "m": list(rng.choice([[64, 0, 0, 64], [-64, 0, 0, 64]])), "d": [0, rng.randint(-40, 40) * P]}],
                              "anchors": [], "w": 500 * P, "h": 0, "u": []}
                directed = b_
        nested = None
        if path == "TTFsFromDS" and not directed and not force_sa and (force_nested or rng.random() < 0.15):
            # flattenComponents with a sparse master that holds a NESTED composite but not the intermediate composite it goes
            # through (barcolon = bar + colon, colon = dot + dot; the sparse layer has barcolon only)
            simple = [n_ for n_ in sorted(base) if base[n_]["cs"] and not base[n_]["comps"]]
            if len(simple) >= 2:
                P = absfont.PS
                d_, b_ = simple[0], simple[1]
                base["colonx"] = {"cs": [], "comps": [{"b": d_, "m": [64, 0, 0, 64], "d": [0, 0]}, {"b": d_, "m": [64, 0, 0, 64], "d": [0, 300 * P]}],
                                  "anchors": [], "w": 300 * P, "h": 0, "u": []}
                base["barcolonx"] = {"cs": [], "comps": [{"b": b_, "m": [64, 0, 0, 64], "d": [0, 0]}, {"b": "colonx", "m": [64, 0, 0, 64], "d": [rng.randint(100, 300) * P, 0]}],
                                     "anchors": [], "w": 600 * P, "h": 0, "u": []}
                nested = (d_, b_)
        nm = rng.choice([2, 3])
        masters = [base] + [gen.perturb_master(rng, base, palette=c02.PALETTE_TT, change_2x2=0.12 if path != "OTFsFromDS" and not force_sa else 0.0)
                            for _ in range(nm - 1)]
        sparse = None
        want_standalone = False
        if path != "TTFs" and (force_sa or rng.random() < 0.4):
            names = sorted(base)
            pick = [n_ for n_ in names if rng.random() < 0.4] or names[:1]
            want_standalone = force_sa or rng.random() < 0.5
            if want_standalone:
                # a composite that stays a composite, WITHOUT its bases: the sparse master needs placeholders for them
                pure = [n_ for n_ in names if base[n_]["comps"] and not base[n_]["cs"]]
                if pure:
                    c_ = rng.choice(pure)
                    pick = sorted((set(pick) | {c_}) - {cc["b"] for cc in base[c_]["comps"]})
            sp = gen.perturb_master(rng, {n_: base[n_] for n_ in names}, change_2x2=0.0)
            sparse = {n_: sp[n_] for n_ in pick}
        if nested:
            names = sorted(base)
            sp = gen.perturb_master(rng, {n_: base[n_] for n_ in names}, change_2x2=0.0)
            pick = {"barcolonx"} | ({nested[1]} if rng.random() < 0.5 else set())
            sparse = {n_: sp[n_] for n_ in sorted(pick)}
        if directed:
            names = sorted(base)
            sp = gen.perturb_master(rng, {n_: base[n_] for n_ in names}, change_2x2=0.0)
            pick = {"mx", "cx"} | {n_ for n_ in names if n_ != directed and rng.random() < 0.25}
            sparse = {n_: sp[n_] for n_ in sorted(pick)}
        # a tie that exists in ONE master only: two consecutive on-curve points coincide (a collapsed notch), in the
        # other masters they are distinct -- any per-master decision to drop the zero-length segment breaks compatibility
        if rng.random() < (0.8 if path == "OTFsFromDS" else TIE_PROB):
            which = rng.randrange(nm)
            for g in masters[which].values():
                for c in g["cs"]:
                    idx = [i for i in range(1, len(c)) if c[i][2] == "line" and c[i - 1][2] != "off"]
                    if idx and rng.random() < 0.7:
                        i = rng.choice(idx)
                        c[i][0], c[i][1] = c[i - 1][0], c[i - 1][1]
        kwargs = {}
        if path == "OTFsFromDS":
            kwargs["optimizeCFF"] = rng.choice([0, 1])     # (subroutinisation is not meant for interpolatable masters)
        if "TTF" in path and not force_sa and (nested or rng.random() < 0.4):
            kwargs["flattenComponents"] = True
        skip = []
        if path != "TTFs" and not force_sa and rng.random() < 0.3:
            skip = gen.subset(rng, sorted(base), 0.25)
            if len(skip) == len(base):
                skip = skip[:-1]
        post = []
        if directed:
            post = [{"name": "decomposeComponents", "pre": False, "include": ["cx"]}]
            if rng.random() < 0.5 and not skip:
                skip = [n_ for n_ in sorted(base) if n_ not in ("mx", "cx", directed) and not base[n_]["comps"]
                        and not any(c["b"] == n_ for g in base.values() for c in g["comps"])][:1]
        elif path != "TTFs" and rng.random() < 0.35:
            # a custom POST filter (lib key of every source) that decomposes some composites after the curve conversion:
            # their bases are interpolated on the fly for sparse masters, from outlines that earlier stages have changed
            comps_ = [n_ for n_ in sorted(base) if base[n_]["comps"] and n_ not in skip]
            if comps_:
                post = [{"name": "decomposeComponents", "pre": False, "include": gen.subset(rng, comps_, 0.6) or comps_[:1]}]
        out.append({"cid": f"c09-{seed}-{k}", "lib": rng.choice(["ufoLib2", "defcon"]), "path": path, "masters": masters,
                    "sparse": sparse, "kwargs": kwargs, "skip": skip, "post": post,
                    "sparseUfo": bool(sparse) and not directed and not nested and want_standalone})
    # several variable fonts cut from one designspace share masters: joint decisions (which composites become contours, how
    # many quadratic segments a cubic needs) are taken over ALL masters of the interpolable space, not per variable font
    from . import c10

    out += c10.vfs_cases(random.Random(seed * 353868013 + 90009), 5 if tier == "quick" else 50, f"c09-{seed}")
    out += _vfsplit_cases(random.Random(seed * 353868013 + 90010), 14 if tier == "quick" else 200, f"c09-{seed}")
    # flattenComponents over a NESTED composite X -> Y where Y is composed of two components in one master and, in the other,
    # draws the first of them as its own contour (Y is "mixed" there): Y becomes contours in every master, X keeps ONE
    # reference to Y in every master
    rng4 = random.Random(seed * 353868013 + 90011)
    P = absfont.PS
    for k in range(8 if tier == "quick" else 80):
        def sq(x, y, w, h):
            return [[x * P, y * P, "line"], [(x + w) * P, y * P, "line"], [(x + w) * P, (y + h) * P, "line"], [x * P, (y + h) * P, "line"]]

        masters = []
        nm = 2 + k % 2
        mixed_in = {1} if nm == 2 else ({1}, {0, 2}, {2})[k % 3]
        for j in range(nm):
            w1, w2 = 100 + 10 * j + rng4.randint(0, 4) * 2, 40 + 4 * j
            a = {"cs": [sq(0, 0, w1, 20)], "comps": [], "anchors": [], "w": 300 * P, "h": 0, "u": [0x61]}
            b = {"cs": [sq(10, 0, w2, w2)], "comps": [], "anchors": [], "w": 200 * P, "h": 0, "u": [0x62]}
            c = {"cs": [sq(0, 0, 200 + 10 * j, 300)], "comps": [], "anchors": [], "w": 400 * P, "h": 0, "u": [0x63]}
            off = [2 * rng4.randint(0, 20) * P, (60 + 2 * j) * P]
            if j in mixed_in:
                y = {"cs": [copy.deepcopy(a["cs"][0])], "comps": [{"b": "b", "m": [64, 0, 0, 64], "d": list(off)}], "anchors": [], "w": 300 * P, "h": 0, "u": []}
            else:
                y = {"cs": [], "comps": [{"b": "a", "m": [64, 0, 0, 64], "d": [0, 0]}, {"b": "b", "m": [64, 0, 0, 64], "d": list(off)}],
                     "anchors": [], "w": 300 * P, "h": 0, "u": []}
            x = {"cs": [], "comps": [{"b": "c", "m": [64, 0, 0, 64], "d": [0, 0]}, {"b": "y", "m": [64, 0, 0, 64], "d": [20 * P, (320 + 4 * j) * P]}],
                 "anchors": [], "w": 400 * P, "h": 0, "u": [0x78]}
            masters.append({"a": a, "b": b, "c": c, "y": y, "x": x})
        out.append({"cid": f"c09-{seed}-fl{k}", "lib": rng4.choice(["ufoLib2", "defcon"]), "path": ["TTFs", "TTFsFromDS"][k % 2], "masters": masters,
                    "sparse": None, "kwargs": {"flattenComponents": k % 4 != 3}, "skip": [], "post": None, "sparseUfo": False})
    return out


def _vfsplit_cases(rng, n, prefix):
    """Small designspace-v5 documents for VFSplit.tla: a discrete axis (two interpolable sub-spaces) x three positions of a
    continuous axis, 1-3 variable fonts with their own ranges and default positions, all or some of them requested."""
    out = []
    for k in range(n):
        discs = [0, 1] if k % 3 else [0]
        masters = []
        for d in discs:
            poss = [0] + [p for p in (1, 2) if rng.random() < 0.75]
            masters += [[d, p] for p in poss]
        vfs = []
        for j in range(rng.randint(1, 3)):
            d = rng.choice(discs)
            lo = rng.choice([0, 0, 1])
            hi = rng.choice([p for p in (1, 2, 2) if p >= lo])
            if lo == hi:
                lo = 0
            dflt = rng.choice([p for p in range(lo, hi + 1)]) if k % 2 else lo
            vfs.append({"name": f"VF{j}", "disc": d, "lo": lo, "hi": hi, "dflt": dflt})
        req = [v["name"] for v in vfs if rng.random() < 0.7] if k % 4 == 3 else [v["name"] for v in vfs]
        # (every interpolable sub-space has a master at the document default; at most one lacks an explicit variable font)
        out.append({"cid": f"{prefix}-sp{k}", "vfsplit": True, "lib": rng.choice(["ufoLib2", "defcon"]), "masters": masters, "vfs": vfs,
                    "req": req or [vfs[0]["name"]], "flavor": "tt" if k % 3 else "cff2"})
    return out


def _execute_vfsplit(case):
    import ufo2ft
    from ..absfont import PS

    wght = {0: 400, 1: 550, 2: 700}
    fam_masters = []
    for k, (d, p) in enumerate(case["masters"]):
        w = 100 + 20 * p + 7 * d
        glyphs = {"A": {"cs": [[[0, 0, "line"], [w * PS, 0, "line"], [w * PS, 300 * PS, "line"], [0, 300 * PS, "line"]]], "comps": [],
                        "anchors": [], "w": (w + 50) * PS, "h": 0, "u": [0x41]},
                  "B": {"cs": [], "comps": [{"b": "A", "m": [64, 0, 0, 64], "d": [10 * p * PS, 0]}], "anchors": [], "w": (w + 60) * PS, "h": 0, "u": [0x42]}}
        ufo = {"glyphs": glyphs, "order": ["A", "B"], "glyphNames": ["A", "B"],
               "info": {"unitsPerEm": 1000, "ascender": 800, "descender": -200, "familyName": "Split", "styleName": f"D{d}P{p}",
                        "openTypeOS2VendorID": f"M{k:03d}"}}
        fam_masters.append({"loc": {"Weight": wght[p], "Italic": d}, "ufo": ufo, "name": f"m{k}"})
    discs = sorted({d for d, _ in case["masters"]})
    axes = [{"name": "Weight", "tag": "wght", "min": 400, "default": 400, "max": 700}]
    if len(discs) > 1:
        axes.append({"name": "Italic", "tag": "ital", "values": discs, "default": 0})
    else:
        for m in fam_masters:
            m["loc"].pop("Italic")
    family = {"axes": axes, "masters": fam_masters,
              "variableFonts": [{"name": v["name"], "subsets": dict({"Weight": {"min": wght[v["lo"]], "max": wght[v["hi"]], "default": wght[v["dflt"]]}},
                                                                    **({"Italic": {"value": v["disc"]}} if len(discs) > 1 else {}))}
                                for v in case["vfs"]]}
    for v in family["variableFonts"]:
        v["lib"] = {"public.fontInfo": {"openTypeNameDesigner": "vfsplit"}}     # (so that the info of the base master is compiled in)
    ds = dsbuild.build_designspace(family, case["lib"])
    ids = {id(s.font): s.name for s in ds.sources}
    # designspaceLib semantics (environment): an interpolable sub-space for which the document names no variable font gets an
    # implicit one spanning it, called "VF" for an in-memory document; asking for fonts by name leaves it out
    vfs = list(case["vfs"])
    implicit = [d for d in discs if not any(v["disc"] == d for v in vfs)]
    for d in implicit:
        vfs.append({"name": "VF", "disc": d, "lo": 0, "hi": 2, "dflt": 0})
    named = len(case["req"]) < len(case["vfs"])
    rec = {"tid": case["cid"], "_acc": "vfsplit", "masters": [{"name": f"m{k}", "disc": d, "pos": p} for k, (d, p) in enumerate(case["masters"])],
           "vfs": vfs, "req": list(case["req"]) + ([] if named else ["VF"] * bool(implicit)), "calls": [], "bases": [], "err": "", "_sig": [case["cid"]]}
    # (domain: every requested variable font that has its default master has at least two sources -- varLib does not build a
    #  variable font from one master)
    for v in vfs:
        if v["name"] in rec["req"]:
            srcs = [p for d, p in case["masters"] if d == v["disc"] and v["lo"] <= p <= v["hi"]]
            if v["dflt"] in srcs and len(srcs) < 2:
                return [{"tid": case["cid"], "skip": True, "why": "a requested variable font has a single source"}]
    fn = ufo2ft.compileVariableTTFs if case["flavor"] == "tt" else ufo2ft.compileVariableCFF2s
    kw = {"useProductionNames": False}
    if len(case["req"]) < len(case["vfs"]):
        kw["variableFontNames"] = list(case["req"])
    with tracer.tracing([s.font for s in ds.sources], designspace=ds, snap=False, glyphsets=False) as tr:
        try:
            outs = fn(ds, **kw)
        except Exception as e:  # noqa
            outs = {}
            rec["err"] = type(e).__name__
            rec["_msg"] = str(e)[:200]
    for e in tr.events:
        if e["ev"] == "IPreStart":
            rec["calls"].append([ids.get(i, "?") for i in e.get("fontIds", [])])
    vend = {f"M{k:03d}": f"m{k}" for k in range(len(case["masters"]))}
    for name, f in sorted(outs.items()):
        rec["bases"].append([name, vend.get(f["OS/2"].achVendID, f["OS/2"].achVendID)])
    return [rec]


def _struct_tt(f):
    glyf = f["glyf"]
    out = {}
    for n in f.getGlyphOrder():
        g = glyf[n]
        if g.isComposite():
            # a component's 2x2 cannot vary in a variable font: it is part of the structure (offsets are not)
            out[n] = {"cs": [], "comps": [c.glyphName + "|" + ",".join(str(int(round(v * 16384))) for row in getattr(c, "transform", ((1, 0), (0, 1))) for v in row)
                                          for c in g.components]}
        elif g.numberOfContours > 0:
            coords, ends, flags = g.getCoordinates(glyf)
            cs, start = [], 0
            for e in ends:
                cs.append([int(fl & 1) for fl in flags[start:e + 1]])
                start = e + 1
            out[n] = {"cs": cs, "comps": []}
        else:
            out[n] = {"cs": [], "comps": []}
    return out


def _struct_cff(f):
    from fontTools.pens.recordingPen import RecordingPen

    gs = f.getGlyphSet()
    out = {}
    for n in f.getGlyphOrder():
        pen = RecordingPen()
        gs[n].draw(pen)
        cs, cur = [], None
        for op, args in pen.value:
            if op == "moveTo":
                cur = []
                cs.append(cur)
            elif op in ("lineTo", "curveTo", "qCurveTo"):
                cur.append({"lineTo": 1, "curveTo": 3, "qCurveTo": 2}[op])
        out[n] = {"cs": cs, "comps": []}
    return out


def execute(case):
    import ufo2ft

    if case.get("vfsplit"):
        return _execute_vfsplit(case)
    if case.get("vfs"):
        from . import c10

        return c10.execute_vfs(case)
    lib = case["lib"]
    nm = len(case["masters"])
    locs = [0, 8] if nm == 2 else [0, 4, 8]
    fam_masters = []
    for k, gs in enumerate(case["masters"]):
        ufo = {"glyphs": copy.deepcopy(gs), "order": sorted(gs), "glyphNames": sorted(gs),
               "info": {"unitsPerEm": 1000, "ascender": 800, "descender": -200, "familyName": "Compat", "styleName": f"M{k}"}}
        if k == 0 and case["sparse"] and not case.get("sparseUfo"):
            ufo["layers"] = {"sparse": copy.deepcopy(case["sparse"])}
        if case.get("post"):
            ufo["lib"] = {"com.github.googlei18n.ufo2ft.filters": copy.deepcopy(case["post"])}
        fam_masters.append({"loc": {"Weight": locs[k]}, "ufo": ufo, "name": f"M{k}"})
    if case["sparse"] and case.get("sparseUfo"):
        # the sparse master is a UFO of its own that simply lacks the other glyphs (not a layer of a full master)
        sp = copy.deepcopy(case["sparse"])
        fam_masters.append({"loc": {"Weight": 2}, "name": "Sparse", "standalone": True,
                            "ufo": {"glyphs": sp, "order": sorted(sp), "glyphNames": sorted(sp),
                                    "lib": {"com.github.googlei18n.ufo2ft.filters": copy.deepcopy(case["post"])} if case.get("post") else {},
                                    "info": {"unitsPerEm": 1000, "ascender": 800, "descender": -200, "familyName": "Compat", "styleName": "Sparse"}}})
    elif case["sparse"]:
        fam_masters.append({"loc": {"Weight": 2}, "layer": "sparse", "of": 0, "name": "Sparse"})
    family = {"axes": [{"name": "Weight", "tag": "wght", "min": 0, "default": 0, "max": 8}], "masters": fam_masters,
              "lib": {"public.skipExportGlyphs": case["skip"]} if case["skip"] else {}}
    ds = dsbuild.build_designspace(family, lib)
    fonts = []
    for s in ds.sources:
        if all(s.font is not f for f in fonts):
            fonts.append(s.font)
    src = []
    sparse_flags = []
    for s, m in zip(ds.sources, fam_masters):
        if s.layerName:
            src.append(absfont.abs_glyphset({g.name: g for g in s.font.layers[s.layerName]}))
            sparse_flags.append(True)
        else:
            src.append(absfont.abs_glyphset({g.name: g for g in s.font}))
            sparse_flags.append(bool(m.get("standalone")))
    rec = {"tid": case["cid"], "path": case["path"], "src": src, "sparse": sparse_flags, "default": 1, "skip": case["skip"],
           "_sig": [case["cid"]]}
    kw = dict(case["kwargs"])
    kw["useProductionNames"] = False
    with tracer.tracing(fonts, designspace=ds, snap=False) as tr:
        try:
            if case["path"] == "TTFs":
                outs = list(ufo2ft.compileInterpolatableTTFs([s.font for s in ds.sources], **kw))
            elif case["path"] == "TTFsFromDS":
                outs = [s.font for s in ufo2ft.compileInterpolatableTTFsFromDS(ds, **kw).sources]
            else:
                outs = [s.font for s in ufo2ft.compileInterpolatableOTFsFromDS(ds, **kw).sources]
        except Exception as e:  # noqa
            rec["err"] = type(e).__name__ + ": " + str(e)[:160]
            rec["out"] = []
            rec["events"] = []
            return [rec]
    rec["out"] = [(_struct_tt(f) if "glyf" in f else _struct_cff(f)) for f in outs]
    evs = []
    for e in tr.events:
        if e["ev"] in ("IPreStart", "IFilter", "Cu2QuI", "IPreprocessed") and all(g is not None for g in e.get("gss", [None])):
            evs.append({"ev": e["ev"], "name": e.get("name", ""), "gss": e["gss"]})
    rec["events"] = evs
    return [rec]


def preclassify(rec, rep):
    if rec.get("skip") is True:
        rep.notes["skipped"] = rep.notes.get("skipped", 0) + 1
        return "skip"


def nontrivial(rec):
    if rec.get("_acc") == "vfsplit":
        return len(rec["vfs"]) > 1
    if rec.get("_acc") == "vf":
        return rec.get("_k", 0) > 0
    return any(g["comps"] for gs in rec["src"] for g in gs.values())


def classify(rec, pfail, mfail, extra, rep):
    if pfail == "masters-stay-compatible" and extra and extra[0] == "F-C09-1":
        rep.known("F-C09-1", "CFF interpolatable path: the last on-curve point of a closed contour coincides with its start point in "
                             "some masters only (also after the reversal of a mirrored component); the point-to-segment pen then "
                             "emits the closing lineTo explicitly in those masters only and the charstrings differ in structure")
        rep.notes.setdefault("known_paths", {})
        rep.notes["known_paths"][rec["path"]] = rep.notes["known_paths"].get(rec["path"], 0) + 1
        return "known:F-C09-1"
    if pfail in ("masters-stay-compatible", "jointly-fixable-glyphs-stay-compatible") and extra and extra[0] == "F-C09-2":
        rep.known("F-C09-2", "TrueType interpolatable path: a composite held by a sparse master whose (flattened) component transform "
                             "overflows F2Dot14 while the sparse master lacks one of its bases is decomposed by the glyph pen from "
                             "the empty placeholders: the glyph is empty in the sparse master and drawn in the full ones")
        return "known:F-C09-2"
    if pfail != "none":
        rep.notes.setdefault("witnesses", []).append({"tid": rec["tid"], "clause": pfail, "err": rec.get("err", ""), "path": rec.get("path", "VFs")})
    return None
