"""Invoking the real filter objects on generated glyph sets and recording what happened."""
import copy
import random
from fractions import Fraction

from .. import absfont, gen, snapshot
from ..absfont import MS, PS

FILTER_CLASSES = {
    "DecomposeComponents": ("ufo2ft.filters.decomposeComponents", "DecomposeComponentsFilter"),
    "DecomposeTransformedComponents": ("ufo2ft.filters.decomposeTransformedComponents", "DecomposeTransformedComponentsFilter"),
    "FlattenComponents": ("ufo2ft.filters.flattenComponents", "FlattenComponentsFilter"),
    "SkipExportGlyphs": ("ufo2ft.filters.skipExportGlyphs", "SkipExportGlyphsFilter"),
    "ReverseContourDirection": ("ufo2ft.filters.reverseContourDirection", "ReverseContourDirectionFilter"),
    "Transformations": ("ufo2ft.filters.transformations", "TransformationsFilter"),
    "PropagateAnchors": ("ufo2ft.filters.propagateAnchors", "PropagateAnchorsFilter"),
    "SortContours": ("ufo2ft.filters.sortContours", "SortContoursFilter"),
    "RemoveOverlaps": ("ufo2ft.filters.removeOverlaps", "RemoveOverlapsFilter"),
    "CubicToQuadratic": ("ufo2ft.filters.cubicToQuadratic", "CubicToQuadraticFilter"),
    "DottedCircle": ("ufo2ft.filters.dottedCircle", "DottedCircleFilter"),
}

PREDICATES = {
    "hasContours": lambda g: len(g) > 0,
    "hasComponents": lambda g: bool(g.components),
    "wide": lambda g: g.width >= 300,
}


def make_filter(spec):
    import importlib

    modname, clsname = FILTER_CLASSES[spec["name"]]
    cls = getattr(importlib.import_module(modname), clsname)
    kwargs = dict(spec.get("kwargs") or {})
    args = list(spec.get("args") or [])
    inc = spec.get("include") or {"kind": "all"}
    if inc["kind"] == "list":
        kwargs["include"] = list(inc["names"])
    elif inc["kind"] == "exclude":
        kwargs["exclude"] = list(inc["names"])
    elif inc["kind"] == "pred":
        kwargs["include"] = PREDICATES[inc["pred"]]
    return cls(*args, **kwargs)


def included_names(spec, glyphSet):
    inc = spec.get("include") or {"kind": "all"}
    if inc["kind"] == "all":
        return sorted(glyphSet.keys())
    if inc["kind"] == "list":
        return sorted(n for n in glyphSet.keys() if n in set(inc["names"]))
    if inc["kind"] == "exclude":
        return sorted(n for n in glyphSet.keys() if n not in set(inc["names"]))
    return sorted(n for n in glyphSet.keys() if PREDICATES[inc["pred"]](glyphSet[n]))


def xform_opt(kwargs, info):
    """Exact option record for the Transformations model (raises Inexact outside the domain)."""
    ox = absfont.to_scaled(kwargs.get("OffsetX", 0), PS)
    oy = absfont.to_scaled(kwargs.get("OffsetY", 0), PS)
    sx = absfont.to_scaled(Fraction(kwargs.get("ScaleX", 100)) / 100, MS)
    sy = absfont.to_scaled(Fraction(kwargs.get("ScaleY", 100)) / 100, MS)
    origin = kwargs.get("Origin", 4)
    cap = info.get("capHeight", 0)
    xh = info.get("xHeight", 0)
    import math

    def ot(v):
        return int(math.floor(v + 0.5))

    oh = {4: 0, 0: cap, 1: ot(cap / 2), 2: xh, 3: ot(xh / 2)}[origin]
    if sx == MS and sy == MS:
        oh = 0  # origin shift only applies when scaling / slanting
    ohs = absfont.to_scaled(oh, PS)
    # exact inverse: x = (x' - dx)/sx
    fsx, fsy = Fraction(sx, MS), Fraction(sy, MS)
    dx = Fraction(ox, PS)
    dy = Fraction(oy, PS) + Fraction(ohs, PS) - fsy * Fraction(ohs, PS)
    if (fsy * Fraction(ohs, PS) * PS).denominator != 1:
        raise absfont.Inexact("origin shift")
    inv = {
        "m": [absfont.to_scaled(1 / fsx, MS), 0, 0, absfont.to_scaled(1 / fsy, MS)],
        "d": [absfont.to_scaled(-dx / fsx, PS), absfont.to_scaled(-dy / fsy, PS)],
    }
    return {"ox": ox, "oy": oy, "sx": sx, "sy": sy, "oh": ohs, "inv": inv}


def propagate_env(step, rec):
    """what PropagateAnchors.tla needs to know about names: code points of every anchor name (and of the numbered names
    the filter may create), the glyphs of category mark, the glyphs whose name makes them ligature marks"""
    names = set()
    for key in ("before", "after"):
        for g in (rec.get(key) or {}).values():
            for a in g["anchors"]:
                names.add(a["n"])
    for n in list(names):
        for k in range(1, 10):
            names.add(f"{n}_{k}")
    cats = (step.get("lib") or {}).get("public.openTypeCategories") or {}
    glyphs = sorted(rec.get("before") or {})
    return {"cps": {n: [ord(ch) for ch in n] for n in sorted(names)},
            "marks": sorted(n for n, v in cats.items() if v == "mark"),
            "ligmark": [n for n in glyphs if not n.startswith("_") and "_" in n]}


def invoke_history(case):
    """Run one filter object over a sequence of fonts; one record per invocation.

    The *same* filter object is used for all steps; for each step a fresh object is run on an equal
    font as the statelessness reference, and (when asked) the filter is applied a second time.
    """
    from ufo2ft.util import _GlyphSet

    lib = case.get("lib", "ufoLib2")
    spec = case["filter"]
    records = []
    proj = digest_glyphset if spec["name"] in ABSTRACT else absfont.abs_glyphset
    try:
        shared = make_filter(spec)
    except Exception as e:  # constructor refuses the options: nothing to check
        return [{"tid": f"{case['cid']}/ctor", "skip": True, "why": repr(e)}]
    for k, step in enumerate(case["steps"]):
        tid = f"{case['cid']}/{k}"
        ufo_case = {"glyphs": step["glyphs"], "info": step.get("info", {}), "lib": step.get("lib", {})}
        if step.get("layers"):
            ufo_case["layers"] = step["layers"]
        font = absfont.build_font(ufo_case, lib)
        font2 = absfont.build_font(ufo_case, lib)
        sep = step.get("separate", True) or spec["name"] == "SkipExportGlyphs"
        if sep:
            gs = _GlyphSet.from_layer(font, copy=True)
            gs2 = _GlyphSet.from_layer(font2, copy=True)
            if step.get("plain"):
                # the documented interface: any dict of glyph objects (no .lib / .name attributes of its own)
                gs, gs2 = dict(gs), dict(gs2)
        else:
            gs = gs2 = None
        rec = {"tid": tid, "filter": spec["name"], "sep": bool(sep), "lib": lib}
        if step.get("explode") and sep:
            # a colour font: the colour-layer glyphs are first copied into the working glyph set, under keys ("a.color1")
            # that differ from the copies' names ("a"); the filter under test then runs on that glyph set
            from ufo2ft.filters.explodeColorLayerGlyphs import ExplodeColorLayerGlyphsFilter

            ExplodeColorLayerGlyphsFilter()(font, gs)
            ExplodeColorLayerGlyphsFilter()(font2, gs2)
        target = gs if sep else _GlyphSet.from_layer(font)
        rec["before"] = proj(target)
        rec["inc"] = included_names(spec, target)
        src_before = snapshot.font_snapshot(font)
        raised = ""
        try:
            modified = shared(font, gs) if sep else shared(font)
        except Exception as e:
            raised = type(e).__name__
            modified = set()
        src_after = snapshot.font_snapshot(font)
        rec["raised"] = raised
        target_after = gs if sep else _GlyphSet.from_layer(font)
        try:
            rec["after"] = proj(target_after)
        except absfont.Inexact as e:
            rec["skip"] = True
            rec["why"] = f"inexact: {e}"
            records.append(rec)
            continue
        rec["modified"] = sorted(modified or [])
        rec["srcSame"] = src_before == src_after
        rec["srcDiff"] = snapshot.diff(src_before, src_after)
        # fresh reference
        fresh = make_filter(spec)
        raised2 = ""
        try:
            modified2 = fresh(font2, gs2) if sep else fresh(font2)
        except Exception as e:
            raised2 = type(e).__name__
            modified2 = set()
        t2 = gs2 if sep else _GlyphSet.from_layer(font2)
        try:
            rec["fresh"] = {"after": proj(t2), "modified": sorted(modified2 or []), "raised": raised2}
        except absfont.Inexact:
            pass
        if case.get("again") and not raised:
            try:
                again = make_filter(spec)
                again(font, gs) if sep else again(font)
                rec["again"] = proj(gs if sep else _GlyphSet.from_layer(font))
            except Exception:
                pass
        # options for the model
        opt = {}
        if spec["name"] == "SkipExportGlyphs":
            opt["skip"] = sorted(spec["args"][0])
        if spec["name"] == "Transformations":
            try:
                opt = xform_opt(spec.get("kwargs") or {}, step.get("info", {}))
            except absfont.Inexact as e:
                rec["skip"] = True
                rec["why"] = f"inexact options: {e}"
        if spec["name"] == "PropagateAnchors":
            opt = propagate_env(step, rec)
        rec["opt"] = opt
        if raised or raised2:
            rec["skip"] = True
            rec["why"] = f"raised {raised or raised2}"
            rec["raisedSame"] = raised == raised2
        records.append(rec)
    return records


IFILTER_CLASSES = {
    "DecomposeComponents": ("ufo2ft.filters.decomposeComponents", "DecomposeComponentsIFilter"),
    "DecomposeTransformedComponents": ("ufo2ft.filters.decomposeTransformedComponents", "DecomposeTransformedComponentsIFilter"),
    "FlattenComponents": ("ufo2ft.filters.flattenComponents", "FlattenComponentsIFilter"),
    "SkipExportGlyphs": ("ufo2ft.filters.skipExportGlyphs", "SkipExportGlyphsIFilter"),
    "PropagateAnchors": ("ufo2ft.filters.propagateAnchors", "PropagateAnchorsIFilter"),
}


def make_ifilter(spec):
    import importlib

    modname, clsname = IFILTER_CLASSES[spec["name"]]
    cls = getattr(importlib.import_module(modname), clsname)
    kwargs = dict(spec.get("kwargs") or {})
    args = list(spec.get("args") or [])
    inc = spec.get("include") or {"kind": "all"}
    if inc["kind"] == "list":
        kwargs["include"] = list(inc["names"])
    elif inc["kind"] == "exclude":
        kwargs["exclude"] = list(inc["names"])
    elif inc["kind"] == "pred":
        kwargs["include"] = PREDICATES[inc["pred"]]
    return cls(*args, **kwargs)


def digest_glyphset(glyphSet):
    """Projection for abstract (numerically inexact) filters: per glyph a digest plus its component bases,
    in the shape the TLA+ operators expect."""
    out = {}
    for name in sorted(glyphSet.keys()):
        g = glyphSet[name]
        out[name] = {
            "cs": [],
            "comps": [{"b": c.baseGlyph, "m": [0, 0, 0, 0], "d": [0, 0]} for c in g.components],
            "anchors": [],
            "w": 0,
            "h": 0,
            "u": [],
            "dig": snapshot.sha({k: v for k, v in snapshot.glyph_struct(g).items() if k != "lib"}),
        }
    return out


ABSTRACT = {"RemoveOverlaps", "CubicToQuadratic", "DottedCircle"}


def invoke_ihistory(case):
    """Interpolatable variant: one IFilter object over a sequence of master families."""
    from ufo2ft.util import _GlyphSet

    lib = case.get("lib", "ufoLib2")
    spec = case["filter"]
    shared = make_ifilter(spec)
    records = []
    proj = digest_glyphset if spec["name"] in ABSTRACT else absfont.abs_glyphset
    for k, step in enumerate(case["steps"]):
        tid = f"{case['cid']}/{k}"
        fonts = [absfont.build_font({"glyphs": m, "info": step.get("info", {})}, lib) for m in step["masters"]]
        fonts2 = [absfont.build_font({"glyphs": m, "info": step.get("info", {})}, lib) for m in step["masters"]]
        gss = [_GlyphSet.from_layer(f, copy=True) for f in fonts]
        gss2 = [_GlyphSet.from_layer(f, copy=True) for f in fonts2]
        rec = {"tid": tid, "filter": spec["name"], "sep": True, "lib": lib}
        befores = [proj(gs) for gs in gss]
        names = set()
        for gs in gss:
            names |= set(included_names(spec, gs))
        rec["inc"] = sorted(names)
        src_before = [snapshot.font_snapshot(f) for f in fonts]
        raised = raised2 = ""
        try:
            modified = shared(fonts, gss)
        except Exception as e:
            raised, modified = type(e).__name__, set()
        rec["srcSame"] = src_before == [snapshot.font_snapshot(f) for f in fonts]
        try:
            afters = [proj(gs) for gs in gss]
        except absfont.Inexact as e:
            records.append({"tid": tid, "skip": True, "why": str(e)})
            continue
        rec["masters"] = [{"before": b, "after": a} for b, a in zip(befores, afters)]
        rec["modified"] = sorted(modified or [])
        fresh = make_ifilter(spec)
        try:
            modified2 = fresh(fonts2, gss2)
        except Exception as e:
            raised2, modified2 = type(e).__name__, set()
        try:
            rec["fresh"] = {"afters": [proj(gs) for gs in gss2], "modified": sorted(modified2 or [])}
        except absfont.Inexact:
            pass
        rec["opt"] = {"skip": sorted(spec["args"][0])} if spec["name"] == "SkipExportGlyphs" else {}
        if raised or raised2:
            rec["skip"] = True
            rec["why"] = f"raised {raised or raised2}"
        records.append(rec)
    return records
