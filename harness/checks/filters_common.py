"""Invoking the real filter objects on generated glyph sets and recording what happened."""
import copy
import random
from fractions import Fraction

from .. import absfont, gen, snapshot
from ..absfont import MS, PS

FILTER_CLASSES = {
    "DecomposeComponents": ("ufo2ft.filters.decomposeComponents", "DecomposeComponentsFilter"),
    "DecomposeTransformedComponents": ("ufo2ft.filters.decomposeTransformedComponents", "DecomposeTransformedComponentsFilter"),
    "FlattenComponents": ("ufo2ft.filters.flattenComponents", "FlattenComponentsFilter"),
    "SkipExportGlyphs": ("ufo2ft.filters.skipExportGlyphs", "SkipExportGlyphsFilter"),
    "ReverseContourDirection": ("ufo2ft.filters.reverseContourDirection", "ReverseContourDirectionFilter"),
    "Transformations": ("ufo2ft.filters.transformations", "TransformationsFilter"),
    "PropagateAnchors": ("ufo2ft.filters.propagateAnchors", "PropagateAnchorsFilter"),
    "SortContours": ("ufo2ft.filters.sortContours", "SortContoursFilter"),
    "RemoveOverlaps": ("ufo2ft.filters.removeOverlaps", "RemoveOverlapsFilter"),
    "CubicToQuadratic": ("ufo2ft.filters.cubicToQuadratic", "CubicToQuadraticFilter"),
    "DottedCircle": ("ufo2ft.filters.dottedCircle", "DottedCircleFilter"),
}

PREDICATES = {
    "hasContours": lambda g: len(g) > 0,
    "hasComponents": lambda g: bool(g.components),
    "wide": lambda g: g.width >= 300,
}


def make_filter(spec):
    import importlib

    modname, clsname = FILTER_CLASSES[spec["name"]]
    cls = getattr(importlib.import_module(modname), clsname)
    kwargs = dict(spec.get("kwargs") or {})
    args = list(spec.get("args") or [])
    inc = spec.get("include") or {"kind": "all"}
    if inc["kind"] == "list":
        kwargs["include"] = list(inc["names"])
    elif inc["kind"] == "exclude":
        kwargs["exclude"] = list(inc["names"])
    elif inc["kind"] == "pred":
        kwargs["include"] = PREDICATES[inc["pred"]]
    return cls(*args, **kwargs)


def included_names(spec, glyphSet):
    inc = spec.get("include") or {"kind": "all"}
    if inc["kind"] == "all":
        return sorted(glyphSet.keys())
    if inc["kind"] == "list":
        return sorted(n for n in glyphSet.keys() if n in set(inc["names"]))
    if inc["kind"] == "exclude":
        return sorted(n for n in glyphSet.keys() if n not in set(inc["names"]))
    return sorted(n for n in glyphSet.keys() if PREDICATES[inc["pred"]](glyphSet[n]))


def xform_opt(kwargs, info):
    """Exact option record for the Transformations model (raises Inexact outside the domain)."""
    ox = absfont.to_scaled(kwargs.get("OffsetX", 0), PS)
    oy = absfont.to_scaled(kwargs.get("OffsetY", 0), PS)
    sx = absfont.to_scaled(Fraction(kwargs.get("ScaleX", 100)) / 100, MS)
    sy = absfont.to_scaled(Fraction(kwargs.get("ScaleY", 100)) / 100, MS)
    origin = kwargs.get("Origin", 4)
    cap = info.get("capHeight", 0)
    xh = info.get("xHeight", 0)
    import math

    def ot(v):
        return int(math.floor(v + 0.5))

    oh = {4: 0, 0: cap, 1: ot(cap / 2), 2: xh, 3: ot(xh / 2)}[origin]
    if sx == MS and sy == MS:
        oh = 0  # origin shift only applies when scaling / slanting
    ohs = absfont.to_scaled(oh, PS)
    # exact inverse: x = (x' - dx)/sx
    fsx, fsy = Fraction(sx, MS), Fraction(sy, MS)
    dx = Fraction(ox, PS)
    dy = Fraction(oy, PS) + Fraction(ohs, PS) - fsy * Fraction(ohs, PS)
    if (fsy * Fraction(ohs, PS) * PS).denominator != 1:
        raise absfont.Inexact("origin shift")
    inv = {
        "m": [absfont.to_scaled(1 / fsx, MS), 0, 0, absfont.to_scaled(1 / fsy, MS)],
        "d": [absfont.to_scaled(-dx / fsx, PS), absfont.to_scaled(-dy / fsy, PS)],
    }
    return {"ox": ox, "oy": oy, "sx": sx, "sy": sy, "oh": ohs, "inv": inv}


def invoke_history(case):
    """Run one filter object over a sequence of fonts; one record per invocation.

    The *same* filter object is used for all steps; for each step a fresh object is run on an equal
    font as the statelessness reference, and (when asked) the filter is applied a second time.
    """
    from ufo2ft.util import _GlyphSet

    lib = case.get("lib", "ufoLib2")
    spec = case["filter"]
    records = []
    try:
        shared = make_filter(spec)
    except Exception as e:  # constructor refuses the options: nothing to check
        return [{"tid": f"{case['cid']}/ctor", "skip": True, "why": repr(e)}]
    for k, step in enumerate(case["steps"]):
        tid = f"{case['cid']}/{k}"
        ufo_case = {"glyphs": step["glyphs"], "info": step.get("info", {}), "lib": step.get("lib", {})}
        font = absfont.build_font(ufo_case, lib)
        font2 = absfont.build_font(ufo_case, lib)
        sep = step.get("separate", True) or spec["name"] == "SkipExportGlyphs"
        if sep:
            gs = _GlyphSet.from_layer(font, copy=True)
            gs2 = _GlyphSet.from_layer(font2, copy=True)
        else:
            gs = gs2 = None
        rec = {"tid": tid, "filter": spec["name"], "sep": bool(sep), "lib": lib}
        target = gs if sep else _GlyphSet.from_layer(font)
        rec["before"] = absfont.abs_glyphset(target)
        rec["inc"] = included_names(spec, target)
        src_before = snapshot.font_snapshot(font)
        raised = ""
        try:
            modified = shared(font, gs) if sep else shared(font)
        except Exception as e:
            raised = type(e).__name__
            modified = set()
        src_after = snapshot.font_snapshot(font)
        rec["raised"] = raised
        target_after = gs if sep else _GlyphSet.from_layer(font)
        try:
            rec["after"] = absfont.abs_glyphset(target_after)
        except absfont.Inexact as e:
            rec["skip"] = True
            rec["why"] = f"inexact: {e}"
            records.append(rec)
            continue
        rec["modified"] = sorted(modified or [])
        rec["srcSame"] = src_before == src_after
        rec["srcDiff"] = snapshot.diff(src_before, src_after)
        # fresh reference
        fresh = make_filter(spec)
        raised2 = ""
        try:
            modified2 = fresh(font2, gs2) if sep else fresh(font2)
        except Exception as e:
            raised2 = type(e).__name__
            modified2 = set()
        t2 = gs2 if sep else _GlyphSet.from_layer(font2)
        try:
            rec["fresh"] = {"after": absfont.abs_glyphset(t2), "modified": sorted(modified2 or []), "raised": raised2}
        except absfont.Inexact:
            pass
        if case.get("again") and not raised:
            try:
                again = make_filter(spec)
                again(font, gs) if sep else again(font)
                rec["again"] = absfont.abs_glyphset(gs if sep else _GlyphSet.from_layer(font))
            except Exception:
                pass
        # options for the model
        opt = {}
        if spec["name"] == "SkipExportGlyphs":
            opt["skip"] = sorted(spec["args"][0])
        if spec["name"] == "Transformations":
            try:
                opt = xform_opt(spec.get("kwargs") or {}, step.get("info", {}))
            except absfont.Inexact as e:
                rec["skip"] = True
                rec["why"] = f"inexact options: {e}"
        rec["opt"] = opt
        if raised or raised2:
            rec["skip"] = True
            rec["why"] = f"raised {raised or raised2}"
            rec["raisedSame"] = raised == raised2
        records.append(rec)
    return records
