"""C13 -- non-exported glyphs vanish without altering the remaining glyphs."""
import copy
import random

from .. import compile_exec, gen
from . import c02

PROPERTY = "C13"
TRACE_MODULE = "PipelineTrace"
TRACE_CFG = "PipelineTrace.cfg"
RULE = ("random exact-domain UFOs x random subsets of glyphs to skip (used as components at any depth, incl. skipped inside "
        "skipped and mirrored references; given by argument or by public.skipExportGlyphs) x {compileOTF, compileTTF} x "
        "{defcon, ufoLib2}; each case is also compiled WITHOUT skipping to compare the order of the remaining glyphs; "
        "non-trivial = a skipped glyph is referenced by a remaining glyph; distinct by source digest + skip set")
ASSUMPTIONS = ["generated kerning / mark positioning between remaining glyphs is decided by C05 / C06 with skip lists",
               "contours are compared as multisets per glyph (the filter may reorder contours of different components)"]


def design_checks(tier):
    if tier == "quick":
        return [dict(module="FiltersMC", cfg="FiltersMC_skip.cfg", workers=8, timeout=300)]
    return [dict(module="FiltersMC", cfg="FiltersMC_skipfull.cfg", workers=16, timeout=3000)]


def cases(tier, seed):
    n = 150 if tier == "quick" else 3000
    rng = random.Random(seed * 67867967 + 13)
    out = []
    for k in range(n):
        flavor = rng.choice(["cff", "tt"])
        if flavor == "cff":
            glyphs = gen.glyphset(rng, kinds=["line", "cubic", "mixed"], unicodes=True)
            kwargs = {"roundTolerance": rng.choice([None, 0, 0.5])}
            if kwargs["roundTolerance"] is None:
                del kwargs["roundTolerance"]
        else:
            glyphs = gen.glyphset(rng, kinds=["line", "quad"], palette=c02.PALETTE_TT, unicodes=True)
            kwargs = {"flattenComponents": rng.random() < 0.3}
        names = sorted(glyphs)
        skip = gen.subset(rng, names, rng.choice([0.2, 0.35, 0.5]))
        if len(skip) == len(names):
            skip = skip[:-1]  # an all-skipped (".notdef"-only) font is the degenerate case recorded under C04
        ufo = {"glyphs": glyphs, "info": {"unitsPerEm": 1000, "ascender": 800, "descender": -200}}
        if rng.random() < 0.5:
            kwargs["skipExportGlyphs"] = skip
        else:
            ufo["lib"] = {"public.skipExportGlyphs": skip}
        if rng.random() < 0.4:
            ufo["order"] = rng.sample(names, len(names))
        out.append({"cid": f"c13-{seed}-{k}", "lib": rng.choice(["ufoLib2", "defcon"]), "flavor": flavor, "ufo": ufo,
                    "kwargs": kwargs, "wantCmap": True, "skip": skip})
    return out


def execute(case):
    rec = compile_exec.static_compile(case)
    if rec.get("skip"):
        return [rec]
    # the same source without skipping anything
    c2 = copy.deepcopy(case)
    c2["kwargs"]["skipExportGlyphs"] = []
    c2["cid"] = case["cid"] + "-noskip"
    r2 = compile_exec.static_compile(c2, glyphsets=False)
    if not r2.get("skip") and "order" in r2.get("ret", {}):
        rec["noskipOrder"] = r2["ret"]["order"]
    return [rec]


def preclassify(rec, rep):
    if rec.get("skip"):
        rep.notes["skipped"] = rep.notes.get("skipped", 0) + 1
        return "skip"


def nontrivial(rec):
    sk = set(rec["opts"]["skip"])
    return any(c["b"] in sk for n, g in rec["src"].items() if n not in sk for c in g["comps"])
