"""C13 -- non-exported glyphs vanish without altering the remaining glyphs."""
import copy
import random

from .. import absfont, compile_exec, dsbuild, gen, project
from . import c02
from ..absfont import MS, PS

PROPERTY = "C13"
TRACE_MODULE = "PipelineTrace"
TRACE_CFG = "PipelineTrace.cfg"
ACCEPTORS = {"_default": ("PipelineTrace", "PipelineTrace.cfg"), "var": ("SkipVarTrace", "SkipVarTrace.cfg")}
RULE = ("random exact-domain UFOs x random subsets of glyphs to skip (used as components at any depth, incl. skipped inside "
        "skipped and mirrored references; given by argument or by public.skipExportGlyphs) x {compileOTF, compileTTF} x "
        "{defcon, ufoLib2}; each case is also compiled WITHOUT skipping to compare the order of the remaining glyphs; "
        "non-trivial = a skipped glyph is referenced by a remaining glyph; distinct by source digest + skip set; plus "
        "designspace families (two full masters and, mostly, a sparse layer master holding a random subset of glyphs; integer "
        "line outlines, mirrored / rotated components nested up to depth 3, skip lists with skipped-inside-skipped chains) "
        "compiled with compileVariableTTF / compileVariableCFF2 with and without the skip list (designspace lib) "
        "and instantiated at every source location")
ASSUMPTIONS = ["generated kerning / mark positioning between remaining glyphs is decided by C05 / C06 with skip lists",
               "contours are compared as multisets per glyph (the filter may reorder contours of different components)"]


def design_checks(tier):
    # SkipResolve: which of the three lists (argument, UFO lib, designspace lib) speaks for each entry point; the two must-fail
    # configurations are the designs of seeded changes C13-f (layer lib consulted) and C13-g (instance keeps the UFO's list)
    res = [dict(module="SkipResolve", cfg="SkipResolve.cfg", workers=2, timeout=120),
           dict(module="SkipResolve", cfg="SkipResolve_layerlib.cfg", workers=2, timeout=120, expect_violation="ListedAreSkipped"),
           dict(module="SkipResolve", cfg="SkipResolve_keepufo.cfg", workers=2, timeout=120, expect_violation="ListedAreSkipped")]
    if tier == "quick":
        return [dict(module="FiltersMC", cfg="FiltersMC_skip.cfg", workers=8, timeout=300)] + res
    return [dict(module="FiltersMC", cfg="FiltersMC_skipfull.cfg", workers=16, timeout=3000)] + res


def cases(tier, seed):
    n = 150 if tier == "quick" else 3000
    rng = random.Random(seed * 67867967 + 13)
    out = []
    for k in range(n):
        flavor = rng.choice(["cff", "tt"])
        if flavor == "cff":
            glyphs = gen.glyphset(rng, kinds=["line", "cubic", "mixed"], unicodes=True)
            kwargs = {"roundTolerance": rng.choice([None, 0, 0.5])}
            if kwargs["roundTolerance"] is None:
                del kwargs["roundTolerance"]
        else:
            glyphs = gen.glyphset(rng, kinds=["line", "quad"], palette=c02.PALETTE_TT, unicodes=True)
            kwargs = {"flattenComponents": rng.random() < 0.3}
        names = sorted(glyphs)
        skip = gen.subset(rng, names, rng.choice([0.2, 0.35, 0.5]))
        if len(skip) == len(names):
            skip = skip[:-1]  # an all-skipped (".notdef"-only) font is the degenerate case recorded under C04
        ufo = {"glyphs": glyphs, "info": {"unitsPerEm": 1000, "ascender": 800, "descender": -200}}
        if rng.random() < 0.5:
            kwargs["skipExportGlyphs"] = skip
        else:
            ufo["lib"] = {"public.skipExportGlyphs": skip}
        if rng.random() < 0.4:
            ufo["order"] = rng.sample(names, len(names))
        out.append({"cid": f"c13-{seed}-{k}", "lib": rng.choice(["ufoLib2", "defcon"]), "flavor": flavor, "ufo": ufo,
                    "kwargs": kwargs, "wantCmap": True, "skip": skip})
    # a non-default layer compiled on its own (layerName): the skip list still comes from the argument or the FONT's lib
    rng2 = random.Random(seed * 67867967 + 130013)
    for k in range(12 if tier == "quick" else 150):
        flavor = "cff" if k % 2 else "tt"
        if flavor == "cff":
            glyphs = gen.glyphset(rng2, kinds=["line", "cubic"], unicodes=True)
            kwargs = {}
        else:
            glyphs = gen.glyphset(rng2, kinds=["line", "quad"], palette=c02.PALETTE_TT, unicodes=True)
            kwargs = {"flattenComponents": k % 4 == 0}
        names = sorted(glyphs)
        skip = gen.subset(rng2, names, 0.35)
        if len(skip) == len(names):
            skip = skip[:-1]
        try:
            layer = gen.perturb_master(rng2, glyphs, palette=c02.PALETTE_TT if flavor == "tt" else gen.PALETTE, change_2x2=0.0)
        except (RuntimeError, TypeError):
            continue
        ufo = {"glyphs": glyphs, "layers": {"bold": layer}, "info": {"unitsPerEm": 1000, "ascender": 800, "descender": -200}}
        kwargs["layerName"] = "bold"
        if k % 3 == 0:
            kwargs["skipExportGlyphs"] = skip
        else:
            ufo["lib"] = {"public.skipExportGlyphs": skip}
        out.append({"cid": f"c13-{seed}-ly{k}", "lib": rng2.choice(["ufoLib2", "defcon"]), "flavor": flavor, "ufo": ufo,
                    "kwargs": kwargs, "wantCmap": True, "skip": skip})
    # static instances of a designspace (Instantiator.generate_instance, then compileTTF / compileOTF of the instance): the
    # designspace's list is the one that counts, also when the default source's own lib holds another (stale) list
    rng3 = random.Random(seed * 67867967 + 130014)
    for k in range(8 if tier == "quick" else 100):
        flavor = "cff" if k % 2 else "tt"
        glyphs = gen.glyphset(rng3, kinds=["line"], palette=c02.PALETTE_TT, unicodes=True)
        names = sorted(glyphs)
        skip = gen.subset(rng3, names, 0.35) or names[:1]
        if len(skip) == len(names):
            skip = skip[:-1]
        rest = [n_ for n_ in names if n_ not in skip]
        stale = [] if k % 4 == 3 else (gen.subset(rng3, rest, 0.3) or rest[:1])
        if len(stale) == len(rest):
            stale = stale[:-1]
        try:
            m1 = gen.perturb_master(rng3, glyphs, palette=c02.PALETTE_TT, change_2x2=0.0)
        except RuntimeError:
            continue
        out.append({"cid": f"c13-{seed}-in{k}", "inst": True, "lib": rng3.choice(["ufoLib2", "defcon"]), "flavor": flavor,
                    "masters": [glyphs, m1], "dsSkip": skip, "ufoSkip": stale if k % 4 != 2 else None, "kwargs": {}, "skip": skip})
    nv = 40 if tier == "quick" else 600
    for k in range(nv):
        out.append(_var_case(rng, f"c13-{seed}-v{k}", mode={1: "chain", 3: "diffbuilt", 5: "interp2"}.get(k % 8)))
    return out


_FLIPS = [[MS, 0, 0, MS], [MS, 0, 0, MS], [-MS, 0, 0, MS], [MS, 0, 0, -MS], [-MS, 0, 0, -MS]]
_VNAMES = ["A", "B", "_bar", "_bar.alt", "_part", "Abar", "Bbar", "C", "D_"]


def _poly(rng):
    n = rng.randint(3, 5)
    x0, y0 = rng.randint(-2, 4) * 100, rng.randint(-2, 4) * 100
    pts = [(x0, y0), (x0 + 300, y0 + rng.randint(0, 1) * 100), (x0 + 400, y0 + 300), (x0 + 100, y0 + 500), (x0 - 200, y0 + 200)][:n]
    return [[x * PS, y * PS, "line"] for x, y in pts]


def _perturb(rng, g):
    h = copy.deepcopy(g)
    for c in h["cs"]:
        for p in c:
            p[0] += 2 * rng.randint(-15, 15) * PS
            p[1] += 2 * rng.randint(-15, 15) * PS
    for c in h["comps"]:
        c["d"][0] += 2 * rng.randint(-20, 20) * PS
        c["d"][1] += 2 * rng.randint(-20, 20) * PS
    h["w"] += 2 * rng.randint(0, 40) * PS
    return h


def _var_case(rng, cid, mode=None):
    """mode: None (random) | "chain" (remaining -> skipped -> skipped, innermost has the intermediate master) |
    "diffbuilt" (no sparse master; a remaining glyph is drawn as contours in one master and composed from ONE skipped glyph in
    the other) | "interp2" (two axes, partial-location sparse source, interpolatable entry point) -- the directed patterns
    get a fixed share of the cases"""
    n = rng.randint(4, 7)
    names = rng.sample(_VNAMES, n)
    m0, depth = {}, {}
    for idx, name in enumerate(names):
        g = {"cs": [], "comps": [], "anchors": [], "w": rng.randint(2, 7) * 100 * PS, "h": 0, "u": [0x41 + idx] if rng.random() < 0.6 else []}
        earlier = [e for e in names[:idx] if depth[e] < 3]
        if earlier and rng.random() < 0.65:
            for _ in range(rng.randint(1, 2)):
                g["comps"].append({"b": rng.choice(earlier), "m": list(rng.choice(_FLIPS)),
                                   "d": [rng.randint(-3, 3) * 50 * PS, rng.randint(-3, 3) * 50 * PS]})
        else:
            for _ in range(rng.randint(1, 2)):
                g["cs"].append(_poly(rng))
        depth[name] = 1 + max(depth[c["b"]] for c in g["comps"]) if g["comps"] else 0
        m0[name] = g
    # the pattern the two repository fixtures do not have: remaining composite -> skipped composite -> skipped glyph, where
    # only the innermost one has an intermediate master
    chain = None
    if mode == "diffbuilt":
        # one simple skipped glyph, referenced exactly once by a remaining glyph that has no other component
        simple = [nm for nm in names if m0[nm]["cs"] and not m0[nm]["comps"]]
        s_ = simple[0]
        m0["Dd"] = {"cs": [], "comps": [{"b": s_, "m": list(rng.choice(_FLIPS)), "d": [rng.randint(-3, 3) * 50 * PS, 0]}], "anchors": [],
                    "w": 500 * PS, "h": 0, "u": []}
        names = names + ["Dd"]
    if mode == "chain" or (mode is None and rng.random() < 0.4):
        chains = [(a, c1["b"], c2["b"]) for a in names for c1 in m0[a]["comps"] for c2 in m0[c1["b"]]["comps"]]
        if not chains and n >= 3:
            a, b, c = names[2], names[1], names[0]
            m0[b]["cs"], m0[b]["comps"] = [], [{"b": c, "m": list(rng.choice(_FLIPS)), "d": [rng.randint(-3, 3) * 50 * PS, 0]}]
            m0[a]["cs"], m0[a]["comps"] = [], [{"b": b, "m": list(rng.choice(_FLIPS)), "d": [0, rng.randint(-3, 3) * 50 * PS]}]
            if m0[c]["comps"]:
                m0[c]["comps"], m0[c]["cs"] = [], [_poly(rng)]
            chains = [(a, b, c)]
        if chains:
            chain = rng.choice(chains)
    m1 = {k: _perturb(rng, g) for k, g in m0.items()}
    sparse = {}
    if mode != "diffbuilt" and (chain or mode == "interp2" or rng.random() < 0.6):
        pick = [k for k in names if rng.random() < 0.35] or [names[0]]
        if chain:
            pick = sorted((set(pick) - {chain[0], chain[1]}) | {chain[2]})
        mid = {k: {"cs": [[[(p[0] + q[0]) // 2, (p[1] + q[1]) // 2, "line"] for p, q in zip(c0, c1)] for c0, c1 in zip(m0[k]["cs"], m1[k]["cs"])],
                   "comps": [{"b": a["b"], "m": list(a["m"]), "d": [(a["d"][0] + b["d"][0]) // 2, (a["d"][1] + b["d"][1]) // 2]}
                             for a, b in zip(m0[k]["comps"], m1[k]["comps"])],
                   "anchors": [], "w": (m0[k]["w"] + m1[k]["w"]) // 2, "h": 0, "u": []} for k in pick}
        sparse = {k: _perturb(rng, g) for k, g in mid.items()}
    # skip lists that like chains: a composite together with (some of) what it references
    skip = set(gen.subset(rng, names, rng.choice([0.2, 0.35])))
    for name in names:
        if m0[name]["comps"] and rng.random() < 0.35:
            skip.add(name)
            skip.update(c["b"] for c in m0[name]["comps"] if rng.random() < 0.8)
    if chain:
        skip = (skip - {chain[0]}) | {chain[1], chain[2]}
    if mode == "diffbuilt":
        skip = (skip - {"Dd"}) | {m0["Dd"]["comps"][0]["b"]}
    skip = sorted(skip)
    if len(skip) >= len(names):
        skip = skip[:-1]
    flavor = rng.choice(["tt", "tt", "cff2"])
    if not sparse:
        # masters need not agree on HOW a glyph is built: the first-listed master draws as plain contours what the other one
        # composes from a skipped glyph (CFF2, where every composite is decomposed anyway)
        refs = [n_ for n_ in names if n_ not in skip and any(c["b"] in skip for c in m0[n_]["comps"])]
        if refs:
            flavor = "cff2"
            n_ = "Dd" if mode == "diffbuilt" else rng.choice(refs)
            which = m0 if rng.random() < 0.7 else m1
            try:
                which[n_] = compile_exec.resolved_form(which, n_)
            except absfont.Inexact:
                pass
    if mode == "interp2":
        flavor = "tt"
    interp2 = bool(sparse) and flavor == "tt" and (mode == "interp2" or rng.random() < 0.4)
    return {"cid": cid, "var": True, "interp2": interp2, "lib": rng.choice(["ufoLib2", "defcon"]), "flavor": flavor,
            "m0": m0, "m1": m1, "sparse": sparse, "skip": skip, "via": "dslib", "names": names}   # (the designspace functions take the list from the designspace lib only, as documented)


def _render(font):
    """{name: [[ [x, y] ...] ...]} closed contours as drawn (components resolved by the glyph set), PS-scaled integers"""
    from fontTools.pens.recordingPen import DecomposingRecordingPen

    gs = font.getGlyphSet()
    out = {}
    for name in font.getGlyphOrder():
        pen = DecomposingRecordingPen(gs)
        gs[name].draw(pen)
        cs, cur = [], None
        for op, args in pen.value:
            if op == "moveTo":
                cur = [args[0]]
                cs.append(cur)
            elif op == "lineTo":
                cur.append(args[0])
            elif op in ("curveTo", "qCurveTo"):
                cur.extend(a for a in args if a is not None)
        res = []
        for c in cs:
            pts = [[absfont.to_scaled(x, PS), absfont.to_scaled(y, PS)] for x, y in c]
            ded = [p for k, p in enumerate(pts) if k == 0 or p != pts[k - 1]]
            while len(ded) > 1 and ded[-1] == ded[0]:
                ded.pop()
            res.append(ded)
        out[name] = res
    return out


def _execute_var(case):
    import io

    import ufo2ft
    from fontTools.ttLib import TTFont
    from fontTools.varLib import instancer

    lib = case["lib"]
    names = case["names"]

    def family(skip_lib):
        def ufo(gl, k):
            u = {"glyphs": copy.deepcopy(gl), "order": names, "glyphNames": names,
                 "info": {"unitsPerEm": 1000, "ascender": 800, "descender": -200, "familyName": "SkipVar", "styleName": f"M{k}"}}
            if k == 0 and case["sparse"]:
                u["layers"] = {"sparse": copy.deepcopy(case["sparse"])}
            return u
        masters = [{"loc": {"Weight": 0}, "ufo": ufo(case["m0"], 0), "name": "M0"}, {"loc": {"Weight": 8}, "ufo": ufo(case["m1"], 1), "name": "M1"}]
        if case["sparse"]:
            masters.insert(1, {"loc": {"Weight": 4}, "layer": "sparse", "of": 0, "name": "Sparse"})
        return {"axes": [{"name": "Weight", "tag": "wght", "min": 0, "default": 0, "max": 8}], "masters": masters,
                "lib": {"public.skipExportGlyphs": skip_lib} if skip_lib else {}}

    fn = ufo2ft.compileVariableTTF if case["flavor"] == "tt" else ufo2ft.compileVariableCFF2
    kw = {"useProductionNames": False}
    if case["flavor"] == "tt":
        kw["optimizeGvar"] = False      # IUP-inferred deltas are only within half a unit: keep the instances exact
    rec = {"tid": case["cid"], "_acc": "var", "skip": case["skip"], "m0": case["m0"], "m1": case["m1"], "sparse": case["sparse"],
           "_sig": [case["cid"]]}
    builds = []
    for which in (0, 1):
        if which == 0:
            ds = dsbuild.build_designspace(family([]), lib)
            k2 = dict(kw)
        elif case["via"] == "dslib":
            ds = dsbuild.build_designspace(family(case["skip"]), lib)
            k2 = dict(kw)
        else:
            ds = dsbuild.build_designspace(family([]), lib)
            k2 = dict(kw, skipExportGlyphs=list(case["skip"]))
        try:
            vf = fn(ds, **k2)
            data, vf = project.save_reload(vf)
        except Exception as e:  # noqa
            if which == 0:
                return [{"tid": case["cid"], "skip": True, "why": "unskipped build fails: " + type(e).__name__ + " " + str(e)[:100]}]
            rec["err"] = type(e).__name__ + ": " + str(e)[:160]
            return [rec]
        builds.append(data)
    if case.get("interp2"):
        # a second axis whose default is not 0, and a sparse source that states only its Weight: through
        # compileInterpolatableTTFsFromDS the sparse MASTER itself must hold every remaining glyph that (transitively) uses a
        # skipped glyph of the sparse layer, drawn as the designspace says
        def family2(skip_lib):
            fam = family(skip_lib)
            fam["axes"].append({"name": "Width", "tag": "wdth", "min": 50, "default": 100, "max": 200})
            for m in fam["masters"]:
                if not m.get("layer"):
                    m["loc"]["Width"] = 100
            return fam

        ds2 = dsbuild.build_designspace(family2(case["skip"]), lib)
        try:
            outs = ufo2ft.compileInterpolatableTTFsFromDS(ds2, useProductionNames=False).sources
            sp = [s_.font for s_ in outs if s_.layerName][0]
            _, sp = project.save_reload(sp)
            rec["sparseHas"] = sp.getGlyphOrder()
            rec["rS"] = _render(sp)
        except absfont.Inexact as e:
            return [{"tid": case["cid"], "skip": True, "why": f"inexact sparse master: {e}"}]
        except Exception as e:  # noqa
            rec["err"] = "interp2: " + type(e).__name__ + ": " + str(e)[:160]
            return [rec]
    f0, f1 = (TTFont(io.BytesIO(d)) for d in builds)
    rec["order0"], rec["order1"] = f0.getGlyphOrder(), f1.getGlyphOrder()
    cm = set()
    for t in f1["cmap"].tables:
        cm |= set(t.cmap.values())
    rec["cmap1"] = sorted(cm)
    rec["locs"] = []
    for loc in ([0, 4, 8] if case["sparse"] else [0, 8]):
        insts = [instancer.instantiateVariableFont(TTFont(io.BytesIO(d)), {"wght": loc}, inplace=False) for d in builds]
        try:
            r0, r1 = _render(insts[0]), _render(insts[1])
        except absfont.Inexact as e:
            return [{"tid": case["cid"], "skip": True, "why": f"inexact instance: {e}"}]
        rec["locs"].append({"loc": loc, "r0": r0, "r1": r1,
                            "adv0": {n: insts[0]["hmtx"][n][0] for n in insts[0].getGlyphOrder()},
                            "adv1": {n: insts[1]["hmtx"][n][0] for n in insts[1].getGlyphOrder()}})
    return [rec]


def _execute_inst(case):
    from fontTools.designspaceLib import InstanceDescriptor

    from ufo2ft.instantiator import Instantiator

    from .. import absfont, dsbuild

    info = {"unitsPerEm": 1000, "ascender": 800, "descender": -200, "familyName": "InstSkip"}
    masters = []
    for k, gs in enumerate(case["masters"]):
        ufo = {"glyphs": copy.deepcopy(gs), "order": sorted(gs), "glyphNames": sorted(gs), "info": dict(info, styleName=f"M{k}")}
        if k == 0 and case.get("ufoSkip") is not None:
            ufo["lib"] = {"public.skipExportGlyphs": list(case["ufoSkip"])}
        masters.append({"loc": {"Weight": [0, 8][k]}, "ufo": ufo, "name": f"M{k}"})
    fam = {"axes": [{"name": "Weight", "tag": "wght", "min": 0, "default": 0, "max": 8}], "masters": masters,
           "lib": {"public.skipExportGlyphs": list(case["dsSkip"])}}
    ds = dsbuild.build_designspace(fam, case["lib"])
    inst = InstanceDescriptor()
    inst.location = {"Weight": 0}        # (at the default master: the instance's glyphs are that master's, exactly)
    inst.familyName, inst.styleName = "InstSkip", "I0"
    font = Instantiator.from_designspace(ds).generate_instance(inst)
    c = {"cid": case["cid"], "lib": case["lib"], "flavor": case["flavor"], "kwargs": dict(case["kwargs"]), "expectSkip": list(case["dsSkip"]),
         "ufo": {"glyphs": case["masters"][0], "lib": {}}}
    rec = compile_exec.static_compile(c, glyphsets=False, font=font)
    if rec.get("skip"):
        return [rec]
    rec["events"] = []
    rec["master"] = 0          # (no hook-event grammar for this record: only the final clauses apply)
    # the same instance without skipping anything
    font2 = Instantiator.from_designspace(dsbuild.build_designspace(fam, case["lib"])).generate_instance(inst)
    c2 = dict(c, cid=case["cid"] + "-noskip", kwargs=dict(case["kwargs"], skipExportGlyphs=[]))
    r2 = compile_exec.static_compile(c2, glyphsets=False, font=font2)
    if not r2.get("skip") and "order" in r2.get("ret", {}):
        rec["noskipOrder"] = r2["ret"]["order"]
    return [rec]


def execute(case):
    if case.get("var"):
        return _execute_var(case)
    if case.get("inst"):
        return _execute_inst(case)
    rec = compile_exec.static_compile(case)
    if rec.get("skip"):
        return [rec]
    # the same source without skipping anything
    c2 = copy.deepcopy(case)
    c2["kwargs"]["skipExportGlyphs"] = []
    c2["cid"] = case["cid"] + "-noskip"
    r2 = compile_exec.static_compile(c2, glyphsets=False)
    if not r2.get("skip") and "order" in r2.get("ret", {}):
        rec["noskipOrder"] = r2["ret"]["order"]
    return [rec]


def preclassify(rec, rep):
    if rec.get("skip") is True:
        rep.notes["skipped"] = rep.notes.get("skipped", 0) + 1
        return "skip"


def nontrivial(rec):
    if rec.get("_acc") == "var":
        sk = set(rec["skip"])
        return any(c["b"] in sk for n, g in rec["m0"].items() if n not in sk for c in g["comps"])
    sk = set(rec["opts"]["skip"])
    return any(c["b"] in sk for n, g in rec["src"].items() if n not in sk for c in g["comps"])


def classify(rec, pfail, mfail, extra, rep):
    if rec.get("_acc") == "var" and pfail == "compiles" and extra and extra[0] == "F-C13-1":
        rep.known("F-C13-1", "designspace path: a remaining glyph is composed in one master (a kept component before a skipped one) "
                             "and drawn as plain contours in another; inlining the skipped component reorders the contours in that "
                             "master only and the build fails, although it succeeds when nothing is skipped")
        return "known:F-C13-1"
    if pfail != "none" and rec.get("_acc") == "var":
        rep.notes.setdefault("witnesses", []).append({"tid": rec["tid"], "clause": pfail, "err": rec.get("err", "")})
    return None
