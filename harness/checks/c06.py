"""C06 -- generated mark features make matching anchors coincide."""
import random

from .. import layout_exec, layout_gen

PROPERTY = "C06"
TRACE_MODULE = "MarkTrace"
TRACE_CFG = "MarkTrace.cfg"
RULE = ("random fonts with bases, marks, ligatures (Latin, optionally Arabic, or Devanagari triggering abvm/blwm), anchors "
        "from {top, bottom, ogonek, top.alt, center} as base / '_'-prefixed / numbered ligature / NULL component anchors, "
        "several per glyph, fractional coordinates with ties, mark-to-mark anchors, unpaired classes, with or without "
        "public.openTypeCategories, GSUB alternates, languagesystems, groupMarkClasses on/off, quantisation {1,5}; one case in five hands the same writer instance to further fonts; plus variable anchors of 2-3 master families read back at "
        "every master location; TLC "
        "evaluates EVERY (language system, kind, anchor bearer, component, mark) item on the compiled GPOS; non-trivial = "
        "the font has at least one item with a non-empty candidate set; distinct by source digest")
ASSUMPTIONS = ["OpenType semantics: within a lookup the first subtable covering both glyphs applies, across lookups the last applying one wins",
               "pairs whose bearer is routed to abvm/blwm and whose mark is not (or vice versa) are outside the domain (DESIGN 4.2)"]
SHARDS = 16


def design_checks(tier):
    # MarkWriterMC: the writer model the trace acceptor compares compiled fonts with (MarkWriter.tla), explored over every
    # anchor assignment; the two must-fail configurations show that the signature of F-C06-1 is needed and that the writer's
    # documented "MC_top is applied late so that it wins" does not always hold with groupMarkClasses
    strict = [dict(module="MarkWriterMC", cfg="MarkWriterMC_strict.cfg", workers=2, timeout=120, expect_violation="C06_Model_Strict"),
              dict(module="MarkWriterMC", cfg="MarkWriterMC_top.cfg", workers=4, timeout=300, expect_violation="TopWins")]
    if tier == "quick":
        return [dict(module="MarkMC", cfg="MarkMC.cfg", workers=8, timeout=600),
                dict(module="MarkWriterMC", cfg="MarkWriterMC_quick.cfg", workers=8, timeout=600)] + strict
    return [dict(module="MarkMC", cfg="MarkMC.cfg", workers=8, timeout=600),
            dict(module="MarkWriterMC", cfg="MarkWriterMC_quick.cfg", workers=8, timeout=600),
            dict(module="MarkWriterMC", cfg="MarkWriterMC.cfg", workers=16, timeout=1800),
            dict(module="MarkWriterMC", cfg="MarkWriterMC_lig.cfg", workers=16, timeout=1800)] + strict


def cases(tier, seed):
    n = 120 if tier == "quick" else 1500
    rng = random.Random(seed * 217645199 + 6)
    out = []
    for k in range(n):
        c = layout_gen.anchors_font(rng) if rng.random() < 0.85 else layout_gen.mark_conflict_font(rng)
        c.update({"cid": f"c06-{seed}-{k}", "lib": rng.choice(["ufoLib2", "defcon"]), "writers": ["mark"]})
        if k % 5 == 4:
            # the same writer instance then serves one or two other fonts (same options)
            c["then"] = []
            for j in range(rng.randint(1, 2)):
                d = layout_gen.anchors_font(rng)
                d.update({"cid": f"c06-{seed}-{k}+{j + 1}", "lib": c["lib"], "writers": ["mark"], "q": c.get("q", 1), "markOpts": c.get("markOpts")})
                c["then"].append(d)
        out.append(c)
    # Indic fonts whose ligature components carry numbered anchors of every name the writer routes to abvm / blwm by name
    rng2 = random.Random(seed * 217645199 + 60006)
    for k in range(16 if tier == "quick" else 200):
        c = layout_gen.indic_anchors_font(rng2)
        c.update({"cid": f"c06-{seed}-in{k}", "lib": rng2.choice(["ufoLib2", "defcon"]), "writers": ["mark"]})
        out.append(c)
    # the feature file already defines a mark class under the writer's canonical name (@MC_<anchor>) whose anchor for one mark
    # DISAGREES with the UFO: the generated lookups still attach by the UFO anchors (the writer renames its own class)
    rng3 = random.Random(seed * 217645199 + 60007)
    made = 0
    for _try in range(400):
        if made >= (12 if tier == "quick" else 150):
            break
        c = layout_gen.anchors_font(rng3)
        by_key = {}
        for n in c["ufo"]["glyphNames"]:
            for a in c["ufo"]["glyphs"][n]["anchors"]:
                if a["n"].startswith("_") and len(a["n"]) > 1 and not a["n"][1:].isdigit():
                    by_key.setdefault(a["n"][1:], []).append(n)
        base_keys = {a["n"] for n in c["ufo"]["glyphNames"] for a in c["ufo"]["glyphs"][n]["anchors"] if not a["n"].startswith("_")}
        keys = sorted(k_ for k_, ms in by_key.items() if len(ms) >= 2 and k_.isalpha() and k_ in base_keys)      # (a PAIRED class)
        if not keys:
            continue
        key = keys[made % len(keys)]
        which = by_key[key][0 if made % 2 == 0 else -1]      # the clashing mark comes first / last in glyph order
        stmt = f"markClass {which} <anchor {3 + made} {7 * made}> @MC_{key};"
        c["ufo"]["fea"] = stmt + "\n" + c["ufo"]["fea"]
        c.update({"cid": f"c06-{seed}-mc{made}", "lib": rng3.choice(["ufoLib2", "defcon"]), "writers": ["mark"]})
        out.append(c)
        made += 1
    # variable anchors: 2-3 master families (also with values that agree in the first- and last-listed source and differ in
    # between), read back at every master location
    from .. import gen

    for k in range(10 if tier == "quick" else 80):
        out.append({"cid": f"c06-{seed}-v{k}", "var": True, "lib": rng.choice(["ufoLib2", "defcon"]),
                    "fam": gen.rich_family(rng, n_masters=3 if k % 3 else 2), "flavor": rng.choice(["tt", "cff2"]),
                    "varFeatures": True, "prodNames": False})
    return out


def execute(case):
    if case.get("var"):
        from . import c10

        recs = []
        for r in c10.execute(case):
            if r.get("_acc") == "mark":
                recs.append({k: v for k, v in r.items() if k != "_acc"})
            elif r.get("err"):
                raise RuntimeError("variable compile failed: " + r["err"])
        return recs
    recs = []
    for c, f2, fea in layout_exec.compile_sequence(case):
        rec = layout_exec.mark_record(c, f2, c["cid"])
        rec["_fea"] = fea
        recs.append(rec)
    return recs


def nontrivial(rec):
    return any(a["isMark"] for g in rec["glyphs"] for a in g["anchors"])


def classify(rec, pfail, mfail, extra, rep):
    items, nonempty, known = extra[0], extra[1], extra[2]
    rep.notes["items_evaluated"] = rep.notes.get("items_evaluated", 0) + items
    rep.notes["items_with_candidates"] = rep.notes.get("items_with_candidates", 0) + nonempty
    if known:
        rep.known("F-C06-1", "a mark glyph none of whose '_x' anchors has a counterpart is not treated as a mark: its base-type "
                             "anchors are ignored for mark-to-mark and GDEF excludes it from mark-to-base")
    if pfail != "none":
        rep.notes.setdefault("witnesses", []).append({"tid": rec["tid"], "witness": extra[3]})
    return None
