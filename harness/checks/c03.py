"""C03 -- glyph order and character map follow the source exactly."""
import random

from .. import font_exec, gen

PROPERTY = "C03"
TRACE_MODULE = "FontTrace"
TRACE_CFG = "FontTrace.cfg"
RULE = ("(every fourth case enters through compileVariableTTF or the first master of compileInterpolatable*FromDS, with the UFO as default master of a two-master family) random glyph-name sets (upper/lower case, dots, underscores, digits; with or without '.notdef') x glyph order lists "
        "(permutations, duplicates, unknown names, '.notdef' anywhere, absent; via public.glyphOrder or the glyphOrder "
        "argument) x code point assignments (BMP + supplementary, several per glyph, duplicates across glyphs) x variation "
        "sequences x {TTF, OTF} x {defcon, ufoLib2}; non-trivial = a requested order or a supplementary code point is "
        "present; distinct by digest of (names, order, code points)")
ASSUMPTIONS = ["fontTools cmap / post / CFF charset decompilers are the observation channel"]

POOL = ["a", "b", "B", "A", "a.alt", "a_b", "Z", "z", "one", "one.sc", "_x", "x1", "x10", "x2", "Aacute", "f_f_i", "uni0041",
        "space", "nbspace", "dotlessi", "C", "c", "zero", "O", "o.ss01"]
CPS = [0x0, 0xD, 0x20, 0x41, 0x42, 0x61, 0x62, 0xE9, 0x3B1, 0x5D0, 0x627, 0xFFFD, 0x1F600, 0x1F601, 0x2F800, 0x10000, 0xFFFF, 0x31]


def design_checks(tier):
    if tier == "quick":
        return [dict(module="OrderCmapMC", cfg="OrderCmapMC_quick.cfg", workers=16, timeout=600)]
    return [dict(module="OrderCmapMC", cfg="OrderCmapMC.cfg", workers=16, timeout=3000)]


def _square(x0=0, y0=0, s=100):
    P = 1024
    return [[x0 * P, y0 * P, "line"], [(x0 + s) * P, y0 * P, "line"], [(x0 + s) * P, (y0 + s) * P, "line"], [x0 * P, (y0 + s) * P, "line"]]


def cases(tier, seed):
    n = 220 if tier == "quick" else 4000
    rng = random.Random(seed * 86028121 + 3)
    out = []
    for k in range(n):
        cnt = rng.choice([1, 2, 3, 4, 5, 6, 8, 12, len(POOL)])
        names = rng.sample(POOL, min(cnt, len(POOL)))
        if rng.random() < 0.3:
            names.append(".notdef")
        glyphs = {}
        conflict = rng.random() < 0.12
        avail = list(CPS)
        rng.shuffle(avail)
        for nm in names:
            g = {"cs": [_square(rng.randint(-50, 50), rng.randint(-50, 50), rng.randint(10, 200))] if rng.random() < 0.8 else [],
                 "comps": [], "anchors": [], "w": rng.randint(0, 1000) * 1024, "h": 0, "u": []}
            if nm != ".notdef":
                for _ in range(rng.choice([0, 1, 1, 1, 2])):
                    if avail:
                        g["u"].append(avail.pop())
            glyphs[nm] = g
        if conflict and len(names) >= 2:
            a, b = rng.sample([x for x in names if x != ".notdef"] or names, 2) if len([x for x in names if x != ".notdef"]) >= 2 else (names[0], names[0])
            if a != b:
                cp = rng.choice(CPS)
                for x in (a, b):
                    if cp not in glyphs[x]["u"]:
                        glyphs[x]["u"].append(cp)
        ufo = {"glyphs": glyphs, "glyphNames": rng.sample(names, len(names)),
               "info": {"unitsPerEm": 1000, "ascender": 800, "descender": -200}}
        kwargs = {}
        r = rng.random()
        order = None
        if r < 0.75:
            base = rng.sample(names, rng.randint(0, len(names)))
            extra = []
            if rng.random() < 0.4:
                extra += rng.sample(names, min(len(names), 2))      # duplicates
            if rng.random() < 0.4:
                extra += ["zz", "missing.glyph"]
            if rng.random() < 0.3:
                extra += [".notdef"]
            order = base + extra
            rng.shuffle(order)
        if order is not None:
            if rng.random() < 0.5:
                kwargs["glyphOrder"] = order
                if rng.random() < 0.5:
                    ufo["order"] = rng.sample(names, len(names))   # must be ignored in favour of the argument
            else:
                ufo["order"] = order
        # variation sequences
        mapped = [(cp, nm) for nm in names for cp in glyphs[nm]["u"]]
        if mapped and rng.random() < 0.3 and not conflict:
            uvs = {}
            for vs in rng.sample(["FE00", "FE0F", "E0100"], rng.randint(1, 2)):
                m = {}
                for cp, nm in rng.sample(mapped, min(len(mapped), 2)):
                    m["%04X" % cp] = nm if rng.random() < 0.5 else rng.choice(names)
                uvs[vs] = m
            ufo["lib"] = {"public.unicodeVariationSequences": uvs}
        out.append({"cid": f"c03-{seed}-{k}", "lib": rng.choice(["ufoLib2", "defcon"]), "flavor": rng.choice(["tt", "cff"]),
                    "ufo": ufo, "kwargs": kwargs})
    # fonts whose LAYOUT features are generated too (attaching anchors, kerning), with code points of scripts the feature
    # writers treat specially (Indic / USE / Khmer, right-to-left, supplementary planes): the character map the font ends up
    # with is still the source's, in every subtable
    rng2 = random.Random(seed * 86028121 + 30003)
    SPECIAL = [0x915, 0x917, 0x958, 0x902, 0x1780, 0x17B6, 0x11103, 0x11101, 0x5D0, 0x627, 0x64E, 0x301, 0x41, 0x61, 0xE81, 0x1E900, 0x104B0]
    for k in range(16 if tier == "quick" else 200):
        cps = rng2.sample(SPECIAL, rng2.randint(4, 9))
        if k % 2 == 0:
            cps = [cp for cp in cps if cp < 0x10000] or [0x915, 0x902]
        names = [f"g{cp:04X}" for cp in cps]
        glyphs = {}
        marks = {0x902, 0x17B6, 0x11101, 0x64E, 0x301}
        for nm, cp in zip(names, cps):
            mark = cp in marks
            glyphs[nm] = {"cs": [_square(0, 0, 100)], "comps": [], "w": (0 if mark else 500) * 1024, "h": 0, "u": [cp],
                          "anchors": [{"n": "_top", "x": 0, "y": 500 * 1024}] if mark else [{"n": "top", "x": 250 * 1024, "y": 600 * 1024}]}
        if not any(cp in marks for cp in cps):
            glyphs["gmark"] = {"cs": [_square(0, 0, 50)], "comps": [], "w": 0, "h": 0, "u": [0x902],
                               "anchors": [{"n": "_top", "x": 0, "y": 500 * 1024}]}
            names.append("gmark")
        ufo = {"glyphs": glyphs, "glyphNames": list(names), "order": list(names),
               "info": {"unitsPerEm": 1000, "ascender": 800, "descender": -200},
               "kerning": [[names[0], names[1], -40]] if len(names) > 1 else [], "kernScale": 1}
        out.append({"cid": f"c03-{seed}-ly{k}", "lib": rng2.choice(["ufoLib2", "defcon"]), "flavor": "tt" if k % 3 else "cff",
                    "ufo": ufo, "kwargs": {}, "via": "static" if k % 4 else "vf"})
    return out


def execute(case):
    # every fourth case enters through a designspace function instead of compileTTF / compileOTF
    k = sum(ord(ch) for ch in case["cid"])
    if "via" not in case and k % 4 == 0 and not case["cid"].count("empty"):
        case = dict(case, via="vf" if (case["flavor"] == "tt" and k % 8 == 0) else "interp")
    return [font_exec.font_record(case)]


def classify(rec, pfail, mfail, extra, rep):
    if pfail != "none" and font_exec.isoadobe_prefix_failure(rec):
        rep.known("F-C04-1", "compileOTF (CFF 1, cffsubr) of a font whose glyph order is a prefix of the ISOAdobe charset "
                             "cannot be saved (AttributeError: charset); recorded under C04")
        return "known:F-C04-1"
    return None


def nontrivial(rec):
    return bool(rec["req"]) or any(cp > 0xFFFF for v in rec["unicodes"].values() for cp in v)
