#!/venv/bin/python
"""Regenerates MANIFEST.json from the table below (single source of truth for the registered checks)."""
import json, os, subprocess
VERIF = os.path.dirname(os.path.dirname(os.path.abspath(__file__)))

HOOK_COMMITS = ["c3d3db1"]
FIX_COMMITS = ["b26044a", "584cccc", "84460e9", "acfe447", "262d9d2", "8a3d93d", "1cdbd16", "1eece05"]

# what later rounds added to each check (entry points, inputs, clauses); appended to the level text
ALSO = {
 "C01": "Also driven: compileInterpolatableOTFsFromDS families where a composite is drawn as contours in some masters, skipExportGlyphs lists, colour-layer fonts (glyph-set keys differ from glyph names). Colour alternates '<glyph>.<layer>' are declared source glyphs with advances of their own. ColorLayers.tla / ColorTrace: COLR v0 / CPAL records of the colour cases equal the model.",
 "C02": "Also driven: compileInterpolatableTTFs / FromDS families with mixed glyphs holding enlarged cubic components; the unrounded TTFPreProcessor result is measured against the configured conversion error (explicit errors, small ems); a source '.notdef'. The variable TrueType font itself is read back at every master (a two-component composite whose second 2x2 differs in one master). Sources carrying the cu2qu 'already quadratic' marker compiled not in place. Cubic curves with convertCubics=False (the compile has to refuse).",
 "C03": "Every fourth case enters through compileVariableTTF or an interpolatable master; requested orders with duplicates / partial lists through the glyphOrder argument. Fonts with generated layout and Indic / right-to-left / supplementary code points (the feature writers must not touch the cmap).",
 "C04": "Every fourth case enters through a designspace function; the returned font's derived fields are compared with the saved ones; degenerate (single-point) outlines. TrueType glyph programs on simple and composite glyphs; every glyph-derived maxp count is compared with the stored glyf data. The advance each CFF charstring declares equals hmtx (a glyph as wide as nominalWidthX).",
 "C05": "Also: the variable-features path of both writers (kernFeatureWriter2 through the lib key), reused writer instances, non-default language systems in any declaration order, the mark writer alongside, neutral-bidi glyphs of right-to-left scripts; KernSplitMC models the script-split writer at design level. KernDirMC models the direction-split writer (kernFeatureWriter2) the same way: C05 holds there without a signature for non-mixed pairs; F-C05-3 certified by a must-fail config. Right-to-left letters against Inherited-only marks on the second side.",
 "C06": "Also: variable anchors of 2-3 master families read back at every master, ligatures with two-digit component numbers, a second undeclared Indic script, a spacing accent declared base, reused writer instances. MarkWriter.tla: a level-B model of MarkFeatureWriter (pairing, mark classes, attachments, lookup grouping by graph colouring) explored by MarkWriterMC (1.3M states, two must-fail configs) and compared with every compiled font (model-attachment); mark-feature-present; Indic numbered ligature anchors of every routed name. Hand-written markClass statements under the writer's canonical names (this exposed defect 1eece05).",
 "C07": "Also: nested / mixed composites with lib-selected pre-filters on families, per-master skip lists through compileInterpolatableTTFs, variable fonts with public.fontInfo overrides, explicit list-valued info attributes. In-memory designspaces with unnamed / duplicate source names.",
 "C08": "Also: sources with lib-selected filters (PropagateAnchors on ligature marks, DottedCircle averaging with order-sensitive decimals), mark-class conflict graphs under 9 hash seeds, one caller-owned ftConfig object across the calls of a history, variable fonts with info overrides. Nested composites flattened after an earlier filter changed the intermediate glyph, inplace vs copy. Contextual mark anchors (identifier + public.objectLibs), inplace vs copy.",
 "C09": "Also: component 2x2 as part of the TrueType structure, stand-alone sparse UFO masters, nested composites in sparse masters with flattenComponents, lib-selected post filters; fixed shares for the directed patterns. compileVariableTTFs / CFF2s with a full and a lower-range variable font sharing masters, each read back at its masters. VFSplit.tla (+ VFSplitTrace): which sources a designspace-v5 build compiles together and each variable font's base master, two must-fail design alternatives. Per-glyph clause for glyphs mixed in some masters only (jointly-fixable-glyphs-stay-compatible).",
 "C10": "Also: kernFeatureWriter2, masters without kerning, a base used twice with a 2x2 differing in one master, glyph-to-class exceptions missing in one master, first/last-agreeing values; FeaPipeline!OnlyAdds observed on Writer events. Several variable fonts per designspace; a zero-valued glyph-to-class exception in every master; composites compared by what they draw. A kerning group only a non-default master defines. Instances also compared with the masters' SOURCES (straight-line glyphs, point sets); flattenComponents on nested composites.",
 "C11": "Also: variable TTF / CFF2, collision chains, non-BMP ligature parts, double suffixes, rename rotations; the derived-name rule is a property clause; outlines compared index by index. keepGlyphNames lib key together with the explicit argument.",
 "C12": "Also: compileVariableCFF2 (levels 0-2, instantiated at masters) and compileInterpolatableOTFsFromDS with a segment degenerating in one master; the advance each CFF charstring declares; rename rotations. Negative nominal / zero default widths. Smooth quadratic splines through all option combinations.",
 "C13": "Also: SkipVarTrace.tla -- variable TTF / CFF2 and interpolatable masters with sparse layers, skipped-inside-skipped chains, differently built masters, a second axis with a partial-location sparse source. A non-default layer compiled on its own (layerName) with the skip list from the font lib or the argument. Static instances of a designspace (designspace list vs a stale list in the default source). SkipResolve.tla: skip-list resolution per entry point with two must-fail designs.",
 "C14": "Also: dotted-circle shaped glyph sets with an existing U+25CC, colour glyph sets (keys differ from names). Separate glyph sets given as plain dicts; non-default filter options (rememberCurveType, conversionError, ...). Empty include lists. One filter object (with include / exclude) shared by the masters of an interpolatable pre-processor run.",
 "C15": "Also: PropagateAnchors.tla, a functional model of anchor propagation bound through FilterTrace, certified against the C15 clauses by PropagateMC (48,673 glyph sets); a completeness clause; two-font histories for the transformations filter. The interpolatable pre-processor pipeline with a sparse master (propagate anchors, transform the bases, decompose) judged by PipelineTrace against hand-transformed declared sources. Flatten / decompose chains of depth 3-4 with non-identity first leaves.",
 "C16": "Also: bit-list attributes, OS/2 sub/superscript/strikeout metrics, weight / width class, version, unique ID, vendor, fixed pitch, the vhea cluster, thirteen plain name records, variable-font info overrides. Two variable fonts cut from one designspace, one with its default moved to a master with different info. Variable fonts sharing a default master with disjoint override keys. InfoOverrides.tla: copy vs alias of the base master's info across variable fonts (must-fail config). Explicit openTypeNameRecords (other languages / platforms) in variable fonts with info overrides.",
 "C17": "Also: GDEF table blocks statement by statement (classes, carets by position / contour point), Devanagari abvm / blwm blocks, empty feature blocks. A caller-owned featureWriters list [...] reused across fonts. WritersList.tla: fresh list vs in-place expansion of the placeholder (must-fail config).",
 "C18": "Also: reused writer instances, designspace rule substitutions, variable anchors with a sparse layer read back at three locations, compound cursive suffixes; FeaPipeline.tla models the shared feature-file AST (fails for the pre-fix design). Contextual / ligature substitutions whose input or context holds a direction-neutral glyph. The default source not listed first, the first-listed master with other / no glyph categories. User GDEF blocks defining carets by contour point index / position next to caret anchors.",
 "C19": "Also: the empty-master rule, kerning-less masters, kerning and ordinary groups following rule swaps, instantiation failures as property failures. Non-dyadic instance locations (axis 0..10) with float noise snapped and representability demanded. Two-axis families with off-axis masters against the variation model in designspace axis order.",
 "C20": "Also: every language system (not only the default one), scripts with two OpenType tags and with three-letter tags, any declaration order, variable / merged / interpolatable entry points. Scripts chained by kerning pairs that straddle two of them, in every listing order; kerning-reachable-where-it-acts. Scripts encoded above U+FFFF.",
}

CHECKS = {
 "C01": dict(
    text="The TLA+ glyph algebra (Resolve, decomposition, reversal of mirrored components, exact rounding with tolerance) "
         "is model-checked exhaustively at small scope, and every recorded compileOTF execution (hook events PreStart, "
         "Filter*, Preprocessed, Outlines, Postprocessed + reloaded font) is validated step by step by TLC: model successor "
         "per filter stage, final outline/advance equal to the rounded Resolve of the SOURCE.",
    note="Trusted: TLC; fontTools CFF decoder + RecordingPen as observation; exact dyadic input domain.",
    technique="TLA+ pipeline specification; TLC exhaustive check + event-by-event TLC trace validation of compileOTF",
    design="5 C01"),
 "C02": dict(
    text="As C01 for compileTTF: TLC validates every recorded execution against the TrueType expectations derived from the "
         "source in TLA+ (mixed glyphs decomposed, flatten = FlatComp, point-level reversal, F2Dot14 overflow decomposition, "
         "component records, maxp counts); cubic conversion error enters as a measured observation bounded by the spec.",
    note="Trusted: TLC; fontTools glyf decompiler; cu2qu error is measured by dense sampling in the harness.",
    technique="TLA+ pipeline specification; TLC trace validation of compileTTF executions + exhaustive filter-algebra check",
    design="5 C02"),
 "C03": dict(
    text="makeOfficialGlyphOrder / makeUnicodeToGlyphNameMapping are transcribed in TLA+ and checked exhaustively against "
         "the declarative order / cmap statement (all name subsets, requested orders with duplicates and unknown names, code "
         "point assignments incl. conflicts: 5M states); every recorded compile is validated by TLC on the reloaded glyph "
         "order, all cmap subtables, variation sequences, maxp.numGlyphs and the post/CFF name list.",
    note="Trusted: TLC; fontTools cmap/post/CFF decompilers.",
    technique="TLA+ order/cmap model; TLC exhaustive check + TLC validation of observed tables of real compiles",
    design="5 C03"),
 "C04": dict(
    text="Metrics.tla states every derived field (side bearings, header maxima/minima/extent, long-metric count loop vs "
         "declarative definition, font box, vertical analogue, VORG decode, OS/2 char range); TLC checks the loop "
         "exhaustively and evaluates the formulas on the reloaded tables of every generated compile; re-save identity is an "
         "observation the trace requires.",
    note="Trusted: TLC; harness recomputes glyph boxes from stored outlines; fontTools recalculates some header fields on save (those are then fontTools' values, still required to be consistent).",
    technique="TLA+ metrics model; TLC exhaustive loop check + TLC validation of observed tables of real compiles",
    design="5 C04"),
 "C05": dict(
    text="UFO kerning precedence (UfoKerning.tla) and OpenType GPOS application (OTPos.tla: script/langsys reachability, lookup "
         "flags and mark filtering sets, PairPos 1/2 first-deciding-subtable rule) are written in TLA+; TLC checks the writer "
         "core (prune, drop zero class-class, quantise, sort by kind, first match) exhaustively against the UFO reference and "
         "evaluates, on the structural GPOS/GDEF dump of every generated compile, EVERY (script, language, glyph, glyph) "
         "triple: advance = quantised UFO value, RTL placement = advance, mixed-direction pairs zero-or-value, both writers.",
    note="Trusted: TLC; fontTools otTables decompiler; Unicode data for the independent script/bidi classification.",
    technique="TLA+ OpenType interpreter + UFO kerning reference evaluated by TLC on compiled tables; exhaustive TLC check of the writer core",
    design="5 C05"),
 "C06": dict(
    text="OTPos.tla interprets MarkBasePos / MarkLigPos / MarkMarkPos (last applying lookup wins); MarkTrace.tla computes the "
         "candidate offsets from the UFO anchors (quantise-then-round, ligature component numbering, NULL components, GDEF "
         "classes) and TLC checks every (language system, kind, bearer, component, mark) item of every generated compile; "
         "MarkMC.tla checks the one-lookup-per-class / last-wins rule exhaustively.",
    note="Trusted: TLC; fontTools otTables decompiler; anchor-name parsing re-implemented lexically in the harness.",
    technique="TLA+ mark-attachment interpreter evaluated by TLC on compiled tables; exhaustive TLC check of the class/lookup ordering rule",
    design="5 C06"),
 "C16": dict(
    text="FontInfo.tla states the fallback chains (metrics as exact quarter-unit arithmetic, style-map / preferred / PostScript "
         "names on code-point sequences) and the field mapping; TLC checks the metric cluster over all presence subsets; every "
         "generated info subset (incl. non-ASCII, non-BMP and PostScript-forbidden characters) is compiled to TTF and OTF and "
         "the reloaded name / OS/2 / hhea / head / post / CFF fields are validated by TLC.",
    note="Trusted: TLC; fontTools table decompilers; italicAngle = 0 domain; NFKD normalisation is environment (post-condition only).",
    technique="TLA+ fallback/field model; TLC exhaustive subset check + TLC validation of reloaded tables of real compiles",
    design="5 C16"),
 "C17": dict(
    text="FeaFile.tla states C17 declaratively (user statements are a subsequence of the compiled source; per tag: untouched "
         "without marker, generated rules exactly at the first marker's position with one); FeaMC.tla transcribes setContext / "
         "collectInsertMarkers / _insert and TLC checks it exhaustively over all small feature files (also: generated lookups "
         "precede generated features); every generated compile's debugFeatureFile is parsed back and validated by TLC, together "
         "with GSUB byte equality and the GSUB-writers-first order taken from the Writer hook events.",
    note="Trusted: TLC; feaLib parser for the projection; statements identified by normalised text.",
    technique="TLA+ insertion model checked exhaustively by TLC + TLC validation of parsed-back feature sources and writer events",
    design="5 C17"),
 "C18": dict(
    text="GdefCursTrace.tla states the expected GDEF glyph classes (categories restricted to exported glyphs, invalid values "
         "ignored, user GlyphClassDef left alone), caret lists (rounded, increasing) and cursive records (rounded entry/exit, "
         "RightToLeft flag by glyph direction or anchor suffix); TLC evaluates them on the compiled GDEF/GPOS of every generated "
         "font; CursMC.tla checks the lookup split rule exhaustively.",
    note="Trusted: TLC; fontTools otTables decompiler; direction classification recomputed from Unicode Script + GSUB closure.",
    technique="TLA+ statement of GDEF/caret/cursive expectations evaluated by TLC on compiled tables; exhaustive TLC check of the split rule",
    design="5 C18"),
 "C19": dict(
    text="VarModel.tla states the single-axis variation model (piecewise linear between adjacent masters) on exact integers and "
         "TLC checks master reproduction / betweenness / two-master linearity exhaustively; every generated instance "
         "(Instantiator.generate_instance at master and non-master locations, rounding on/off, rules) is validated by TLC: "
         "glyph set, every coordinate / offset / anchor / advance / kerning / info value equals the blend, swapped references, "
         "code points untouched, plus observations sources-untouched, repeatable, order-independent, swap involution.",
    note="Trusted: TLC; fontTools varLib / fontMath as environment (kerning rounds halves away from zero there); exact dyadic families.",
    technique="TLA+ variation-model spec; TLC exhaustive check + TLC validation of instances generated by the real Instantiator",
    design="5 C19"),
 "C20": dict(
    text="Layout.tla models feaLib's registration semantics and the kern writer's explicit registration; TLC proves C20 holds "
         "exactly outside the known-finding signature (and a strict config must fail); LayoutTrace.tla evaluates the "
         "reachability clause on the compiled ScriptList/FeatureList/lookups of every generated font.",
    note="Trusted: TLC; fontTools otTables decompiler.",
    technique="TLA+ registration model checked by TLC + TLC evaluation of reachability on compiled GPOS",
    design="5 C20"),
 "C07": dict(
    text="Purity.tla states `no step of a call without inplace changes the sources` as an action property over the call "
         "protocol (incl. compile_variable's save/override/restore of compiler options and the raise path) and TLC checks it; "
         "every schedule (source x 9 compile functions x option combinations x 1-2 calls, generated sources and all "
         "tests/data fixtures) is executed with a structural snapshot of every source component at EVERY hook and TLC "
         "validates each call's event sequence, so a rejection names the stage that wrote.",
    note="Trusted: TLC; the snapshot function (what it covers is listed in the evidence assumptions).",
    technique="TLA+ call-protocol model with action property; TLC check + per-stage TLC trace validation of real call histories",
    design="5 C07"),
 "C08": dict(
    text="The memo machine of Purity.tla (key = function, options without inplace, content-before; environment deliberately "
         "not in the key) is checked by TLC; call histories are run in fresh subprocesses under several PYTHONHASHSEED values, "
         "both UFO libraries, memory vs disk, and TLC rebuilds the memo over the union of all logs: one key, one digest.",
    note="Trusted: TLC; sha256 of saved bytes as opaque observation; SOURCE_DATE_EPOCH pinned.",
    technique="TLA+ history/memo model; TLC check + TLC validation of digests logged by fresh subprocesses across environments",
    design="5 C08"),
 "C09": dict(
    text="The joint-decision model of the interpolatable filters (IJointModel, CompatibleMasters in Filters.tla) is checked by TLC "
         "with the filter algebra; every generated family (2-3 compatible masters, differing 2x2, sparse layer master, flatten, "
         "skip list) is compiled through the three interpolatable paths and TLC validates: compiled masters agree in per-glyph "
         "point structure (placeholders exempt), sparse master glyph set within {.notdef, layer, component closure}, and every "
         "consecutive pair of exact hook snapshots (IPreStart / IFilter / Cu2QuI) stays compatible.",
    note="Trusted: TLC; glyf/CFF structure projection; cu2qu and the Instantiator-based interpolation of sparse composites are environment.",
    technique="TLA+ joint-filter model; TLC validation of compiled master structures and per-stage hook snapshots",
    design="5 C09"),
 "C10": dict(
    text="The compile_variable protocol of Purity.tla (save / override / restore options, merge, variable features) is checked by "
         "TLC and validated on the hook events of every variable compile; the variable font is instantiated at each full "
         "master's location and (a) compared with the interpolatable master (deviation <= 1 unit, same structure), (b) its GPOS "
         "is evaluated by the TLA+ interpreter (KernTrace / MarkTrace) against THAT master's UFO kerning (UFO precedence = the "
         "DS+UFO exception-fallback rule) and anchors.",
    note="Trusted: TLC; fontTools varLib merge and instancer (environment); outline deviation measured by the harness.",
    technique="TLA+ GPOS interpreter + protocol model evaluated by TLC on instances of real variable fonts at master locations",
    design="5 C10"),
 "C11": dict(
    text="Names.tla transcribes _build_production_name / _unique_name on code-point sequences (so '.N' suffixes can collide); "
         "TLC checks uniqueness / supplied-name-prefix / legal characters for every supplied-name sequence from a colliding pool; "
         "every generated compile pair (production names on/off, lib switches, TTF/CFF/CFF2) is validated by TLC: only post/CFF "
         "differ byte-wise, names unique and legal, supplied names used, and the exact model rename.",
    note="Trusted: TLC; per-table raw bytes via TTFont.reader with head.checkSumAdjustment masked.",
    technique="TLA+ transcription of the renaming algorithm; TLC exhaustive check + TLC validation of real compile pairs",
    design="5 C11"),
 "C12": dict(
    text="CffOptions.tla models the option routing of the CFF path and is checked exhaustively (all 18 combinations); every "
         "combination is executed on generated sources and each trace is validated by TLC against the same source-derived "
         "outline expectation as C01, equal advances, byte-equal layout tables, NotImplementedError exactly when unsupported.",
    note="Trusted: TLC; fontTools charstring interpreter for subroutinised/CFF2 charstrings; cffsubr/compreffor are environment.",
    technique="TLA+ option-routing model checked exhaustively + TLC trace validation of all 18 option combinations",
    design="5 C12"),
 "C13": dict(
    text="SkipExport is model-checked exhaustively (all skip subsets x 3-glyph graphs x orders) and every recorded compile "
         "with a skip list (argument or lib key, CFF and TrueType) is validated by TLC: skipped glyphs absent from order / "
         "cmap / metrics, remaining glyphs keep their contour multiset and advance, order of remaining glyphs unchanged.",
    note="Trusted: TLC; projections of glyf/CFF/cmap; kerning/marks between remaining glyphs are covered by C05/C06 cases with skip lists.",
    technique="TLA+ SkipExport model; TLC exhaustive check + TLC trace validation of compiles with and without skipping",
    design="5 C13"),
 "C14": dict(
    text="TLC exhaustively checks the BaseFilter visiting protocol (depth-sorted loop, every admissible order, include sets, "
         "modified bookkeeping) for the modelled filters; every recorded invocation history of the real filter objects "
         "(plain and interpolatable, reused across fonts, separate glyph set or in place) is validated by the TLA+ trace "
         "acceptor: outsiders untouched, changes reported, source untouched, equal to a fresh object.",
    note="Trusted: TLC, the glyph-set projection (exact for geometric filters, digests for cu2qu/remove-overlaps/dotted circle).",
    technique="TLA+ filter-protocol model; TLC exhaustive check + TLC trace validation of real invocation histories",
    design="5 C14"),
 "C15": dict(
    text="TLC exhaustively checks the filter algorithms (every 3-glyph component graph x transform set x include subset x "
         "visiting order) against the rendering/anchor clauses, and every recorded invocation of the real filter objects is "
         "validated by the TLA+ trace acceptor (property clauses + exact model successor).",
    note="Trusted: TLC, fontTools pens (environment), the projection glyph->abstract JSON; inputs limited to the exact dyadic domain.",
    technique="TLA+ model of the filter algebra; TLC exhaustive small-scope check + TLC trace validation of real filter invocations",
    design="5 C15"),
}

ALL = [f"C{n:02d}" for n in range(1, 21)]
PENDING_REASON = "check not built yet in this round (planned: TLA+ model + trace validation, see DESIGN.md section 5)"

def main():
    checks = []
    for pid in ALL:
        if pid not in CHECKS:
            continue
        c = CHECKS[pid]
        checks.append({
            "property_id": pid,
            "quick_cmd": f"./check {pid} --tier quick",
            "thorough_cmd": f"./check {pid} --tier thorough",
            "evidence_file": f"/verif/evidence/{pid}.json",
            "replay_cmd_template": f"./check {pid} --replay {{path}}",
            "engine": "tlc",
            "level_claimed": {"category": "model_checking", "text": c["text"] + (" " + ALSO[pid] if ALSO.get(pid) else ""), "design_ref": c["design"]},
            "level_note": c["note"],
            "technique": c["technique"],
        })
    m = {
        "version": 1,
        "setup_cmd": "./setup.sh",
        "hooks": {
            "guard": "UFO2FT_VERIF",
            "enable": "UFO2FT_VERIF=1 in the environment of the harness process (set by ./check) plus ufo2ft._verif.set_tracer(...)",
            "baseline_off_cmd": "cd /repo && /venv/bin/python -m pytest -ra -q -p no:cacheprovider --timeout=900 --continue-on-collection-errors",
            "source_commits": HOOK_COMMITS,
            "add_only": True,
        },
        "engines": [{"name": "tlc", "path": "/verif/specs", "serves_properties": sorted(CHECKS),
                     "kind_free_text": "TLA+ specifications checked by TLC (exhaustive design checks, case generation, batch trace validation of executions of the real code)"}],
        "checks": checks,
        "not_applicable": [{"property_id": p, "reason": PENDING_REASON} for p in ALL if p not in CHECKS],
        "notes": "All checks import ufo2ft from /repo/Lib of the current working tree. Exit 0 = held, 1 = VIOLATION, 2 = machinery failure.",
    }
    with open(os.path.join(VERIF, "MANIFEST.json"), "w") as f:
        json.dump(m, f, indent=1)
    try:
        import jsonschema
        jsonschema.validate(m, json.load(open("/root/.vp/MANIFEST.schema.json")))
    except ImportError:
        print("(jsonschema not available: not validated)")
    print("MANIFEST.json written:", len(checks), "checks")

if __name__ == "__main__":
    main()
