#!/venv/bin/python
"""Seeded changes: confirm (in a scratch worktree) and evaluate (apply to /repo, run checks, undo).

  tools/seeded.py import <worktree> <id>     copy patch.diff / demo.py / meta.json of a sub-agent's worktree into seeded/<id>/
  tools/seeded.py confirm <id>               scratch worktree: suite passes with the patch, demo fails with / passes without it
  tools/seeded.py run <id> [checks...]       apply to /repo, run the given checks (default: the property's own), undo
  tools/seeded.py table                      rewrite seeded/README.md
"""
import json
import os
import shutil
import subprocess
import sys
import tempfile

VERIF = os.path.dirname(os.path.dirname(os.path.abspath(__file__)))
SEEDED = os.path.join(VERIF, "seeded")


def sh(cmd, cwd=None, env=None, timeout=3600):
    e = dict(os.environ)
    if env:
        e.update(env)
    p = subprocess.run(cmd, shell=True, cwd=cwd, env=e, capture_output=True, text=True, timeout=timeout)
    return p.returncode, p.stdout + p.stderr


def load_meta(sid):
    with open(os.path.join(SEEDED, sid, "meta.json")) as f:
        return json.load(f)


def save_meta(sid, meta):
    with open(os.path.join(SEEDED, sid, "meta.json"), "w") as f:
        json.dump(meta, f, indent=1, sort_keys=True)


def cmd_import(wt, sid):
    d = os.path.join(SEEDED, sid)
    os.makedirs(d, exist_ok=True)
    for fn in ("patch.diff", "demo.py", "meta.json"):
        shutil.copy(os.path.join(wt, fn), os.path.join(d, fn))
    print("imported", sid)


def cmd_confirm(sid):
    d = os.path.join(SEEDED, sid)
    tmp = tempfile.mkdtemp(prefix="verif-seed-")
    wt = os.path.join(tmp, "wt")
    try:
        rc, out = sh(f"git -C /repo worktree add -q {wt} HEAD")
        assert rc == 0, out
        env = {"PYTHONPATH": f"{wt}/Lib", "PYTHONWARNINGS": "ignore"}
        rc0, out0 = sh(f"/venv/bin/python {d}/demo.py", cwd=wt, env=env)
        rca, outa = sh(f"git apply {d}/patch.diff", cwd=wt)
        assert rca == 0, "patch does not apply: " + outa
        rc1, out1 = sh(f"/venv/bin/python {d}/demo.py", cwd=wt, env=env)
        rct, outt = sh("/venv/bin/python -m pytest -q -p no:cacheprovider -n 8 -x 2>&1 | tail -3", cwd=wt, env=env)
        meta = load_meta(sid)
        meta["confirmed"] = {"demo_without_patch_exit": rc0, "demo_with_patch_exit": rc1, "suite_with_patch": outt.strip().splitlines()[-1] if outt.strip() else "",
                             "ok": rc0 == 0 and rc1 != 0 and "passed" in outt and "failed" not in outt}
        save_meta(sid, meta)
        print(sid, meta["confirmed"])
        if rc1 != 0:
            print(out1[-600:])
    finally:
        sh(f"git -C /repo worktree remove --force {wt}")
        shutil.rmtree(tmp, ignore_errors=True)


def cmd_run(sid, checks):
    d = os.path.join(SEEDED, sid)
    meta = load_meta(sid)
    checks = checks or [meta["property"]]
    rc, out = sh("git -C /repo status --porcelain")
    assert out.strip() == "", "/repo is not clean: " + out
    rc, out = sh(f"git -C /repo apply {d}/patch.diff")
    assert rc == 0, out
    results = meta.get("detected_by", {})
    try:
        for c in checks:
            rc, out = sh(f"./check {c} --tier quick", cwd=VERIF, env={"VERIF_SEED": os.environ.get("VERIF_SEED", "0")})
            viol = [l for l in out.splitlines() if l.startswith("VIOLATION")]
            clause = ""
            if viol:
                clause = viol[0].split("clause", 1)[-1].strip(" ')") if "clause" in viol[0] else viol[0]
            results[c] = {"exit": rc, "violations": len(viol), "first": clause[:120]}
            print(sid, c, results[c])
            for p in [l.split("replay=")[1].split()[0] for l in viol]:
                try:
                    os.unlink(p)
                except OSError:
                    pass
    finally:
        sh("git -C /repo checkout -- .")
    meta["detected_by"] = results
    save_meta(sid, meta)
    # leave the evidence of the unchanged tree in place (SEEDED_NO_RESTORE=1 or the marker file: the caller re-runs all checks
    # on the unchanged tree itself at the end of a regression loop)
    if os.environ.get("SEEDED_NO_RESTORE") or os.path.exists("/tmp/seeded_no_restore"):
        return
    for c in checks:
        sh(f"./check {c} --tier quick", cwd=VERIF)


def cmd_table():
    rows = []
    for sid in sorted(os.listdir(SEEDED)):
        if not os.path.isdir(os.path.join(SEEDED, sid)):
            continue
        m = load_meta(sid)
        det = m.get("detected_by", {})
        caught = [f"{c} ({v['first'] or 'violation'})" for c, v in det.items() if v.get("exit") == 1]
        missed = [c for c, v in det.items() if v.get("exit") != 1]
        rows.append(f"| {sid} | {m.get('property')} | {m.get('summary', '').replace('|', '/')} | {m.get('needs', '').replace('|', '/')} | "
                    f"{'yes' if m.get('confirmed', {}).get('ok') else 'NO'} | {'; '.join(caught) or '-'} | {', '.join(missed) or '-'} |")
    with open(os.path.join(SEEDED, "README.md"), "w") as f:
        f.write("# Seeded changes\n\nChanges to googlefonts/ufo2ft written by independent sub-agents (given only the property text and a scratch "
                "worktree), each confirmed with `tools/seeded.py confirm` (suite passes with the patch, demo fails with it and passes "
                "without) and evaluated with `tools/seeded.py run` (patch applied to /repo, checks run, patch undone).\n\n"
                "| id | property | change | needs | confirmed | caught by (first failing clause) | run but not caught by |\n|---|---|---|---|---|---|---|\n")
        f.write("\n".join(rows) + "\n")
    print("\n".join(rows))


if __name__ == "__main__":
    a = sys.argv[1:]
    if a[0] == "import":
        cmd_import(a[1], a[2])
    elif a[0] == "confirm":
        cmd_confirm(a[1])
    elif a[0] == "run":
        cmd_run(a[1], a[2:])
    elif a[0] == "table":
        cmd_table()
