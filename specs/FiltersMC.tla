----------------------------- MODULE FiltersMC -----------------------------
(***************************************************************************)
(* Design check of the filter protocol (BaseFilter.__call__) and of the    *)
(* shipped component / transform filters on EVERY glyph set of a small     *)
(* scope: glyph a is simple, b references a, c references a and/or b, with *)
(* transforms from TSet (mirrors, rotation, shear, scaling, offsets), every *)
(* include subset, every skip subset, and every visiting order that the    *)
(* depth-sorted loop admits.  The step-by-step algorithm is checked        *)
(* against (1) the declarative properties C14/C15 and (2) the functional   *)
(* models of Filters.tla that the trace acceptor uses.                     *)
(***************************************************************************)
EXTENDS Filters, TLC

CONSTANTS TSet,        \* set of component transforms [m, d]
          FilterKinds  \* subset of the filter names to explore

VARIABLES pc, gs0, gs, flt, todo, mod
vars == <<pc, gs0, gs, flt, todo, mod>>

N == {"a", "b", "c"}

T(m, d) == [m |-> m, d |-> d]
TSQuick == { T(<<MS, 0, 0, MS>>, <<10 * PS + PS \div 2, 0>>),           \* translation by a half unit
             T(<<-MS, 0, 0, MS>>, <<200 * PS, 0>>),                     \* mirror (det < 0)
             T(<<MS \div 2, 0, MS \div 2, MS>>, <<0, -(5 * PS)>>) }     \* scale 1/2 + shear + offset
TSFull == TSQuick \cup
          { T(<<0, MS, -MS, 0>>, <<PS \div 4, PS \div 2>>),              \* rotation by 90 degrees
            T(<<MS, 0, 0, MS>>, <<0, 0>>),                              \* identity
            T(<<(3 * MS) \div 2, 0, 0, -(MS \div 2)>>, <<0, 10 * PS>>) } \* 1.5 x -0.5 (det < 0)
XformOnly == {"Transformations"}
DecomposeOnly == {"DecomposeComponents", "SkipExportGlyphs"}
TTKinds == {"DecomposeComponents", "FlattenComponents", "ReverseContourDirection"}
SkipOnly == {"SkipExportGlyphs"}
AllKinds == {"DecomposeComponents", "DecomposeTransformedComponents", "FlattenComponents",
             "SkipExportGlyphs", "ReverseContourDirection", "Transformations"}

Tri == << <<0, 0, "line">>, <<100 * PS + PS \div 2, 0, "line">>, <<-(20 * PS) - PS \div 2, 80 * PS, "line">> >>
Sq  == << <<10 * PS, 10 * PS, "line">>, <<30 * PS, 10 * PS, "off">>, <<40 * PS, 20 * PS, "off">>, <<30 * PS, 40 * PS, "curve">> >>
Anch == << [n |-> "top", x |-> 50 * PS, y |-> 80 * PS + PS \div 2] >>
G(cs, comps, anchors) == [cs |-> cs, comps |-> comps, anchors |-> anchors, w |-> 500 * PS + PS \div 2, h |-> 0, u |-> <<>>]
C(b, t) == [b |-> b, m |-> t.m, d |-> t.d]

GlyphA == G(<<Tri>>, <<>>, Anch)
BChoices == {G(<<Sq>>, <<>>, <<>>)}
            \cup {G(<<>>, <<C("a", t)>>, <<>>) : t \in TSet}
            \cup {G(<<Sq>>, <<C("a", t)>>, Anch) : t \in TSet}
CChoices == {G(<<>>, <<C(b, t)>>, <<>>) : b \in {"a", "b"}, t \in TSet}
            \cup {G(<<>>, <<C("b", t), C("a", u)>>, Anch) : t \in TSet, u \in TSet}
            \cup {G(<<>>, <<C("a", t), C("b", u)>>, <<>>) : t \in TSet, u \in TSet}

XOpts == { [ox |-> 10 * PS, oy |-> 0, sx |-> MS, sy |-> MS, oh |-> 0,
            inv |-> [m |-> <<MS, 0, 0, MS>>, d |-> <<-(10 * PS), 0>>]],
           [ox |-> 0, oy |-> 4 * PS, sx |-> MS \div 2, sy |-> 2 * MS, oh |-> 0,
            inv |-> [m |-> <<2 * MS, 0, 0, MS \div 2>>, d |-> <<0, -(2 * PS)>>]] }

Filt == {[name |-> k, inc |-> s, opt |-> [skip |-> <<>>]] :
            k \in FilterKinds \ {"SkipExportGlyphs", "Transformations"}, s \in SUBSET N}
        \cup (IF "SkipExportGlyphs" \in FilterKinds
              THEN {[name |-> "SkipExportGlyphs", inc |-> N, opt |-> [skip |-> SetToSeq(s)]] : s \in SUBSET N}
              ELSE {})
        \cup (IF "Transformations" \in FilterKinds
              THEN {[name |-> "Transformations", inc |-> s, opt |-> o] : s \in SUBSET N, o \in XOpts}
              ELSE {})

SkipSet == {flt.opt.skip[k] : k \in 1..Len(flt.opt.skip)}

Init ==
  /\ pc = "pickB" /\ gs0 = [n \in N |-> GlyphA] /\ gs = [n \in N |-> GlyphA]
  /\ flt = [name |-> "none", inc |-> {}, opt |-> [skip |-> <<>>]] /\ todo = {} /\ mod = {}

PickB == /\ pc = "pickB"
         /\ \E g \in BChoices : gs0' = [gs0 EXCEPT !["b"] = g]
         /\ pc' = "pickC" /\ UNCHANGED <<gs, flt, todo, mod>>
PickC == /\ pc = "pickC"
         /\ \E g \in CChoices : gs0' = [gs0 EXCEPT !["c"] = g]
         /\ pc' = "pickF" /\ UNCHANGED <<gs, flt, todo, mod>>
\* set_context: fresh modified set; the visiting order is fixed from the initial depths
PickF == /\ pc = "pickF"
         /\ \E f \in Filt : flt' = f
         /\ gs' = gs0 /\ todo' = N /\ mod' = {} /\ pc' = "run" /\ UNCHANGED gs0

(***************************************************************************)
(* The transformations filter recurses into included, not yet modified     *)
(* bases before rewriting the glyph itself (TransformationsFilter.filter). *)
(***************************************************************************)
RECURSIVE XFilter(_, _, _, _, _, _), XComps(_, _, _, _, _, _, _)
XComps(g, md, n, k, inc, M, Minv) ==
  IF k > Len(g[n].comps) THEN [gs |-> g, mod |-> md]
  ELSE LET b == g[n].comps[k].b IN
       IF b \in md \/ b \notin inc \/ b \notin DOMAIN g THEN XComps(g, md, n, k + 1, inc, M, Minv)
       ELSE LET r == XFilter(g, md, b, inc, M, Minv)
            IN XComps(r.gs, IF r.did THEN r.mod \cup {b} ELSE r.mod, n, k + 1, inc, M, Minv)
XFilter(g, md, n, inc, M, Minv) ==
  IF IsIdentityT(M) \/ ~NonEmptyGlyph(g[n]) THEN [gs |-> g, mod |-> md, did |-> FALSE]
  ELSE LET r == XComps(g, md, n, 1, inc, M, Minv)
       IN [gs |-> [r.gs EXCEPT ![n] = XformGlyph(r.gs, n, M, Minv, r.mod)], mod |-> r.mod, did |-> TRUE]

\* one iteration of the loop in BaseFilter.__call__ for glyph n: [gs, mod]
StepResult(n) ==
  IF n \in mod \/ n \notin flt.inc THEN [gs |-> gs, mod |-> mod]
  ELSE CASE flt.name = "DecomposeComponents" ->
              IF HasComps(gs[n]) THEN [gs |-> [gs EXCEPT ![n] = DecomposeGlyph(gs, n)], mod |-> mod \cup {n}]
              ELSE [gs |-> gs, mod |-> mod]
         [] flt.name = "DecomposeTransformedComponents" ->
              IF HasTransformed(gs[n]) THEN [gs |-> [gs EXCEPT ![n] = DecomposeGlyph(gs, n)], mod |-> mod \cup {n}]
              ELSE [gs |-> gs, mod |-> mod]
         [] flt.name = "FlattenComponents" ->
              IF HasComps(gs[n])
              THEN [gs |-> [gs EXCEPT ![n] = FlattenGlyph(gs, n)],
                    mod |-> IF FlattenReports(gs, n) THEN mod \cup {n} ELSE mod]
              ELSE [gs |-> gs, mod |-> mod]
         [] flt.name = "SkipExportGlyphs" ->
              IF SkipTouches(gs[n], SkipSet)
              THEN [gs |-> [gs EXCEPT ![n] = SkipExportGlyph(gs, n, SkipSet)], mod |-> mod \cup {n}]
              ELSE [gs |-> gs, mod |-> mod]
         [] flt.name = "ReverseContourDirection" ->
              IF Len(gs[n].cs) > 0
              THEN [gs |-> [gs EXCEPT ![n].cs = [k \in 1..Len(gs[n].cs) |-> RevContour(gs[n].cs[k])]],
                    mod |-> mod \cup {n}]
              ELSE [gs |-> gs, mod |-> mod]
         [] flt.name = "Transformations" ->
              LET r == XFilter(gs, mod, n, flt.inc, XMatrix(flt.opt), flt.opt.inv)
              IN [gs |-> r.gs, mod |-> IF r.did THEN r.mod \cup {n} ELSE r.mod]

Visit(n) ==
  /\ pc = "run" /\ n \in todo
  /\ \A m \in todo : Depth(gs0, m) <= Depth(gs0, n)      \* decreasing depth, ties in any order
  /\ LET r == StepResult(n) IN gs' = r.gs /\ mod' = r.mod
  /\ todo' = todo \ {n}
  /\ UNCHANGED <<pc, gs0, flt>>

\* after the loop: SkipExportGlyphsFilter deletes the skipped glyphs and reports them
Finish ==
  /\ pc = "run" /\ todo = {}
  /\ IF flt.name = "SkipExportGlyphs" /\ SkipSet # {}
     THEN gs' = [n \in (DOMAIN gs) \ SkipSet |-> gs[n]] /\ mod' = mod \cup (SkipSet \cap DOMAIN gs)
     ELSE UNCHANGED <<gs, mod>>
  /\ pc' = "done" /\ UNCHANGED <<gs0, flt, todo>>

\* SkipExportGlyphsFilter.__call__ returns early on an empty list (see known finding F-C14-1)
Next == PickB \/ PickC \/ PickF \/ (\E n \in N : Visit(n)) \/ Finish

Spec == Init /\ [][Next]_vars

Done == pc = "done"
IncEff == IF flt.name = "SkipExportGlyphs" THEN N ELSE flt.inc

\* ---- properties -----------------------------------------------------------------------------
ModelAgrees ==        \* the functional model used by the trace acceptor = the step-by-step algorithm, for every order
  Done => LET t == [filter |-> flt.name, inc |-> SetToSeq(flt.inc), opt |-> flt.opt, before |-> gs0,
                    after |-> gs, modified |-> SetToSeq(mod)]
              m == CASE flt.name = "DecomposeComponents"            -> DecomposeModel(gs0, flt.inc)
                     [] flt.name = "DecomposeTransformedComponents" -> DecomposeTransformedModel(gs0, flt.inc)
                     [] flt.name = "FlattenComponents"              -> FlattenModel(gs0, flt.inc)
                     [] flt.name = "SkipExportGlyphs"               -> SkipExportModel(gs0, SkipSet)
                     [] flt.name = "ReverseContourDirection"        -> ReverseModel(gs0, flt.inc)
                     [] flt.name = "Transformations"                -> TransformationsModel(gs0, flt.inc, flt.opt)
          IN m.gs = gs /\ m.mod = mod

C15_RenderPreserved ==
  (Done /\ flt.name \in {"DecomposeComponents", "DecomposeTransformedComponents", "FlattenComponents"})
     => RenderPreserved(gs0, gs, N)

C15_FlattenDepth ==
  \* (in the TrueType pipeline mixed glyphs were decomposed before; flattening stops at mixed glyphs)
  (Done /\ flt.name = "FlattenComponents" /\ flt.inc = N /\ \A n \in N : ~IsMixed(gs0[n]))
     => \A n \in N : Depth(gs, n) <= 1

C13_SkipExport ==
  (Done /\ flt.name = "SkipExportGlyphs") =>
     /\ DOMAIN gs = N \ SkipSet
     /\ \A n \in DOMAIN gs : Bases(gs, n) \cap SkipSet = {}
     /\ \A n \in DOMAIN gs : SameBag(Resolve(gs, n), Resolve(gs0, n))
     /\ \A n \in DOMAIN gs : gs[n].w = gs0[n].w /\ gs[n].anchors = gs0[n].anchors

C14_OutsidersUntouched == Done => OutsidersUntouched(gs0, gs, IncEff)
C14_ReportsChanges     == Done => ReportsChanges(gs0, gs, mod)

XOK(n) ==
  LET M == XMatrix(flt.opt) IN
  /\ Resolve(gs, n) = MapContours(M, Resolve(gs0, n))
  /\ \A k \in 1..Len(gs0[n].anchors) :
        LET q == AppXY(M, gs0[n].anchors[k].x, gs0[n].anchors[k].y)
        IN gs[n].anchors[k].x = q[1] /\ gs[n].anchors[k].y = q[2]
  /\ gs[n].w = AppVec(M, gs0[n].w, gs0[n].h)[1]

C15_MatrixApplied ==      \* holds only outside the known finding
  (Done /\ flt.name = "Transformations") =>
     \A n \in XformTargets(gs0, flt.inc) : XOK(n) \/ Known_C15_1(gs0, n, flt.inc)
C15_MatrixApplied_Strict ==   \* expected to FAIL: its counterexample is the F-C15-1 witness
  (Done /\ flt.name = "Transformations") => \A n \in XformTargets(gs0, flt.inc) : XOK(n)
\* non-vacuity of the known-finding signature: inside it the property really fails somewhere
KnownIsReal ==
  ~(Done /\ flt.name = "Transformations" /\ \E n \in XformTargets(gs0, flt.inc) : Known_C15_1(gs0, n, flt.inc) /\ ~XOK(n))

=============================================================================
