---------------------------- MODULE WritersList ----------------------------
(***************************************************************************)
(* The featureWriters argument (featureCompiler.py,                        *)
(* _load_custom_feature_writers): a caller-owned list that may hold the    *)
(* placeholder "..." = "the writers this font's lib asks for, else the     *)
(* defaults".  The same list object may serve several fonts (two compiles, *)
(* or the masters of one interpolatable compile).                          *)
(*   Fresh = TRUE : each font gets a NEW list built from the argument      *)
(*   Fresh = FALSE: the placeholder is expanded INSIDE the caller's list   *)
(*                  (seeded change C17-h): the second font inherits the    *)
(*                  first font's writers                                   *)
(***************************************************************************)
EXTENDS Integers, Sequences, FiniteSets, TLC
CONSTANTS Fresh, Fonts, LibWriters          \* LibWriters[f]: the writers font f's lib asks for ("" = none -> defaults)
VARIABLES arg, used, done
vars == <<arg, used, done>>
LW == <<"kern-append", "", "mark-q5">>
Default == "default"
Own(f) == IF LibWriters[f] = "" THEN Default ELSE LibWriters[f]
Expand(list, f) == [k \in 1..Len(list) |-> IF list[k] = "..." THEN Own(f) ELSE list[k]]
Init == /\ arg \in {<<"...">>, <<"curs", "...">>, <<"...", "gsub">>} /\ used = [f \in Fonts |-> <<>>] /\ done = {}
Compile(f) ==
  /\ f \notin done
  /\ used' = [used EXCEPT ![f] = Expand(arg, f)]
  /\ arg' = IF Fresh THEN arg ELSE Expand(arg, f)
  /\ done' = done \cup {f}
Next == \E f \in Fonts : Compile(f)
Spec == Init /\ [][Next]_vars
\* the caller's list is never modified ...
ArgumentUntouched == [][arg' = arg]_vars
\* ... and every font is compiled with ITS OWN lib writers (or the defaults) in the placeholder's position
OwnWriters == \A f \in done : \E k \in 1..Len(used[f]) : used[f][k] = Own(f)
=============================================================================
