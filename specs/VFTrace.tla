------------------------------ MODULE VFTrace ------------------------------
(***************************************************************************)
(* Trace acceptor for the outline / advance / protocol part of C10.        *)
(* Record = one (variable font, full master) pair: tid, outlineDiffMilli   *)
(* and advDiff = largest deviation between the variable font instantiated  *)
(* at the master's location and the interpolatable master (measured by the *)
(* harness), structSame, glyphsSame, events = hook events of the           *)
(* compile_variable call (names only), varFeatures (requested).            *)
(***************************************************************************)
EXTENDS Integers, Sequences, FiniteSets, Json, IOUtils, TLC, TLCExt
Traces == ndJsonDeserialize(IOEnv.TRACE_FILE)
VARIABLE i
Has(r, f) == f \in DOMAIN r
Pos(ev, name) == {k \in 1..Len(ev) : ev[k] = name}
\* compile_variable protocol (Purity.tla): options saved, masters compiled, options restored, merge, [variable features], post
ProtocolOK(t) ==
  /\ Cardinality(Pos(t.events, "OptsSaved")) = 1 /\ Cardinality(Pos(t.events, "OptsRestored")) = 1
  /\ Cardinality(Pos(t.events, "Merged")) = 1
  /\ \A a \in Pos(t.events, "OptsSaved"), b \in Pos(t.events, "OptsRestored"), c \in Pos(t.events, "Merged") : a < b /\ b < c
  /\ \A k \in Pos(t.events, "Outlines") : \A a \in Pos(t.events, "OptsSaved"), b \in Pos(t.events, "OptsRestored") : a < k /\ k < b
  /\ \A k \in Pos(t.events, "VarFeatures") : \A c \in Pos(t.events, "Merged") : c < k
  /\ \A k \in Pos(t.events, "Features") : \A b \in Pos(t.events, "OptsRestored") : k < b
Clauses(t) ==
  << <<"compiles", ~Has(t, "err")>>,
     <<"same-glyphs-as-master", ~Has(t, "err") => t.glyphsSame>>,
     <<"same-point-structure", ~Has(t, "err") => t.structSame>>,
     <<"outline-within-one-unit", ~Has(t, "err") => t.outlineDiffMilli <= 1000>>,
     <<"advance-within-one-unit", ~Has(t, "err") => t.advDiff <= 1>>,
     \* against the master's SOURCE (straight-line glyphs, point set against point set): the compiled masters may share an
     \* error with the variable font, the sources cannot
     <<"draws-the-master-source", (~Has(t, "err") /\ Has(t, "srcDiffMilli")) => t.srcDiffMilli <= 1500>>,
     \* (records of compileVariableTTFs / CFF2s runs -- several variable fonts from one call -- carry no event list)
     <<"compile-variable-protocol", (~Has(t, "err") /\ ~Has(t, "multi")) => ProtocolOK(t)>>,
     \* FeaPipeline!OnlyAdds observed on the Writer hook events (statement texts of the shared feature file)
     <<"writers-only-add", (~Has(t, "err") /\ Has(t, "writersOnlyAdd")) => t.writersOnlyAdd>> >>
Init == i = 1
Next == /\ i <= Len(Traces)
        /\ LET t == Traces[i]  cl == Clauses(t)  bad == {k \in 1..Len(cl) : ~cl[k][2]}
               p == IF bad = {} THEN "none" ELSE cl[CHOOSE k \in bad : \A j \in bad : k <= j][1]
           IN PrintT(<<"VERDICT", t.tid, IF p \in {"compile-variable-protocol", "writers-only-add"} THEN "none" ELSE p,
                       IF p \in {"compile-variable-protocol", "writers-only-add"} THEN p ELSE "none">>)
        /\ i' = i + 1
Spec == Init /\ [][Next]_i
=============================================================================
