SPECIFICATION Spec
CONSTANTS
  MaxEntries = 1
INVARIANT C05_Dir
INVARIANT C05_DirMixed
CHECK_DEADLOCK FALSE
