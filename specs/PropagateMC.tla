---------------------------- MODULE PropagateMC ----------------------------
(***************************************************************************)
(* Design check of the anchor-propagation model (PropagateAnchors.tla)     *)
(* against the declarative clauses of property C15, for EVERY glyph set of *)
(* the shape                                                               *)
(*   a   : base with any subset of {top, bottom} anchors                   *)
(*   m1  : mark (_top, optionally top)     m2 : mark (_top or _bottom+bottom)*)
(*   c   : composite of one or two components drawn from {a, m1, m2} with  *)
(*         identity / mirrored transforms and offsets, own anchors any     *)
(*         subset of {top, top_1}; named as a ligature mark or not;        *)
(*         category mark or not                                            *)
(*   d   : optionally a composite of c (and m1)                            *)
(* TLC certifies: propagation only appends; an appended anchor sits where  *)
(* a component's base anchor of that name (or stem) lands; no name the     *)
(* glyph had (as a prefix match) is duplicated; a second application adds  *)
(* nothing; completeness for base components.                             *)
(***************************************************************************)
EXTENDS PropagateAnchors, TLC

CONSTANT Full          \* FALSE: reduced scope for the quick tier

VARIABLES pc, aA, m1A, m2A, cComps, cOwn, cLig, cMark, dKind
vars == <<pc, aA, m1A, m2A, cComps, cOwn, cLig, cMark, dKind>>

NamesAll == {"top", "bottom", "_top", "_bottom", "top_1", "top_2", "bottom_1", "bottom_2", "_top_1", "_top_2", "_bottom_1", "_bottom_2",
             "top_1_1", "top_1_2", "top_2_1", "top_2_2"}
CpsOf(s) ==
  CASE s = "top" -> <<116, 111, 112>> [] s = "bottom" -> <<98, 111, 116, 116, 111, 109>>
    [] s = "_top" -> <<95, 116, 111, 112>> [] s = "_bottom" -> <<95, 98, 111, 116, 116, 111, 109>>
    [] s = "top_1" -> <<116, 111, 112, 95, 49>> [] s = "top_2" -> <<116, 111, 112, 95, 50>>
    [] s = "bottom_1" -> <<98, 111, 116, 116, 111, 109, 95, 49>> [] s = "bottom_2" -> <<98, 111, 116, 116, 111, 109, 95, 50>>
    [] s = "_top_1" -> <<95, 116, 111, 112, 95, 49>> [] s = "_top_2" -> <<95, 116, 111, 112, 95, 50>>
    [] s = "_bottom_1" -> <<95, 98, 111, 116, 116, 111, 109, 95, 49>> [] s = "_bottom_2" -> <<95, 98, 111, 116, 116, 111, 109, 95, 50>>
    [] s = "top_1_1" -> <<116, 111, 112, 95, 49, 95, 49>> [] s = "top_1_2" -> <<116, 111, 112, 95, 49, 95, 50>>
    [] s = "top_2_1" -> <<116, 111, 112, 95, 50, 95, 49>> [] s = "top_2_2" -> <<116, 111, 112, 95, 50, 95, 50>>
Stem(s) == CASE s \in {"top_1", "top_2"} -> "top" [] s \in {"bottom_1", "bottom_2"} -> "bottom" [] s \in {"_top_1", "_top_2"} -> "_top"
             [] s \in {"_bottom_1", "_bottom_2"} -> "_bottom" [] s \in {"top_1_1", "top_1_2"} -> "top_1" [] s \in {"top_2_1", "top_2_2"} -> "top_2" [] OTHER -> s

U == 256 * 100        \* a hundred quarter-units... any multiple of 256 keeps the bounds modelled
Box(x, y) == << <<x, y, "line">>, <<x + U, y, "line">>, <<x + U, y + U, "line">>, <<x, y + U, "line">> >>
Anc(n, x, y) == [n |-> n, x |-> x, y |-> y]
AncPos(n) == CASE n = "top" -> <<2 * U, 5 * U>> [] n = "bottom" -> <<2 * U, 0>> [] n = "_top" -> <<0, U>> [] n = "_bottom" -> <<U, 3 * U>>
               [] n = "top_1" -> <<U, U>> [] OTHER -> <<3 * U, 3 * U>>
Ancs(S) == LET q == SetToSeq(S) IN [k \in 1..Len(q) |-> Anc(q[k], AncPos(q[k])[1], AncPos(q[k])[2])]
Comp(b, flip, k) == [b |-> b, m |-> IF flip THEN <<-MS, 0, 0, MS>> ELSE <<MS, 0, 0, MS>>, d |-> <<k * 3 * U, (k - 1) * 2 * U>>]
Glyph(cs, comps, anchors) == [cs |-> cs, comps |-> comps, anchors |-> anchors, w |-> 0, h |-> 0]

CName == IF cLig THEN "m1_m2" ELSE "cc"
GS ==
  LET base == [n \in {"a", "m1", "m2", CName} |->
                 CASE n = "a" -> Glyph(<<Box(0, 0)>>, <<>>, Ancs(aA))
                   [] n = "m1" -> Glyph(<<Box(-U, 4 * U)>>, <<>>, Ancs(m1A))
                   [] n = "m2" -> Glyph(<<Box(2 * U, -3 * U)>>, <<>>, Ancs(m2A))
                   [] OTHER -> Glyph(<<>>, [k \in 1..Len(cComps) |-> Comp(cComps[k][1], cComps[k][2], k)], Ancs(cOwn))]
  IN IF dKind = 0 THEN base
     ELSE [n \in DOMAIN base \cup {"d"} |->
             IF n = "d" THEN Glyph(<<>>, IF dKind = 1 THEN <<Comp(CName, FALSE, 1)>> ELSE <<Comp(CName, TRUE, 1), Comp("m1", FALSE, 2)>>, <<>>)
             ELSE base[n]]
ENV == [cps |-> [s \in NamesAll |-> CpsOf(s)], marks |-> (IF cMark THEN {CName} ELSE {}) \cup {"m1", "m2"}, ligmark |-> IF cLig THEN {CName} ELSE {}]

Init == /\ pc = 0 /\ aA = {} /\ m1A = {"_top"} /\ m2A = {"_top"} /\ cComps = <<>> /\ cOwn = {} /\ cLig = FALSE /\ cMark = FALSE /\ dKind = 0
\* two steps, so that the second one is spread over the workers
PickBases == /\ pc = 0 /\ pc' = 5
             /\ aA' \in (IF Full THEN SUBSET {"top", "bottom"} ELSE {{}, {"top"}, {"top", "bottom"}})
             /\ m1A' \in {{"_top"}, {"_top", "top"}}
             /\ m2A' \in (IF Full THEN {{"_top"}, {"_bottom", "bottom"}, {"_top", "top"}} ELSE {{"_top"}, {"_bottom", "bottom"}})
             /\ cLig' \in BOOLEAN /\ cMark' \in BOOLEAN /\ dKind' \in (IF Full THEN 0..2 ELSE {0, 2})
             /\ UNCHANGED <<cComps, cOwn>>
PickComposite == /\ pc = 5 /\ pc' = 1
                 /\ cComps' \in UNION {[1..n -> {"a", "m1", "m2"} \X BOOLEAN] : n \in 1..2}
                 /\ cOwn' \in (IF Full THEN SUBSET {"top", "top_1"} ELSE {{}, {"top_1"}, {"top"}})
                 /\ UNCHANGED <<aA, m1A, m2A, cLig, cMark, dKind>>
Next == PickBases \/ PickComposite
Spec == Init /\ [][Next]_vars

\* Everything expensive is bound ONCE per state in a LET (TLC re-evaluates module-level definitions at every use).
WithStamps(gs, anchors) == TLCEval([n \in DOMAIN gs |-> [gs[n] EXCEPT !.anchors = [k \in 1..Len(anchors[n]) |->
                              [n |-> anchors[n][k].n, x |-> anchors[n][k].x, y |-> anchors[n][k].y, stem |-> Stem(anchors[n][k].n)]]]])
Verdict ==
  LET gs == GS
      env == ENV
      inc == DOMAIN gs
      modelled == PropagateModelled(gs, env, inc)
      m == PropagateModelAnchors(gs, env, inc)
      before == WithStamps(gs, [n \in DOMAIN gs |-> NXY(gs[n].anchors)])
      after == WithStamps(gs, m)
      again == PropagateModelAnchors(after, env, inc)
  IN IF ~modelled THEN [modelled |-> FALSE, onlyAppended |-> TRUE, follows |-> TRUE, noDup |-> TRUE, neverOverrides |-> TRUE, idempotent |-> TRUE, complete |-> TRUE]
     ELSE
     [modelled |-> TRUE,
      onlyAppended |-> \A n \in DOMAIN gs : Len(after[n].anchors) >= Len(before[n].anchors)
                                              /\ SubSeq(after[n].anchors, 1, Len(before[n].anchors)) = before[n].anchors,
      follows |-> \A n \in DOMAIN gs : \A i \in (Len(before[n].anchors) + 1)..Len(after[n].anchors) :
                     LET a == after[n].anchors[i] IN
                     \E k \in 1..Len(gs[n].comps) : LET c == gs[n].comps[k] IN
                        \E j \in 1..Len(after[c.b].anchors) : LET b == after[c.b].anchors[j] IN
                           (b.n = a.n \/ b.n = a.stem) /\ AppXY(Tr(c), b.x, b.y) = <<a.x, a.y>>,
      noDup |-> \A n \in DOMAIN gs : \A i, j \in 1..Len(after[n].anchors) :
                   (i # j /\ after[n].anchors[i].n = after[n].anchors[j].n) => (i <= Len(before[n].anchors) /\ j <= Len(before[n].anchors)),
      neverOverrides |-> \A n \in DOMAIN gs : \A i \in (Len(before[n].anchors) + 1)..Len(after[n].anchors) :
                            \A j \in 1..Len(before[n].anchors) : before[n].anchors[j].n # after[n].anchors[i].n,
      idempotent |-> \A n \in DOMAIN gs : again[n] = NXY(after[n].anchors),
      complete |-> AnchorsComplete(before, after, env, inc)]

\* ---- the clauses of C15 on the model (one state = one glyph set) ---------------------------------
OnlyAppended == pc = 1 => Verdict.onlyAppended
Follows == pc = 1 => Verdict.follows
NoDuplicateName == pc = 1 => Verdict.noDup
NeverOverrides == pc = 1 => Verdict.neverOverrides
Idempotent == pc = 1 => Verdict.idempotent
Complete == pc = 1 => Verdict.complete
AllClauses == pc = 1 => LET v == Verdict IN v.onlyAppended /\ v.follows /\ v.noDup /\ v.neverOverrides /\ v.idempotent /\ v.complete
\* non-vacuity: the strict configuration claims that no glyph set is modelled and must fail
NeverModelled == pc = 1 => ~Verdict.modelled
=============================================================================
