SPECIFICATION Spec
CONSTANTS
  NG = 2
  Keys <- Keys2
  WithCats = TRUE
  WithLig = TRUE
INVARIANT C06_Model
INVARIANT NoSpurious
INVARIANT LookupsConflictFree
INVARIANT SpecificWins
INVARIANT BottomWins
INVARIANT GroupingCompact
CHECK_DEADLOCK FALSE
