---------------------------- MODULE MarkWriterMC ----------------------------
(***************************************************************************)
(* Design check of the mark feature writer model (MarkWriter.tla, the same *)
(* operators the MarkTrace acceptor compares compiled fonts with): for     *)
(* EVERY assignment of plain and '_'-prefixed anchors over Keys to NG      *)
(* glyphs (optionally with glyph classes, optionally one glyph with two    *)
(* numbered ligature components), in both grouping modes, TLC certifies    *)
(*  - C06 on the model: the attachment is one of the source-defined        *)
(*    candidates and absent exactly when there is none (up to the          *)
(*    signature of known finding F-C06-1),                                 *)
(*  - no lookup holds a mark glyph in two classes (feaLib would reject it),*)
(*  - the documented precedence rules: without grouping the later-sorted   *)
(*    (more specific) class wins, with grouping 'bottom' then 'top' win.   *)
(***************************************************************************)
EXTENDS MarkWriter

CONSTANTS NG, Keys, WithCats, WithLig

Keys3 == <<"bottom", "top", "top.alt">>
Keys2 == <<"bottom", "top">>
KIdx == 1..Len(Keys)
Glyphs == 0..(NG - 1)
VARIABLES pc, bset, mset, cat, lig, grp
vars == <<pc, bset, mset, cat, lig, grp>>

Cats == IF WithCats THEN {"base", "mark", ""} ELSE {""}
LigChoices == IF WithLig THEN [1..2 -> SUBSET KIdx] ELSE {<<{}, {}>>}
Init == pc = 0 /\ bset = <<>> /\ mset = <<>> /\ cat = <<>> /\ lig = <<{}, {}>> /\ grp = FALSE
PickB == pc = 0 /\ bset' \in [Glyphs -> SUBSET KIdx] /\ pc' = 1 /\ UNCHANGED <<mset, cat, lig, grp>>
PickM == pc = 1 /\ mset' \in [Glyphs -> SUBSET KIdx] /\ pc' = 2 /\ UNCHANGED <<bset, cat, lig, grp>>
PickC == pc = 2 /\ cat' \in [Glyphs -> Cats] /\ lig' \in LigChoices /\ grp' \in BOOLEAN /\ pc' = 3 /\ UNCHANGED <<bset, mset>>
Next == PickB \/ PickM \/ PickC
Spec == Init /\ [][Next]_vars

\* the abstract font: glyph NG (one more) is the ligature when WithLig
Anchor(name, key, num, isMark, x, y) == [name |-> name, key |-> key, num |-> num, isMark |-> isMark, x |-> 4 * x, y |-> 4 * y]
PlainAnchors(g) == LET ks == SetToSortSeq(bset[g], <) IN [i \in 1..Len(ks) |-> Anchor(Keys[ks[i]], Keys[ks[i]], 0, FALSE, 100 * g + 10 * ks[i], 500 + 7 * ks[i] + g)]
MarkAnchors(g) == LET ks == SetToSortSeq(mset[g], <) IN [i \in 1..Len(ks) |-> Anchor("_" \o Keys[ks[i]], Keys[ks[i]], 0, TRUE, 3 * g + ks[i], 300 + 11 * ks[i] + 2 * g)]
LigAnchors(c) == LET ks == SetToSortSeq(lig[c], <) IN [i \in 1..Len(ks) |-> Anchor(Keys[ks[i]] \o "_" \o ToString(c), Keys[ks[i]], c, FALSE, 250 * c + ks[i], 600 + ks[i])]
T == [n |-> NG + (IF WithLig THEN 1 ELSE 0), hasCats |-> WithCats /\ \E g \in Glyphs : cat[g] # "", q |-> 1, group |-> grp,
      keysByKey |-> Keys, keysByClass |-> Keys,
      glyphs |-> [g1 \in 1..(NG + (IF WithLig THEN 1 ELSE 0)) |->
                    IF g1 <= NG THEN [cat |-> cat[g1 - 1], anchors |-> MarkAnchors(g1 - 1) \o PlainAnchors(g1 - 1)]
                    ELSE [cat |-> IF WithCats THEN "ligature" ELSE "", anchors |-> LigAnchors(1) \o LigAnchors(2)]]]

\* ---- declarative reading of the source (independent of the writer model) ------------------------------------
CatOK(t, g, c) == ~t.hasCats \/ WG(t, g).cat = c
IsMarkD(t, g) == CatOK(t, g, "mark") /\ MarkIdx(t, g) # {}
Incl(t, g) == ~t.hasCats \/ WG(t, g).cat \in {"base", "ligature", "mark"}
PairedD(t, key) == /\ \E g \in WAll(t) : Incl(t, g) /\ \E i \in BaseIdx(t, g) : WA(t, g)[i].key = key
                   /\ \E g \in WAll(t) : Incl(t, g) /\ \E i \in MarkIdx(t, g) : WA(t, g)[i].key = key
Known_C06_1(t, g) == MarkIdx(t, g) # {} /\ CatOK(t, g, "mark") /\ ~\E i \in MarkIdx(t, g) : PairedD(t, WA(t, g)[i].key)
CandKeys(t, b, num, m) == {k \in {WA(t, b)[i].key : i \in {i \in BaseIdx(t, b) : WA(t, b)[i].num = num}} : k \in MarkKeysOf(t, m)}
Cands(t, b, num, m) == {<<Offset(t, b, num, m, k)[2], Offset(t, b, num, m, k)[3]>> : k \in CandKeys(t, b, num, m)}
Items(t) == {x \in {"base", "mark", "lig"} \X WAll(t) \X (0..2) \X WAll(t) :
               LET kind == x[1]  b == x[2]  comp == x[3]  m == x[4] IN
               /\ b # m /\ IsMarkD(t, m)
               /\ CASE kind = "base" -> comp = 0 /\ ~IsMarkD(t, b) /\ CatOK(t, b, "base")
                    [] kind = "mark" -> comp = 0 /\ IsMarkD(t, b)
                    [] kind = "lig"  -> comp >= 1 /\ ~IsMarkD(t, b) /\ CatOK(t, b, "ligature")}

Done == pc = 3
C06_Model ==
  Done => LET t == T  P == WPlan(t) IN
          \A x \in Items(t) :
             LET a == WAttach(t, P, x[1], x[2], x[3], x[4])  c == Cands(t, x[2], x[3], x[4]) IN
             \/ Known_C06_1(t, x[2]) \/ Known_C06_1(t, x[4])
             \/ IF c = {} THEN ~a[1] ELSE a[1] /\ <<a[2], a[3]>> \in c
\* must FAIL: without the signature of F-C06-1 the writer's notion of "mark glyph" loses attachments
C06_Model_Strict ==
  Done => LET t == T  P == WPlan(t) IN
          \A x \in Items(t) :
             LET a == WAttach(t, P, x[1], x[2], x[3], x[4])  c == Cands(t, x[2], x[3], x[4]) IN
             IF c = {} THEN ~a[1] ELSE a[1] /\ <<a[2], a[3]>> \in c
\* nothing outside the items is attached either: a glyph that is not (declaratively) a mark never attaches
NoSpurious ==
  Done => LET t == T  P == WPlan(t) IN
          \A kind \in {"base", "mark", "lig"} : \A b, m \in WAll(t) : \A comp \in (IF kind = "lig" THEN 1..2 ELSE {0}) :
             WAttach(t, P, kind, b, comp, m)[1] => IsMarkD(t, m) /\ CandKeys(t, b, comp, m) # {}
LookupsConflictFree == Done => LET t == T  P == WPlan(t) IN NoConflict(P, P.baseL) /\ NoConflict(P, P.ligL)
\* documented precedence
ChosenKey(t, P, kind, b, comp, m) ==
  LET a == WAttach(t, P, kind, b, comp, m) IN {k \in CandKeys(t, b, comp, m) : Offset(t, b, comp, m, k) = a}
SpecificWins ==
  (Done /\ ~grp) => LET t == T  P == WPlan(t) IN
     \A x \in Items(t) : (~Known_C06_1(t, x[2]) /\ ~Known_C06_1(t, x[4]) /\ CandKeys(t, x[2], x[3], x[4]) # {}) =>
        ChosenKey(t, P, x[1], x[2], x[3], x[4]) =
           {Keys[Max({RankIn(Keys, k) : k \in CandKeys(t, x[2], x[3], x[4])})]}
BottomWins ==
  (Done /\ grp) => LET t == T  P == WPlan(t) IN
     \A x \in {x \in Items(t) : x[1] # "mark"} :
        (~Known_C06_1(t, x[2]) /\ ~Known_C06_1(t, x[4])) =>
           ("bottom" \in CandKeys(t, x[2], x[3], x[4]) => ChosenKey(t, P, x[1], x[2], x[3], x[4]) = {"bottom"})
\* must FAIL: the writer's comment says the group holding MC_top is applied late "so that it wins"; it does not when a
\* conflicting class (top.alt) was coloured into the group of MC_bottom, which is applied later still
\* (marks {_bottom,_top} and {_top,_top.alt} on a base with all three anchors: the second mark goes to top.alt)
TopWins ==
  (Done /\ grp) => LET t == T  P == WPlan(t) IN
     \A x \in {x \in Items(t) : x[1] # "mark"} :
        (~Known_C06_1(t, x[2]) /\ ~Known_C06_1(t, x[4])) =>
           LET ck == CandKeys(t, x[2], x[3], x[4]) IN
           ("top" \in ck /\ "bottom" \notin ck) => ChosenKey(t, P, x[1], x[2], x[3], x[4]) = {"top"}
\* grouping never needs more lookups than there are classes, and puts non-conflicting classes together
GroupingCompact ==
  (Done /\ grp) => LET t == T  P == WPlan(t) IN
     /\ Len(P.baseL) <= Cardinality(P.classes)
     /\ (\A k1, k2 \in P.classes : k1 # k2 => P.class[k1] \cap P.class[k2] = {}) => Len(P.baseL) <= 1
=============================================================================
