SPECIFICATION Spec
INVARIANT C20_Strict
CHECK_DEADLOCK FALSE
