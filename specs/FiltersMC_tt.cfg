SPECIFICATION Spec
CONSTANTS
  TSet <- TSQuick
  FilterKinds <- TTKinds
INVARIANT ModelAgrees
INVARIANT C15_RenderPreserved
INVARIANT C15_FlattenDepth
INVARIANT C14_OutsidersUntouched
INVARIANT C14_ReportsChanges
CHECK_DEADLOCK FALSE
