------------------------------- MODULE Layout -------------------------------
(***************************************************************************)
(* Registration of generated GPOS features under scripts / language        *)
(* systems (feaLib semantics as environment):                              *)
(*  - a feature block WITHOUT script statements (mark, mkmk, curs, abvm,   *)
(*    blwm as written by ufo2ft) is registered under every language system *)
(*    declared by `languagesystem` statements, or under DFLT/dflt only     *)
(*    when none is declared;                                               *)
(*  - the kern writer registers its lookups EXPLICITLY: under DFLT, and    *)
(*    under the OpenType tag of every script for which it made a lookup.   *)
(* Property C20: wherever generated kerning is reachable, the generated    *)
(* mark / cursive features acting on glyphs of that script are reachable.  *)
(***************************************************************************)
EXTENDS Integers, FiniteSets, TLC

Scripts == {"latn", "arab"}
VARIABLES pc, declared, kernScripts, markScripts, reg
vars == <<pc, declared, kernScripts, markScripts, reg>>

Init == pc = 0 /\ declared = {} /\ kernScripts = {} /\ markScripts = {} /\ reg = <<>>
Pick == /\ pc = 0
        /\ declared' \in SUBSET (Scripts \cup {"DFLT"})       \* scripts named in languagesystem statements
        /\ kernScripts' \in SUBSET Scripts                    \* scripts for which the kern writer built a lookup
        /\ markScripts' \in SUBSET Scripts                    \* scripts whose glyphs carry attaching anchors
        /\ pc' = 1 /\ UNCHANGED reg
\* reg : script tag |-> set of feature tags reachable from its default language system
Build == /\ pc = 1
         /\ LET implicit == IF declared = {} THEN {"DFLT"} ELSE declared
                kernReg == IF kernScripts = {} THEN {} ELSE {"DFLT"} \cup kernScripts
                tags == implicit \cup kernReg
            IN reg' = [s \in tags |-> (IF s \in kernReg THEN {"kern"} ELSE {})
                                       \cup (IF s \in implicit /\ markScripts # {} THEN {"mark"} ELSE {})]
         /\ pc' = 2 /\ UNCHANGED <<declared, kernScripts, markScripts>>
Next == Pick \/ Build
Spec == Init /\ [][Next]_vars

Known_C20_1(s) == s \notin declared            \* the script is not named by any languagesystem statement
C20 == pc = 2 => \A s \in DOMAIN reg : ("kern" \in reg[s] /\ s \in markScripts) => ("mark" \in reg[s] \/ Known_C20_1(s))
C20_Strict == pc = 2 => \A s \in DOMAIN reg : ("kern" \in reg[s] /\ s \in markScripts) => "mark" \in reg[s]   \* must FAIL
=============================================================================
