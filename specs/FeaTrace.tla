------------------------------ MODULE FeaTrace ------------------------------
(***************************************************************************)
(* Trace acceptor for property C17.  Record: tid, user (abstract feature   *)
(* file of the UFO), out (abstract compiled feature source parsed back     *)
(* from debugFeatureFile), skipTags (tags handled by skip-mode writers),   *)
(* gsubSame (GSUB bytes equal with featureWriters=[] and the given         *)
(* writers), writers = table tags in the order the writers ran.            *)
(***************************************************************************)
EXTENDS FeaFile, Json, IOUtils, TLC, TLCExt
Traces == ndJsonDeserialize(IOEnv.TRACE_FILE)
VARIABLE i
Rng(s) == {s[k] : k \in 1..Len(s)}
GsubFirst(w) == \A a, b \in 1..Len(w) : (a < b /\ w[b] = "GSUB") => w[a] = "GSUB"
Clauses(t) ==
  << <<"user-statements-survive-in-order", IsSubseq(Flat(t.user), Flat(t.out))>>,
     <<"no-overwrite-no-duplicate-marker-position", \A T \in UserTags(t.user) \cap Rng(t.skipTags) : TagOK(t.user, t.out, T)>>,
     <<"user-gdef-parts-left-alone", ("GDEF" \in Rng(t.writers)) => GdefOK(t.user, t.out)>>,
     <<"gsub-unchanged-by-writers", t.gsubSame>>,
     <<"gsub-writers-run-first", GsubFirst(t.writers)>> >>
Init == i = 1
Next == /\ i <= Len(Traces)
        /\ LET t == Traces[i]  cl == Clauses(t)  bad == {k \in 1..Len(cl) : ~cl[k][2]}
           IN PrintT(<<"VERDICT", t.tid, IF bad = {} THEN "none" ELSE cl[Min(bad)][1], "none">>)
        /\ i' = i + 1
Spec == Init /\ [][Next]_i
=============================================================================
