---------------------------- MODULE FeaPipeline ----------------------------
(***************************************************************************)
(* The feature-writer pipeline of a (variable) feature compile:            *)
(*   FeatureCompiler.setupFeatures parses the user's features ONCE into an *)
(*   AST that all writers share; each writer first sets its context -- and *)
(*   may then ask for the temporary GSUB table (BaseFeatureWriter.         *)
(*   compileGSUB, cached on the compiler) -- and afterwards inserts its    *)
(*   statements; finally the AST is stringified and compiled.              *)
(* feaLib's builder visits EVERY statement when it builds a table and      *)
(* replaces variable scalars by their default value in the AST it is       *)
(* given.  The design question: can a statement that a writer inserted as  *)
(* variable reach the final compile flattened?                             *)
(*   CopyOnBuild = FALSE : the temporary GSUB is built from the shared AST *)
(*                         (the code before fix 1cdbd16)                   *)
(*   CopyOnBuild = TRUE  : it is built from a copy (the code now)          *)
(* HasLTR: the font has a left-to-right code point (only then does the     *)
(* cursive writer ask for the GSUB).  TLC explores every writer order.     *)
(***************************************************************************)
EXTENDS Integers, Sequences, FiniteSets

CONSTANTS CopyOnBuild, HasLTR
Writers == {"curs", "kern", "mark", "gdef"}
VARIABLES ast, cached, done, cur, phase
vars == <<ast, cached, done, cur, phase>>

\* which writers ask for the temporary GSUB while setting their context / before writing
NeedsGSUB(w) == w = "kern" \/ w = "mark" \/ (w = "curs" /\ HasLTR)
Collapse(a) == [k \in 1..Len(a) |-> [a[k] EXCEPT !.var = FALSE]]

Init == ast = <<>> /\ cached = FALSE /\ done = {} /\ cur = "none" /\ phase = "idle"
Start(w) == /\ phase = "idle" /\ w \notin done
            /\ cur' = w /\ phase' = "ctx" /\ UNCHANGED <<ast, cached, done>>
SetContext == /\ phase = "ctx"
              /\ IF NeedsGSUB(cur) /\ ~cached
                 THEN cached' = TRUE /\ ast' = (IF CopyOnBuild THEN ast ELSE Collapse(ast))
                 ELSE UNCHANGED <<ast, cached>>
              /\ phase' = "write" /\ UNCHANGED <<done, cur>>
\* in a variable build the statements every writer inserts carry variable scalars
Write == /\ phase = "write"
         /\ ast' = Append(ast, [by |-> cur, var |-> TRUE, born |-> TRUE])
         /\ done' = done \cup {cur} /\ cur' = "none" /\ phase' = "idle" /\ UNCHANGED cached
Next == (\E w \in Writers : Start(w)) \/ SetContext \/ Write
Spec == Init /\ [][Next]_vars

TypeOK == cached \in BOOLEAN /\ done \subseteq Writers /\ cur \in Writers \cup {"none"}
\* what a writer inserted as variable is still variable whenever the AST is looked at -- in particular at the final compile
VariableSurvives == \A k \in 1..Len(ast) : ast[k].born => ast[k].var
\* writers only add: (checked on traces too) an earlier writer's statements are never rewritten
OnlyAdds == [][\A k \in 1..Len(ast) : k <= Len(ast') /\ ast'[k].by = ast[k].by]_vars
=============================================================================
