SPECIFICATION Spec
CONSTANT MaxReq = 2
INVARIANT C03_Order
INVARIANT C03_Cmap
CHECK_DEADLOCK FALSE
