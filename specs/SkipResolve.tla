---------------------------- MODULE SkipResolve ----------------------------
(***************************************************************************)
(* Which list of non-exported glyphs a build applies (property C13 names   *)
(* three sources: the skipExportGlyphs argument, the UFO lib, the          *)
(* designspace lib).  Entry points (BaseCompiler.preprocess,               *)
(* _pre_compile_designspace, Instantiator.generate_instance):              *)
(*   "static"   compileTTF / compileOTF, also of a non-default layer:      *)
(*              the argument if given, else the FONT's lib list            *)
(*   "list"     compileInterpolatableTTFs / OTFs (list of UFOs):           *)
(*              the argument if given, else the UNION of the UFOs' lists   *)
(*   "ds"       every function taking a designspace: the designspace lib   *)
(*              list, whatever the argument and the UFO libs say           *)
(*   "instance" Instantiator.generate_instance, then a static compile of   *)
(*              the instance without argument: the designspace lib list    *)
(*              is written over whatever the default source's lib holds    *)
(* Two switches reproduce seeded changes: LayerLib (C13-f: the layer's lib *)
(* is consulted for a layer compile) and KeepUfoList (C13-g: setdefault    *)
(* instead of assignment on the instance).                                 *)
(***************************************************************************)
EXTENDS Integers, FiniteSets, TLC
CONSTANTS Glyphs, LayerLib, KeepUfoList
None == {"<none>"}                       \* "no list given" (distinct from the empty list)
Lists == (SUBSET Glyphs) \cup {None}
VARIABLES entry, arg, fontLib, layerLib, otherLib, dsLib, layer
vars == <<entry, arg, fontLib, layerLib, otherLib, dsLib, layer>>
OrEmpty(l) == IF l = None THEN {} ELSE l
Init == /\ entry \in {"static", "list", "ds", "instance"} /\ arg \in Lists /\ fontLib \in Lists /\ layerLib \in Lists
        /\ otherLib \in Lists /\ dsLib \in Lists /\ layer \in BOOLEAN
Next == UNCHANGED vars
Spec == Init /\ [][Next]_vars
\* ---- the code -----------------------------------------------------------------------------------------------------
InstanceLib == IF KeepUfoList /\ fontLib # None THEN fontLib ELSE OrEmpty(dsLib)      \* lib of the generated instance
Applied ==
  CASE entry = "static"   -> IF arg # None THEN arg
                             ELSE IF layer /\ LayerLib THEN OrEmpty(layerLib) ELSE OrEmpty(fontLib)
    [] entry = "list"     -> IF arg # None THEN arg ELSE OrEmpty(fontLib) \cup OrEmpty(otherLib)
    [] entry = "ds"       -> OrEmpty(dsLib)
    [] entry = "instance" -> InstanceLib
\* ---- C13's reading: a glyph listed by the source that speaks for this entry point is not exported -----------------------
Speaking ==
  CASE entry = "static"   -> IF arg # None THEN arg ELSE OrEmpty(fontLib)
    [] entry = "list"     -> IF arg # None THEN arg ELSE OrEmpty(fontLib) \cup OrEmpty(otherLib)
    [] entry = "ds"       -> OrEmpty(dsLib)
    [] entry = "instance" -> OrEmpty(dsLib)
ListedAreSkipped == Speaking \subseteq Applied
OnlyListedAreSkipped == Applied \subseteq Speaking
=============================================================================
