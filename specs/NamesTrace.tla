----------------------------- MODULE NamesTrace -----------------------------
(***************************************************************************)
(* Trace acceptor for property C11.  Record: tid, off / on = glyph orders  *)
(* (names as code point sequences) of the compiles without / with          *)
(* production names, glyphs = << [name, uni] >> (source glyph set),        *)
(* ps = << [name, value] >>, usePs, expectRename, diffTables = tags of the *)
(* tables whose raw bytes differ between the two fonts.                    *)
(***************************************************************************)
EXTENDS Names, Json, IOUtils, TLC, TLCExt
Traces == ndJsonDeserialize(IOEnv.TRACE_FILE)
VARIABLE i
Rng(s) == {s[k] : k \in 1..Len(s)}
GlyphFun(t) == [n \in {t.glyphs[k].name : k \in 1..Len(t.glyphs)} |->
                  [uni |-> t.glyphs[CHOOSE k \in 1..Len(t.glyphs) : t.glyphs[k].name = n].uni]]
PsFun(t) == [n \in {t.ps[k].name : k \in 1..Len(t.ps)} |-> t.ps[CHOOSE k \in 1..Len(t.ps) : t.ps[k].name = n].value]
Clauses(t) ==
  << <<"only-name-tables-differ", "P", Rng(t.diffTables) \subseteq {"post", "CFF ", "CFF2"}>>,
     <<"same-glyph-count",        "P", Len(t.on) = Len(t.off)>>,
     \* (the CFF table carries names and outlines together: its bytes may differ, what each glyph INDEX draws may not)
     <<"outlines-by-index-unchanged", "P", t.outlinesSame>>,
     <<"names-unique",            "P", Distinct(t.on)>>,
     <<"no-rename-when-off",      "P", ~t.expectRename => t.on = t.off>>,
     <<"legal-characters",        "P", t.expectRename => \A k \in 1..Len(t.on) :
                                          t.off[k] \in DOMAIN GlyphFun(t) => \A j \in 1..Len(t.on[k]) : LegalChar(t.on[k][j])>>,
     <<"uses-supplied-name",      "P", (t.expectRename /\ t.usePs) => \A k \in 1..Len(t.off) :
                                          (t.off[k] \in DOMAIN PsFun(t) /\ Len(PsFun(t)[t.off[k]]) > 0
                                           /\ Len(StripIllegal(PsFun(t)[t.off[k]])) <= MaxLen)
                                             => IsPrefix2(StripIllegal(PsFun(t)[t.off[k]]), t.on[k])>>,
     \* without supplied names the final name starts with the name derived from the code points (uniXXXX / uXXXXX, suffixes
     \* and ligature parts kept, the compact uniXXXXYYYY form for BMP-only ligatures); a ".N" may follow to make it unique
     <<"derived-from-code-points", "P", (t.expectRename /\ ~t.usePs) => \A k \in 1..Len(t.off) :
                                          t.off[k] \in DOMAIN GlyphFun(t) =>
                                             LET b == ValidName(t.off[k], BuildName(GlyphFun(t), PsFun(t), FALSE, t.off[k]))
                                             IN Len(b) > 0 => IsPrefix2(b, t.on[k])>>,
     \* (an all-illegal supplied name yields an empty glyph name, which the font reader replaces by glyphNNNNN: skipped)
     <<"model-rename",            "M", t.expectRename =>
                                          LET m == Rename(t.off, GlyphFun(t), PsFun(t), t.usePs)
                                          IN Len(m) = Len(t.on) /\ \A k \in 1..Len(m) : Len(m[k]) > 0 => t.on[k] = m[k]>> >>
FirstFailing(cl, kind) == LET bad == {k \in 1..Len(cl) : cl[k][2] = kind /\ ~cl[k][3]} IN IF bad = {} THEN "none" ELSE cl[Min(bad)][1]
Init == i = 1
Next == /\ i <= Len(Traces)
        /\ LET t == Traces[i]  cl == Clauses(t) IN PrintT(<<"VERDICT", t.tid, FirstFailing(cl, "P"), FirstFailing(cl, "M")>>)
        /\ i' = i + 1
Spec == Init /\ [][Next]_i
=============================================================================
