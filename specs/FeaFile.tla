------------------------------- MODULE FeaFile -------------------------------
(***************************************************************************)
(* Feature files as sequences of top-level statements                      *)
(*   [kind, tag, t (text id), body = << [k, t] >>]                          *)
(* with k in "rule" | "comment" | "marker" | "miscased" for the direct      *)
(* children of a feature block.  Declarative statement of property C17 and *)
(* the insertion algorithm of BaseFeatureWriter (_insert / collectInsert-   *)
(* Markers / setContext in skip mode).                                     *)
(***************************************************************************)
EXTENDS Integers, Sequences, FiniteSets, SequencesExt, FiniteSetsExt

\* flattened non-comment statements: <<tag or "", text>>
FlatBlock(b) ==
  IF b.kind = "comment" THEN <<>>
  ELSE IF b.kind = "feature"
       THEN LET rules == SelectSeq(b.body, LAMBDA x : x.k = "rule") IN [k \in 1..Len(rules) |-> <<b.tag, rules[k].t>>]
       ELSE IF b.kind = "table"
       THEN [k \in 1..Len(b.body) |-> <<"table " \o b.tag, b.body[k].t>>]
       ELSE << <<"", b.kind \o ":" \o b.t>> >>
Flat(file) == FlattenSeq([k \in 1..Len(file) |-> FlatBlock(file[k])])

RECURSIVE IsSubseqFrom(_, _, _, _)
IsSubseqFrom(u, i, o, j) ==
  IF i > Len(u) THEN TRUE
  ELSE IF j > Len(o) THEN FALSE
  ELSE IF u[i] = o[j] THEN IsSubseqFrom(u, i + 1, o, j + 1)
  ELSE IsSubseqFrom(u, i, o, j + 1)
IsSubseq(u, o) == IsSubseqFrom(u, 1, o, 1)

UserTags(file) == {file[k].tag : k \in {k \in 1..Len(file) : file[k].kind = "feature"}}
\* items of tag T in flattened order, with the marker (if any) kept as <<T, "@marker">>
TagItems(file, T) ==
  FlattenSeq([k \in 1..Len(file) |->
     IF file[k].kind = "feature" /\ file[k].tag = T
     THEN LET b == SelectSeq(file[k].body, LAMBDA x : x.k \in {"rule", "marker"})
          IN [j \in 1..Len(b) |-> IF b[j].k = "marker" THEN "@marker" ELSE b[j].t]
     ELSE <<>>])
Rules(items) == SelectSeq(items, LAMBDA x : x # "@marker")
\* number of rules before the first marker that sits in a top-level block (0-based position), or -1
MarkerPos(items) ==
  LET ms == {k \in 1..Len(items) : items[k] = "@marker"}
  IN IF ms = {} THEN -1 ELSE Len(Rules(SubSeq(items, 1, Min(ms) - 1)))
HasMarker(file, T) == MarkerPos(TagItems(file, T)) >= 0

\* C17 (skip mode): a user feature without marker is neither overwritten nor duplicated; with a marker the generated
\* rules sit exactly at the marker's position relative to the hand-written ones
TagOK(user, out, T) ==
  LET u == Rules(TagItems(user, T))
      o == Rules(TagItems(out, T))
      p == MarkerPos(TagItems(user, T))
      userSet == {u[k] : k \in 1..Len(u)}
  IN IF p < 0 THEN o = u
     ELSE /\ Len(o) >= Len(u)
          /\ SubSeq(o, 1, p) = SubSeq(u, 1, p)
          /\ SubSeq(o, Len(o) - (Len(u) - p) + 1, Len(o)) = SubSeq(u, p + 1, Len(u))
          /\ \A k \in (p + 1)..(Len(o) - (Len(u) - p)) : o[k] \notin userSet

\* table blocks (GDEF): [kind = "table", tag, body = << [k = "rule", t, c = statement class] >>]
TableStmts(file, tag, classes) ==
  FlattenSeq([k \in 1..Len(file) |->
     IF file[k].kind = "table" /\ file[k].tag = tag
     THEN LET b == SelectSeq(file[k].body, LAMBDA x : x.c \in classes) IN [j \in 1..Len(b) |-> b[j].t]
     ELSE <<>>])
CaretClasses == {"LigatureCaretByIndexStatement", "LigatureCaretByPosStatement"}
\* the parts of GDEF the user wrote are left alone: glyph classes are not redefined, and hand-written ligature carets
\* (by position or by contour point) get no generated companions
GdefOK(user, out) ==
  /\ TableStmts(user, "GDEF", {"GlyphClassDefStatement"}) # <<>> =>
        TableStmts(out, "GDEF", {"GlyphClassDefStatement"}) = TableStmts(user, "GDEF", {"GlyphClassDefStatement"})
  /\ TableStmts(user, "GDEF", CaretClasses) # <<>> =>
        TableStmts(out, "GDEF", CaretClasses) = TableStmts(user, "GDEF", CaretClasses)
=============================================================================
