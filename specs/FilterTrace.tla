---------------------------- MODULE FilterTrace ----------------------------
(***************************************************************************)
(* Trace acceptor for recorded invocations of the real filter objects      *)
(* (properties C14, C15, and the filter stages inside compiles).           *)
(* One NDJSON record = one invocation:                                     *)
(*   tid, filter, inc (list of names), opt, before, after, modified,       *)
(*   fresh (after / modified of a fresh filter object on an equal input),  *)
(*   srcSame (source font snapshot unchanged), sep (separate glyph set),   *)
(*   again (glyph set after applying the filter a second time; optional)   *)
(* Verdict line: <<"VERDICT", tid, firstFailingPropertyClause,             *)
(*                 firstFailingModelClause, knownFindingTag>>              *)
(***************************************************************************)
EXTENDS Filters, PropagateAnchors, Json, IOUtils, TLC, TLCExt

Traces == ndJsonDeserialize(IOEnv.TRACE_FILE)

VARIABLE i
vars == <<i>>

SetOf(seq) == {seq[k] : k \in 1..Len(seq)}
Has(r, f) == f \in DOMAIN r

Model(t) ==
  LET inc == SetOf(t.inc) IN
  CASE t.filter = "DecomposeComponents"            -> DecomposeModel(t.before, inc)
    [] t.filter = "DecomposeTransformedComponents" -> DecomposeTransformedModel(t.before, inc)
    [] t.filter = "FlattenComponents"              -> FlattenModel(t.before, inc)
    [] t.filter = "SkipExportGlyphs"               -> SkipExportModel(t.before, SetOf(t.opt.skip))
    [] t.filter = "ReverseContourDirection"        -> ReverseModel(t.before, inc)
    [] t.filter = "Transformations"                -> TransformationsModel(t.before, inc, t.opt)
    [] OTHER                                       -> [gs |-> t.after, mod |-> SetOf(t.modified)]

\* PropagateAnchors: opt = [cps, marks, ligmark] (see PropagateAnchors.tla)
Env(t) == [cps |-> t.opt.cps, marks |-> SetOf(t.opt.marks), ligmark |-> SetOf(t.opt.ligmark)]
PropModelOK(t) ==
  LET inc == SetOf(t.inc)  env == Env(t) IN
  PropagateModelled(t.before, env, inc) =>
    /\ \A n \in DOMAIN t.before : n \in DOMAIN t.after /\ NXY(t.after[n].anchors) = PropagateModelAnchors(t.before, env, inc)[n]
    /\ SetOf(t.modified) = PropagateModelModified(t.before, env, inc)

RenderFilters == {"DecomposeComponents", "DecomposeTransformedComponents", "FlattenComponents"}

\* for SkipExport the included set is "everything"; outsiders clause is about the skip semantics
IncOf(t) == IF t.filter = "SkipExportGlyphs" THEN DOMAIN t.before ELSE SetOf(t.inc)

XformOK(t) ==
  LET M == XMatrix(t.opt)
      inc == SetOf(t.inc)
  IN \A n \in XformTargets(t.before, inc) :
       \/ Known_C15_1(t.before, n, inc)
       \/ /\ n \in DOMAIN t.after
          /\ Resolve(t.after, n) = MapContours(M, Resolve(t.before, n))
          /\ Len(t.after[n].anchors) = Len(t.before[n].anchors)
          /\ \A k \in 1..Len(t.before[n].anchors) :
                LET q == AppXY(M, t.before[n].anchors[k].x, t.before[n].anchors[k].y)
                IN t.after[n].anchors[k].x = q[1] /\ t.after[n].anchors[k].y = q[2]
                   /\ t.after[n].anchors[k].n = t.before[n].anchors[k].n
          /\ t.after[n].w = AppVec(M, t.before[n].w, t.before[n].h)[1]

XformKnown(t) ==
  t.filter = "Transformations" /\
  \E n \in XformTargets(t.before, SetOf(t.inc)) :
      /\ Known_C15_1(t.before, n, SetOf(t.inc))
      /\ ~(n \in DOMAIN t.after /\ Resolve(t.after, n) = MapContours(XMatrix(t.opt), Resolve(t.before, n)))

Clauses(t) ==
  LET mod == SetOf(t.modified) IN
  << <<"outsiders-untouched", "P", OutsidersUntouched(t.before, t.after, IncOf(t))>>,
     <<"reports-changes",     "P", ReportsChanges(t.before, t.after, mod)>>,
     <<"source-untouched",    "P", t.sep => t.srcSame>>,
     <<"stateless",           "P", Has(t, "fresh") => (t.fresh.after = t.after /\ SetOf(t.fresh.modified) = mod)>>,
     <<"render-preserved",    "P", t.filter \in RenderFilters =>
                                       RenderPreserved(t.before, t.after, DOMAIN t.before)>>,
     <<"flatten-depth",       "P", (t.filter = "FlattenComponents" /\ SetOf(t.inc) = DOMAIN t.before
                                        /\ \A n \in DOMAIN t.before : ~IsMixed(t.before[n]))
                                       => \A n \in DOMAIN t.after : Depth(t.after, n) <= 1>>,
     <<"skip-removed",        "P", t.filter = "SkipExportGlyphs" =>
                                       /\ DOMAIN t.after = (DOMAIN t.before) \ SetOf(t.opt.skip)
                                       /\ \A n \in DOMAIN t.after : Bases(t.after, n) \cap SetOf(t.opt.skip) = {}
                                       /\ \A n \in DOMAIN t.after : SameBag(Resolve(t.after, n), Resolve(t.before, n))>>,
     <<"matrix-applied",      "P", t.filter = "Transformations" => XformOK(t)>>,
     <<"idempotent",          "P", Has(t, "again") => t.again = t.after>>,
     <<"anchors-appended",    "P", t.filter = "PropagateAnchors" => AnchorsOnlyAppended(t.before, t.after)>>,
     <<"anchors-follow",      "P", t.filter = "PropagateAnchors" => NewAnchorsFollowComponents(t.before, t.after)>>,
     <<"anchors-complete",    "P", t.filter = "PropagateAnchors" => AnchorsComplete(t.before, t.after, Env(t), SetOf(t.inc))>>,
     <<"sort-permutes",       "P", t.filter = "SortContours" =>
                                      \A n \in DOMAIN t.before :
                                         /\ n \in DOMAIN t.after /\ SameBag(t.after[n].cs, t.before[n].cs)
                                         /\ [t.after[n] EXCEPT !.cs = <<>>] = [t.before[n] EXCEPT !.cs = <<>>]>>,
     <<"inverse-sane",        "M", t.filter = "Transformations" => Compose(XMatrix(t.opt), t.opt.inv) = Ident>>,
     <<"model-propagate",     "M", t.filter = "PropagateAnchors" => PropModelOK(t)>>,
     <<"model-successor",     "M", Model(t).gs = t.after>>,
     <<"model-modified",      "M", Model(t).mod = mod>> >>

\* ---- interpolatable filter invocations: t.masters = << [before, after] ... >> ------------------
Befores(t) == [k \in 1..Len(t.masters) |-> t.masters[k].before]
Afters(t)  == [k \in 1..Len(t.masters) |-> t.masters[k].after]
IModel(t) ==
  LET inc == SetOf(t.inc)  ms == Befores(t) IN
  CASE t.filter = "DecomposeComponents" ->
         IJointModel(ms, inc, HasComps, DecomposeGlyph, LAMBDA g, n : TRUE)
    [] t.filter = "DecomposeTransformedComponents" ->
         IJointModel(ms, inc, HasTransformed, DecomposeGlyph, LAMBDA g, n : TRUE)
    [] t.filter = "SkipExportGlyphs" ->
         LET sk == SetOf(t.opt.skip)
             r == IJointModel(ms, AllNames(ms), LAMBDA g : SkipTouches(g, sk),
                              LAMBDA g, n : SkipExportGlyph(g, n, sk), LAMBDA g, n : TRUE)
         IN IF sk = {} THEN [ms |-> ms, hit |-> {}]
            ELSE [ms |-> [k \in 1..Len(ms) |-> [n \in (DOMAIN ms[k]) \ sk |-> r.ms[k][n]]],
                  hit |-> r.hit \cup (sk \cap AllNames(ms))]
    [] OTHER -> [ms |-> Afters(t), hit |-> SetOf(t.modified)]

IClauses(t) ==
  LET mod == SetOf(t.modified)  K == 1..Len(t.masters)  inc == IF t.filter = "SkipExportGlyphs" THEN AllNames(Befores(t)) ELSE SetOf(t.inc) IN
  << <<"outsiders-untouched", "P", \A k \in K : OutsidersUntouched(t.masters[k].before, t.masters[k].after, inc)>>,
     <<"reports-changes",     "P", \A k \in K : ReportsChanges(t.masters[k].before, t.masters[k].after, mod)>>,
     <<"source-untouched",    "P", t.sep => t.srcSame>>,
     <<"stateless",           "P", Has(t, "fresh") => (t.fresh.afters = Afters(t) /\ SetOf(t.fresh.modified) = mod)>>,
     <<"render-preserved",    "P", t.filter \in RenderFilters =>
                                       \A k \in K : RenderPreserved(t.masters[k].before, t.masters[k].after, DOMAIN t.masters[k].before)>>,
     <<"stays-compatible",    "P", (t.filter \in RenderFilters \cup {"SkipExportGlyphs"} /\ SameDomains(Befores(t)) /\ CompatibleMasters(Befores(t)))
                                       => CompatibleMasters(Afters(t))>>,
     <<"skip-removed",        "P", t.filter = "SkipExportGlyphs" => \A k \in K :
                                       /\ DOMAIN t.masters[k].after = (DOMAIN t.masters[k].before) \ SetOf(t.opt.skip)
                                       /\ \A n \in DOMAIN t.masters[k].after :
                                             /\ Bases(t.masters[k].after, n) \cap SetOf(t.opt.skip) = {}
                                             /\ SameBag(Resolve(t.masters[k].after, n), Resolve(t.masters[k].before, n))>>,
     <<"model-successor",     "M", IModel(t).ms = Afters(t)>>,
     <<"model-modified",      "M", IModel(t).hit = mod>> >>

FirstFailing(cl, kind) ==
  LET bad == {k \in 1..Len(cl) : cl[k][2] = kind /\ ~cl[k][3]}
  IN IF bad = {} THEN "none" ELSE cl[Min(bad)][1]

Init == i = 1
Next ==
  /\ i <= Len(Traces)
  /\ LET t == Traces[i]
         cl == IF Has(t, "masters") THEN IClauses(t) ELSE Clauses(t)
     IN PrintT(<<"VERDICT", t.tid, FirstFailing(cl, "P"), FirstFailing(cl, "M"),
                 IF ~Has(t, "masters") /\ XformKnown(t) THEN "F-C15-1" ELSE "none">>)
  /\ i' = i + 1
Spec == Init /\ [][Next]_vars

AllConsumed == TLCGet("stats").diameter - 1 = Len(Traces)
=============================================================================
