SPECIFICATION Spec
INVARIANT C19_MasterReproduced
INVARIANT C19_Between
INVARIANT C19_TwoMasterLinear
CHECK_DEADLOCK FALSE
