------------------------------- MODULE FeaMC -------------------------------
(***************************************************************************)
(* Exhaustive design check of BaseFeatureWriter.setContext (skip mode,     *)
(* collectInsertMarkers) + _insert on EVERY feature file with up to        *)
(* MaxBlocks top-level feature blocks over Tags, bodies of up to MaxBody   *)
(* items from {rule, comment, marker, mis-cased marker}, for a writer that  *)
(* produces the features WTags (in that order), lookups and top-level      *)
(* definitions.  Checked: the declarative clauses of C17 (FeaFile.tla) and *)
(* that generated lookups precede every generated feature block.           *)
(***************************************************************************)
EXTENDS FeaFile, TLC

CONSTANTS Tags, WTags, MaxBlocks, MaxBody

MarkWriterTags == <<"mark", "mkmk">>
VARIABLES pc, file, out
vars == <<pc, file, out>>

Item(k, id) == [k |-> k, t |-> IF k = "rule" THEN "r" \o ToString(id) ELSE k \o ToString(id)]
Kinds == {"rule", "comment", "marker", "miscased"}

Init == pc = "build" /\ file = <<>> /\ out = <<>>
AddBlock == /\ pc = "build" /\ Len(file) < MaxBlocks
            /\ \E T \in Tags : file' = Append(file, [kind |-> "feature", tag |-> T, t |-> "", body |-> <<>>])
            /\ UNCHANGED <<pc, out>>
AddItem == /\ pc = "build" /\ Len(file) > 0 /\ Len(file[Len(file)].body) < MaxBody
           /\ \E k \in Kinds :
                 LET id == 10 * Len(file) + Len(file[Len(file)].body) IN
                 file' = [file EXCEPT ![Len(file)].body = Append(@, Item(k, id))]
           /\ UNCHANGED <<pc, out>>

\* ---- the writer -------------------------------------------------------------------------------
IsComment(x) == x.k \in {"comment", "marker", "miscased"}
\* collectInsertMarkers: first block (in file order) of a tag that holds a marker, first marker in it
MarkerBlock(f, T) == LET S == {k \in 1..Len(f) : f[k].kind = "feature" /\ f[k].tag = T /\ \E j \in 1..Len(f[k].body) : f[k].body[j].k = "marker"}
                     IN IF S = {} THEN 0 ELSE Min(S)
FirstMarker(b) == Min({j \in 1..Len(b.body) : b.body[j].k = "marker"})
Existing(f) == {f[k].tag : k \in {k \in 1..Len(f) : f[k].kind = "feature"}}
\* skip mode: todo = features minus existing ones that have no insert marker
Todo(f) == {T \in {WTags[k] : k \in 1..Len(WTags)} : T \notin Existing(f) \/ MarkerBlock(f, T) > 0}

Gen(T) == [kind |-> "feature", tag |-> T, t |-> "", body |-> << [k |-> "rule", t |-> "gen:" \o T] >>]
GenLookup == [kind |-> "LookupBlock", tag |-> "", t |-> "genlookup", body |-> <<>>]
GenDef == [kind |-> "GlyphClassDefinition", tag |-> "", t |-> "gendef", body |-> <<>>]

InsAt(s, idx, x) == SubSeq(s, 1, idx - 1) \o <<x>> \o SubSeq(s, idx, Len(s))      \* 1-based "insert before idx"
DropAt(s, idx) == SubSeq(s, 1, idx - 1) \o SubSeq(s, idx + 1, Len(s))

\* state of the _insert loop: [st: statements, ins: set of inserted feature tags, idx: sequence of recorded indices]
\* feats: the writer's features to insert, in order (only those in todo)
RECURSIVE Dependents(_, _, _, _, _)
Dependents(S, feats, i, index, acc) ==          \* walk backwards from i inserting not-yet-inserted features at `index`
  IF i < 1 \/ feats[i] \in acc.ins THEN acc
  ELSE Dependents(S, feats, i - 1, index,
                  [st |-> InsAt(acc.st, index, Gen(feats[i])),
                   ins |-> acc.ins \cup {feats[i]},
                   idx |-> <<index>> \o [j \in 1..Len(acc.idx) |-> acc.idx[j] + 1]])

RECURSIVE InsertLoop(_, _, _, _)
InsertLoop(f0, feats, ix, acc) ==
  IF ix > Len(feats) THEN acc
  ELSE LET T == feats[ix]
           \* the marker block is identified in the ORIGINAL file; find it in the current statements by identity (its first item id)
           mb0 == MarkerBlock(f0, T)
       IN IF mb0 = 0 THEN InsertLoop(f0, feats, ix + 1, acc)
          ELSE LET bi == MarkerBlock(acc.st, T)
                   blk == acc.st[bi]
                   mi == FirstMarker(blk)
                   before == SubSeq(blk.body, 1, mi - 1)
                   after == SubSeq(blk.body, mi + 1, Len(blk.body))
                   ob == \A j \in 1..Len(before) : IsComment(before[j])
                   oa == \A j \in 1..Len(after) : IsComment(after[j])
                   kept == [blk EXCEPT !.body = before \o after]
                   r == IF ob /\ oa THEN [st |-> DropAt(acc.st, bi), index |-> bi]
                        ELSE IF ob THEN [st |-> [acc.st EXCEPT ![bi] = kept], index |-> bi]
                        ELSE IF oa THEN [st |-> [acc.st EXCEPT ![bi] = kept], index |-> bi + 1]
                        ELSE [st |-> InsAt([acc.st EXCEPT ![bi] = [blk EXCEPT !.body = before]], bi + 1, [blk EXCEPT !.body = after]),
                              index |-> bi + 1]
                   a1 == [st |-> InsAt(r.st, r.index, Gen(T)), ins |-> acc.ins \cup {T}, idx |-> Append(acc.idx, r.index)]
                   a2 == Dependents(0, feats, ix - 1, r.index, a1)
               IN InsertLoop(f0, feats, ix + 1, a2)

RECURSIVE AppendRest(_, _, _)
AppendRest(feats, ix, acc) ==
  IF ix > Len(feats) THEN acc
  ELSE IF feats[ix] \in acc.ins THEN AppendRest(feats, ix + 1, acc)
  ELSE AppendRest(feats, ix + 1, [st |-> Append(acc.st, Gen(feats[ix])), ins |-> acc.ins \cup {feats[ix]},
                                   idx |-> Append(acc.idx, Len(acc.st) + 1)])

RunWriter(f) ==
  LET feats == SelectSeq(WTags, LAMBDA T : T \in Todo(f)) IN
  IF Len(feats) = 0 THEN f
  ELSE LET a == InsertLoop(f, feats, 1, [st |-> f, ins |-> {}, idx |-> <<>>])
           b == AppendRest(feats, 1, a)
           minindex == Min({b.idx[j] : j \in 1..Len(b.idx)})
       IN <<GenDef>> \o SubSeq(b.st, 1, minindex - 1) \o <<GenLookup>> \o SubSeq(b.st, minindex, Len(b.st))

Write == pc = "build" /\ out' = RunWriter(file) /\ pc' = "done" /\ UNCHANGED file
Next == AddBlock \/ AddItem \/ Write
Spec == Init /\ [][Next]_vars

\* ---- properties -------------------------------------------------------------------------------
C17_Survive == pc = "done" => IsSubseq(Flat(file), Flat(out))
C17_Tags == pc = "done" => \A T \in UserTags(file) : TagOK(file, out, T)
GenFeaturePos == {k \in 1..Len(out) : out[k].kind = "feature" /\ \E j \in 1..Len(out[k].body) : out[k].body[j].t = "gen:" \o out[k].tag}
LookupPos == {k \in 1..Len(out) : out[k].kind = "LookupBlock"}
\* generated lookups must be defined before every generated feature block that may reference them
LookupsBeforeFeatures == pc = "done" => \A l \in LookupPos, g \in GenFeaturePos : l < g
NoDuplicateGenerated == pc = "done" => \A T \in Tags : Cardinality({k \in GenFeaturePos : out[k].tag = T}) <= 1
=============================================================================
