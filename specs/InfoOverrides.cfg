SPECIFICATION Spec
CONSTANTS
  Copy = TRUE
  Attrs = {"familyName", "ascender", "vendor"}
  VFs = {1, 2, 3}
INVARIANT SourceUntouched
INVARIANT OwnOverridesOnly
CHECK_DEADLOCK FALSE
