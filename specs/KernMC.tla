------------------------------- MODULE KernMC -------------------------------
(***************************************************************************)
(* Design check of the kern writers' core (KernFeatureWriter.getKerningPairs*)
(* + sorted emission + feaLib/OpenType first-match application) against    *)
(* the UFO kerning semantics, for EVERY kerning dictionary with up to      *)
(* MaxEntries entries over glyph and group keys, every assignment of the   *)
(* glyphs to at most one kern1 and one kern2 group, values incl. zero and  *)
(* ties, a missing glyph, and quantisation.                                *)
(*   pruned pairs -> drop zero class-class -> quantise -> sort by kind      *)
(*   (glyph-glyph < glyph-class < class-glyph < class-class) -> a glyph     *)
(*   pair takes the value of the first statement that covers it.           *)
(* (Single-script scope; the script / direction split is specified in      *)
(* KernSplit below and checked against the same reference.)                *)
(***************************************************************************)
EXTENDS UfoKerning, SequencesExt, TLC

CONSTANTS MaxEntries, Q, GroupNames

Glyph == {0, 1, 2}            \* exported glyph ids
Missing == 9                  \* a glyph id that is not exported
Values == {-10, 0, 10, 50}    \* quarter units: -2.5, 0, 2.5 (tie), 12.5 (tie for q = 5)

VARIABLES pc, g1, g2, kern
vars == <<pc, g1, g2, kern>>

\* group assignment: glyph -> "none" | group name, per side; group "y" also lists a missing glyph
Groups(f1, f2) ==
  LET mk(f, side) == {[name |-> n, side |-> side, members |-> SetToSeq({g \in Glyph : f[g] = n} \cup (IF n = "y" THEN {Missing} ELSE {}))] : n \in GroupNames}
  IN SetToSeq(mk(f1, 1) \cup mk(f2, 2))
\* keys are numbered so that a dictionary is generated once (entries in increasing key order)
KeyList == [k \in 1..4 |-> [g |-> IF k = 4 THEN Missing ELSE k - 1]] \o SetToSeq({[c |-> n] : n \in GroupNames})
NK == Len(KeyList)
Code(e) == (CHOOSE k \in 1..NK : KeyList[k] = e.l) * NK + (CHOOSE k \in 1..NK : KeyList[k] = e.r)

Init == pc = 0 /\ g1 = [g \in Glyph |-> "none"] /\ g2 = [g \in Glyph |-> "none"] /\ kern = <<>>
PickG1 == pc = 0 /\ g1' \in [Glyph -> GroupNames \cup {"none"}] /\ pc' = 1 /\ UNCHANGED <<g2, kern>>
PickG2 == pc = 1 /\ g2' \in [Glyph -> GroupNames \cup {"none"}] /\ pc' = 2 /\ UNCHANGED <<g1, kern>>
AddEntry == /\ pc = 2 /\ Len(kern) < MaxEntries
            /\ \E l \in 1..NK, r \in 1..NK, v \in Values :
                  LET e == [l |-> KeyList[l], r |-> KeyList[r], v |-> v] IN
                  /\ (Len(kern) > 0 => Code(kern[Len(kern)]) < Code(e))      \* a dictionary: unique keys, canonical order
                  /\ kern' = Append(kern, e)
            /\ UNCHANGED <<pc, g1, g2>>
Finish == pc = 2 /\ pc' = 3 /\ UNCHANGED <<g1, g2, kern>>
Next == PickG1 \/ PickG2 \/ AddEntry \/ Finish
Spec == Init /\ [][Next]_vars

GS == Groups(g1, g2)

\* ---- the writer ------------------------------------------------------------------------------
Side(k, side) == KeyGlyphs(GS, k, side, Glyph)
Pairs ==   \* getKerningPairs: prune, drop zero class-class, quantise
  {[s1 |-> Side(kern[k].l, 1), s2 |-> Side(kern[k].r, 2), c1 |-> ~IsGlyphKey(kern[k].l), c2 |-> ~IsGlyphKey(kern[k].r),
    v |-> Quant(kern[k].v, Q)] : k \in {k \in 1..Len(kern) :
        /\ Side(kern[k].l, 1) # {} /\ Side(kern[k].r, 2) # {}
        /\ ~(~IsGlyphKey(kern[k].l) /\ ~IsGlyphKey(kern[k].r) /\ kern[k].v = 0)}}
Kind(p) == (IF p.c1 THEN 2 ELSE 0) + (IF p.c2 THEN 1 ELSE 0)
Covers(p, a, b) == a \in p.s1 /\ b \in p.s2
\* first statement in sorted order that covers the pair decides (disjoint groups: at most one per kind)
Applied(a, b) ==
  LET cov == {p \in Pairs : Covers(p, a, b)} IN
  IF cov = {} THEN 0
  ELSE LET best == CHOOSE p \in cov : \A o \in cov : Kind(p) <= Kind(o) IN best.v

Reference(a, b) == Quant(Lookup(kern, GS, Glyph, a, b), Q)

C05_Core == pc = 3 => \A a, b \in Glyph : Applied(a, b) = Reference(a, b)
\* at most one covering statement per kind (so "first" is well defined): holds because groups are disjoint
OnePerKind == pc = 3 => \A a, b \in Glyph : \A p, o \in Pairs : (Covers(p, a, b) /\ Covers(o, a, b) /\ Kind(p) = Kind(o)) => p.v = o.v
=============================================================================
