---------------------------- MODULE PurityTrace ----------------------------
(***************************************************************************)
(* Trace acceptor for call histories (C07, C08).  One NDJSON record = one  *)
(* call of a compile function:                                             *)
(*   tid, group (source identity), fn, optsKey, content ("pristine" or a   *)
(*   digest of what earlier calls changed), inplace, raised, outSha,       *)
(*   events = << [ev, srcSame, name] >> (one per hook, in order),          *)
(*   comp   = declared option fields of the compiler object.               *)
(* Records of one group are consecutive; the memo of Purity.tla is rebuilt *)
(* while the calls of a group are consumed, whatever process, hash seed,   *)
(* UFO library or history they come from.                                  *)
(***************************************************************************)
EXTENDS Integers, Sequences, FiniteSets, Json, IOUtils, TLC, TLCExt

Traces == ndJsonDeserialize(IOEnv.TRACE_FILE)
VARIABLES i, grp, memo
vars == <<i, grp, memo>>
Has(r, f) == f \in DOMAIN r

Key(t) == t.fn \o "|" \o t.optsKey \o "|" \o t.content

FirstBadEvent(t) ==
  LET bad == {k \in 1..Len(t.events) : ~t.events[k].srcSame}
  IN IF bad = {} THEN 0 ELSE CHOOSE k \in bad : \A j \in bad : k <= j

VarFns == {"compileVariableTTF", "compileVariableTTFs", "compileVariableCFF2", "compileVariableCFF2s"}
CompEvents(t, name) == {k \in 1..Len(t.events) : t.events[k].ev = name /\ Has(t.events[k], "comp")}

Clauses(t, m) ==
  << <<"source-untouched", "P", t.inplace \/ FirstBadEvent(t) = 0>>,
     <<"pure-function",    "P", (t.raised = "" /\ Key(t) \in DOMAIN m) => m[Key(t)] = t.outSha>>,
     <<"same-exception",   "P", (t.raised # "" /\ Key(t) \in DOMAIN m) => m[Key(t)] = "raised:" \o t.raised>>,
     <<"options-restored", "P", \A k \in CompEvents(t, "OptsRestored") :
                                   /\ t.events[k].comp.useProductionNames = t.comp.useProductionNames
                                   /\ t.events[k].comp.postProcessorClass = t.comp.postProcessorClass
                                   /\ t.events[k].comp.skipFeatureCompilation = t.comp.skipFeatureCompilation
                                   /\ t.events[k].comp.ftConfig = t.comp.ftConfig>>,
     <<"masters-not-postprocessed", "M", \A k \in CompEvents(t, "OptsSaved") :
                                   /\ t.events[k].comp.useProductionNames = "False"
                                   /\ t.events[k].comp.postProcessorClass = "None">>,
     <<"restore-follows-save", "M", (t.fn \in VarFns /\ t.raised = "") =>
                                   Cardinality(CompEvents(t, "OptsSaved")) = Cardinality(CompEvents(t, "OptsRestored"))>> >>

FirstFailing(cl, kind) ==
  LET bad == {k \in 1..Len(cl) : cl[k][2] = kind /\ ~cl[k][3]}
  IN IF bad = {} THEN "none" ELSE cl[CHOOSE k \in bad : \A j \in bad : k <= j][1]

Init == i = 1 /\ grp = "" /\ memo = <<>>
Next ==
  /\ i <= Len(Traces)
  /\ LET t == Traces[i]
         m == IF t.group = grp THEN memo ELSE <<>>
         cl == Clauses(t, m)
         out == IF t.raised = "" THEN t.outSha ELSE "raised:" \o t.raised
         stage == IF FirstBadEvent(t) = 0 THEN "none"
                  ELSE t.events[FirstBadEvent(t)].ev \o ":" \o t.events[FirstBadEvent(t)].name
     IN /\ PrintT(<<"VERDICT", t.tid, FirstFailing(cl, "P"), FirstFailing(cl, "M"), stage>>)
        /\ memo' = IF Key(t) \in DOMAIN m THEN m
                   ELSE [k \in DOMAIN m \cup {Key(t)} |-> IF k = Key(t) THEN out ELSE m[k]]
        /\ grp' = t.group
  /\ i' = i + 1
Spec == Init /\ [][Next]_vars
=============================================================================
