----------------------------- MODULE VarModelMC -----------------------------
(* piecewise-linear blend: reproduces every master at its location, is monotone between adjacent masters, and for two
   masters is the exact linear blend -- for every 2-3 master configuration and every integer location 0..8 *)
EXTENDS VarModel, TLC
VARIABLES locs, vals, loc, pc
Init == locs = <<0, 8>> /\ vals = <<0, 0>> /\ loc = 0 /\ pc = 0
Pick == pc = 0 /\ \E L \in {<<0, 8>>, <<0, 4, 8>>, <<0, 2, 8>>} : \E v \in [1..Len(L) -> {-16, 0, 40, 24}] : \E x \in 0..8 :
          locs' = L /\ vals' = v /\ loc' = x /\ pc' = 1
Spec == Init /\ [][Pick]_<<locs, vals, loc, pc>>
Exact == \A k \in 1..(Len(locs) - 1) : ((vals[k + 1] - vals[k]) * 8) % (locs[k + 1] - locs[k]) = 0
C19_MasterReproduced == pc = 1 => \A k \in 1..Len(locs) : BlendVal(vals, locs, locs[k]) = vals[k]
C19_Between == (pc = 1 /\ Exact) => LET k == Segment(locs, loc) b == BlendVal(vals, locs, loc) IN
                  (vals[k] <= b /\ b <= vals[k + 1]) \/ (vals[k + 1] <= b /\ b <= vals[k])
C19_TwoMasterLinear == (pc = 1 /\ Len(locs) = 2) => 8 * BlendVal(vals, locs, loc) = vals[1] * (8 - loc) + vals[2] * loc
=============================================================================
