----------------------------- MODULE FontTrace -----------------------------
(***************************************************************************)
(* Trace acceptor for whole-font observations (properties C03 and C04):    *)
(* one NDJSON record = one compile (source description + projection of the *)
(* saved-and-reloaded font).  The clauses are the operators of             *)
(* OrderCmap.tla and Metrics.tla evaluated on the observed tables.         *)
(***************************************************************************)
EXTENDS OrderCmap, Metrics, Json, IOUtils, TLC, TLCExt

Traces == ndJsonDeserialize(IOEnv.TRACE_FILE)
VARIABLE i
SetOf(seq) == {seq[k] : k \in 1..Len(seq)}
Has(r, f) == f \in DOMAIN r
OtRound(n, d) == (2*n + d) \div (2*d)
PS == 1024

Names(t) == SetOf(t.names) \cup {".notdef"}
Uni(t) == [n \in Names(t) |-> IF n \in DOMAIN t.unicodes THEN t.unicodes[n] ELSE <<>>]
Ord(t) == t.ret.order
AdvSeq(t) == [k \in 1..Len(Ord(t)) |-> t.ret.adv[Ord(t)[k]]]
BoxSeq(t) == [k \in 1..Len(Ord(t)) |-> t.ret.box[Ord(t)[k]]]
HgtSeq(t) == [k \in 1..Len(Ord(t)) |-> t.ret.vadv[Ord(t)[k]]]
TsbSeq(t) == [k \in 1..Len(Ord(t)) |-> t.ret.tsb[Ord(t)[k]]]
VorgDecode(t, n) == IF \E k \in 1..Len(t.ret.vorg.records) : t.ret.vorg.records[k][1] = n
                    THEN t.ret.vorg.records[CHOOSE k \in 1..Len(t.ret.vorg.records) : t.ret.vorg.records[k][1] = n][2]
                    ELSE t.ret.vorg.default
AllCodes(t) == UNION {{t.ret.cmaps[k].map[j][1] : j \in 1..Len(t.ret.cmaps[k].map)} :
                        k \in {k \in 1..Len(t.ret.cmaps) : t.ret.cmaps[k].fmt \in {4, 12}}}

Clauses(t) ==
  IF Has(t.ret, "err") THEN
    << <<"rejects-duplicate-codepoint", "P", (t.ret.err = "InvalidFontData") <=> Conflict(Uni(t), Names(t))>>,
       <<"compiles", "P", t.ret.err = "InvalidFontData">> >>
  ELSE
  LET names == Names(t) IN
  << <<"rejects-duplicate-codepoint", "P", ~Conflict(Uni(t), names)>>,
     <<"order",          "P", OrderOK(Ord(t), names, t.req, t.cps)>>,
     <<"order-model",    "M", Ord(t) = MakeOrder(names, t.req, t.cps)>>,
     <<"numGlyphs",      "P", t.ret.maxp.numGlyphs = Len(Ord(t))>>,
     \* the stored glyph data of a 'CFF ' table declares every advance itself: it is the metrics table's
     <<"cff-width-equals-advance", "P", Has(t.ret, "cffAdv") => \A n \in DOMAIN t.ret.cffAdv : t.ret.cffAdv[n] = t.ret.adv[n]>>,
     \* every glyph-derived maxp count equals the same count taken over the stored glyf data (points, contours, composite
     \* points / contours, component elements / depth, largest glyph program)
     <<"maxp-matches-glyph-data", "P", Has(t.ret, "maxpTable") => t.ret.maxpTable = t.ret.maxpStored>>,
     \* glyph programs given in the source (with the hash of the compiled glyph) are stored, byte for byte in length
     <<"glyph-programs-stored", "P", Has(t.ret, "programs") =>
                                       \A n \in DOMAIN t.ret.programs : t.ret.programs[n] = t.ttInstr[n]>>,
     <<"cmap",           "P", CmapOK(t.ret.cmaps, Uni(t), names)>>,
     <<"uvs",            "P", UvsOK(t.uvs, t.ret.uvs, Uni(t), names)>>,
     <<"name-list",      "P", t.ret.nameList = Ord(t)>>,
     <<"advance",        "P", \A n \in SetOf(t.names) : t.ret.adv[n] = OtRound(t.srcAdv[n], PS)>>,
     <<"lsb",            "P", \A k \in 1..Len(Ord(t)) : t.ret.lsb[Ord(t)[k]] = Lsb(BoxSeq(t), k)>>,
     <<"stored-box",     "P", \A n \in DOMAIN t.ret.hdrbox : t.ret.hdrbox[n] = t.ret.box[n]>>,
     <<"hhea",           "P", HheaOK(t.ret.hhea, AdvSeq(t), BoxSeq(t))>>,
     <<"font-box",       "P", FontBoxOK(t.ret.head, BoxSeq(t))>>,
     <<"vertical-tables", "P", t.vertical <=> Has(t.ret, "vhea")>>,
     <<"vmtx",           "P", Has(t.ret, "vhea") =>
                                 /\ \A n \in SetOf(t.names) : t.ret.vadv[n] = OtRound(t.srcHgt[n], PS)
                                 /\ \A k \in 1..Len(Ord(t)) :
                                       LET n == Ord(t)[k]  b == t.ret.box[n]
                                       IN t.ret.tsb[n] = t.ret.vo[n] - (IF HasBox(b) THEN b[4] ELSE 0)>>,
     <<"vhea",           "P", Has(t.ret, "vhea") => VheaOK(t.ret.vhea, HgtSeq(t), TsbSeq(t), BoxSeq(t))>>,
     <<"vorg-decodes",   "P", Has(t.ret, "vorg") => \A n \in SetOf(Ord(t)) : VorgDecode(t, n) = t.ret.vo[n]>>,
     <<"returned-font-fields-equal-saved", "P", (Has(t.ret, "mem") /\ ~Has(t.ret.mem, "err")) =>
                                 /\ t.ret.mem.os2 = <<t.ret.os2.first, t.ret.os2.last>>
                                 /\ t.ret.mem.hhea = <<t.ret.hhea.advanceWidthMax, t.ret.hhea.minLeftSideBearing, t.ret.hhea.minRightSideBearing,
                                                       t.ret.hhea.xMaxExtent, t.ret.hhea.numberOfHMetrics>>
                                 /\ t.ret.mem.head = <<t.ret.head.xMin, t.ret.head.yMin, t.ret.head.xMax, t.ret.head.yMax>>
                                 /\ t.ret.mem.numGlyphs = t.ret.maxp.numGlyphs>>,
     <<"os2-char-range", "P", AllCodes(t) # {} =>
                                 /\ t.ret.os2.first = Min({Min(AllCodes(t)), 65535})
                                 /\ t.ret.os2.last = Min({Max(AllCodes(t)), 65535})>>,
     <<"resave-identical", "P", t.ret.resaveEqual>> >>

FirstFailing(cl, kind) ==
  LET bad == {k \in 1..Len(cl) : cl[k][2] = kind /\ ~cl[k][3]}
  IN IF bad = {} THEN "none" ELSE cl[Min(bad)][1]
Init == i = 1
Next == /\ i <= Len(Traces)
        /\ LET t == Traces[i]  cl == Clauses(t)
           IN PrintT(<<"VERDICT", t.tid, FirstFailing(cl, "P"), FirstFailing(cl, "M")>>)
        /\ i' = i + 1
Spec == Init /\ [][Next]_i
=============================================================================
