------------------------------ MODULE VFSplit ------------------------------
(***************************************************************************)
(* Which sources a designspace-v5 build compiles, and together with which  *)
(* others: BaseInterpolatableCompiler._compileNeededSources                *)
(* (_compilers/baseCompiler.py).                                           *)
(*                                                                         *)
(* A document D has masters [name, disc, pos] (disc: value on a discrete   *)
(* axis = interpolable sub-space, pos: position on the one continuous      *)
(* axis) and variable fonts [name, disc, lo, hi, dflt] (a range of the     *)
(* continuous axis inside one sub-space, with its own default position);   *)
(* req = names of the variable fonts asked for.                            *)
(*                                                                         *)
(* Functional statement (what the build has to achieve):                   *)
(*   Needed  = sources of the requested variable fonts                     *)
(*   Group(d) = ALL needed sources of sub-space d, compiled in ONE call,   *)
(*             so that every joint decision (which composites become       *)
(*             contours, spline lengths) is the same for every variable    *)
(*             font that shares a master                                   *)
(*   Base(v) = the master at v's OWN default position (its info feeds the  *)
(*             variable font's name / OS/2 / hhea tables)                  *)
(* The step-wise algorithm below mirrors the code's two loops; TLC checks  *)
(* it against the functional statement for every small document.  Two      *)
(* switches reproduce designs that look equivalent and are not:            *)
(*   PerVF        -- compile once per variable font (last result wins)     *)
(*   HoistDefault -- look the default source up once per sub-space         *)
(***************************************************************************)
EXTENDS Integers, Sequences, FiniteSets, FiniteSetsExt, SequencesExt, TLC

Rng(s) == {s[k] : k \in 1..Len(s)}
\* ---- functional statement ---------------------------------------------------------------------------------
Requested(D) == {k \in 1..Len(D.vfs) : D.vfs[k].name \in D.req}
SourcesOf(D, v) == {m \in 1..Len(D.masters) : D.masters[m].disc = v.disc /\ v.lo <= D.masters[m].pos /\ D.masters[m].pos <= v.hi}
DefaultOf(D, v) == {m \in SourcesOf(D, v) : D.masters[m].pos = v.dflt}
HasDefault(D, v) == DefaultOf(D, v) # {}
NoDefault(D) == \E k \in Requested(D) : ~HasDefault(D, D.vfs[k])
Needed(D) == UNION {SourcesOf(D, D.vfs[k]) : k \in Requested(D)}
SubSpaces(D) == {D.masters[m].disc : m \in 1..Len(D.masters)}
Group(D, d) == {m \in Needed(D) : D.masters[m].disc = d}
\* A limitation of the code that trace validation of this model brought out (first version of the model: DRIFT on a document
\* whose only variable font spans positions 1..2): the sources of a sub-space are compiled as a designspace of their own,
\* restricted to the needed ones, and the glyph instantiator built for it insists on a source at the DOCUMENT's default
\* position (0) -- so a build whose requested variable fonts all leave out that position raises InstantiatorError although
\* every one of them has its own default master.
GroupLacksDocDefault(D) == \E d \in SubSpaces(D) : Group(D, d) # {} /\ ~\E m \in Group(D, d) : D.masters[m].pos = 0
Fails(D) == NoDefault(D) \/ GroupLacksDocDefault(D)
Groups(D) == {Group(D, d) : d \in SubSpaces(D)} \ {{}}
Base(D, v) == CHOOSE m \in DefaultOf(D, v) : TRUE
\* the default source of a whole sub-space: the master at the DOCUMENT's default position (0)
SubDefault(D, d) == {m \in 1..Len(D.masters) : D.masters[m].disc = d /\ D.masters[m].pos = 0}

\* ---- the algorithm, step by step ------------------------------------------------------------------------------
CONSTANTS PerVF, HoistDefault, Discs, Positions, MaxVFs
VARIABLES Doc, pc, vi, needed, base, calls, last, failed
vars == <<Doc, pc, vi, needed, base, calls, last, failed>>
\* calls: sequence of source sets, one per compile_designspace call; last[m]: index of the call whose result master m carries

VFOrder(doc) == \* splitInterpolable yields the sub-spaces in order, splitVariableFonts the variable fonts of each
  LET ds == SetToSortSeq(Discs, <)          \* (every value of the discrete axis, whether or not a master sits there)
      of(d) == SelectSeq([k \in 1..Len(doc.vfs) |-> k], LAMBDA k : doc.vfs[k].disc = d)
  IN FoldLeft(LAMBDA acc, d : acc \o of(d), <<>>, ds)

GatherStep ==
  /\ pc = "gather" /\ vi <= Len(VFOrder(Doc))
  /\ LET k == VFOrder(Doc)[vi]  v == Doc.vfs[k] IN
     IF v.name \notin Doc.req THEN UNCHANGED <<needed, base, failed>>
     ELSE LET dflt == IF HoistDefault THEN SubDefault(Doc, v.disc) ELSE DefaultOf(Doc, v) IN
          IF dflt = {} THEN failed' = TRUE /\ UNCHANGED <<needed, base>>
          ELSE /\ base' = [base EXCEPT ![k] = CHOOSE m \in dflt : TRUE]
               /\ needed' = needed \cup SourcesOf(Doc, v)
               /\ UNCHANGED failed
  /\ vi' = vi + 1 /\ UNCHANGED <<Doc, pc, calls, last>>
GatherDone ==
  /\ pc = "gather" /\ vi > Len(VFOrder(Doc))
  /\ pc' = (IF failed THEN "raised" ELSE "compile") /\ vi' = 1
  /\ UNCHANGED <<Doc, needed, base, calls, last, failed>>
\* units to compile: one per sub-space (the code) or one per requested variable font (PerVF)
Units == IF PerVF THEN SelectSeq(VFOrder(Doc), LAMBDA k : Doc.vfs[k].name \in Doc.req)
         ELSE SetToSortSeq(SubSpaces(Doc), <)
UnitSources(u) == IF PerVF THEN SourcesOf(Doc, Doc.vfs[u]) ELSE {m \in needed : Doc.masters[m].disc = u}
CompileStep ==
  /\ pc = "compile" /\ vi <= Len(Units)
  /\ LET S == UnitSources(Units[vi]) IN
     IF S = {} THEN UNCHANGED <<calls, last, pc>>
     ELSE IF ~\E m \in S : Doc.masters[m].pos = 0
          THEN pc' = "raised" /\ UNCHANGED <<calls, last>>        \* (the instantiator of this compile finds no default source)
          ELSE /\ calls' = Append(calls, S)
               /\ last' = [m \in 1..Len(Doc.masters) |-> IF m \in S THEN Len(calls) + 1 ELSE last[m]]
               /\ UNCHANGED pc
  /\ vi' = vi + 1 /\ UNCHANGED <<Doc, needed, base, failed>>
CompileDone ==
  /\ pc = "compile" /\ vi > Len(Units) /\ pc' = "done" /\ UNCHANGED <<Doc, vi, needed, base, calls, last, failed>>

\* ---- every small document ---------------------------------------------------------------------------------------
MasterSets == SUBSET (Discs \X Positions)
VFChoices == {v \in [disc : Discs, lo : Positions, hi : Positions, dflt : Positions] : v.lo <= v.dflt /\ v.dflt <= v.hi}
Init ==
  /\ pc = "pick" /\ vi = 1 /\ needed = {} /\ calls = <<>> /\ failed = FALSE
  /\ Doc = [masters |-> <<>>, vfs |-> <<>>, req |-> {}] /\ base = <<>> /\ last = <<>>
PickMasters ==
  /\ pc = "pick" /\ Doc.masters = <<>>
  /\ \E M \in MasterSets \ {{}} :
        Doc' = [Doc EXCEPT !.masters = LET s == SetToSortSeq(M, LAMBDA a, b : a[1] < b[1] \/ (a[1] = b[1] /\ a[2] < b[2]))
                                   IN [k \in 1..Len(s) |-> [name |-> k, disc |-> s[k][1], pos |-> s[k][2]]]]
  /\ UNCHANGED <<pc, vi, needed, base, calls, last, failed>>
AddVF ==
  /\ pc = "pick" /\ Doc.masters # <<>> /\ Len(Doc.vfs) < MaxVFs
  /\ \E v \in VFChoices : Doc' = [Doc EXCEPT !.vfs = Append(@, [name |-> Len(Doc.vfs) + 1, disc |-> v.disc, lo |-> v.lo, hi |-> v.hi, dflt |-> v.dflt])]
  /\ UNCHANGED <<pc, vi, needed, base, calls, last, failed>>
Start ==
  /\ pc = "pick" /\ Doc.masters # <<>> /\ Doc.vfs # <<>>
  /\ \E R \in (SUBSET (1..Len(Doc.vfs))) \ {{}} : Doc' = [Doc EXCEPT !.req = R]
  /\ pc' = "gather" /\ vi' = 1
  /\ base' = [k \in 1..Len(Doc.vfs) |-> 0] /\ last' = [m \in 1..Len(Doc.masters) |-> 0]
  /\ UNCHANGED <<needed, calls, failed>>
Next == PickMasters \/ AddVF \/ Start \/ GatherStep \/ GatherDone \/ CompileStep \/ CompileDone
Spec == Init /\ [][Next]_vars

\* ---- what TLC certifies -------------------------------------------------------------------------------------------------
Done == pc = "done"
RaisesIffNoDefault == (pc = "raised" => Fails(Doc)) /\ (Done => ~Fails(Doc))
NeededIsUnion == Done => needed = Needed(Doc)
\* only needed sources are compiled, each exactly once
CompiledOnce == Done => \A m \in 1..Len(Doc.masters) :
                  Cardinality({c \in 1..Len(calls) : m \in calls[c]}) = (IF m \in Needed(Doc) THEN 1 ELSE 0)
\* the joint-decision requirement: the result every master carries comes from a call that held ALL needed sources of its
\* sub-space -- hence any two variable fonts that share a master see the same decisions
JointDecisions == Done => \A m \in Needed(Doc) : last[m] # 0 /\ calls[last[m]] = Group(Doc, Doc.masters[m].disc)
CallsAreGroups == Done => Rng(calls) = Groups(Doc)
\* each variable font takes its info from the master at its own default
BaseIsOwnDefault == Done => \A k \in Requested(Doc) : HasDefault(Doc, Doc.vfs[k]) /\ base[k] = Base(Doc, Doc.vfs[k])
=============================================================================
