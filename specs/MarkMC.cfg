SPECIFICATION Spec
INVARIANT C06_Design
INVARIANT C06_SpecificWins
CHECK_DEADLOCK FALSE
