SPECIFICATION Spec
CONSTANT MaxReq = 3
INVARIANT C03_Order
INVARIANT C03_Cmap
CHECK_DEADLOCK FALSE
