------------------------------- MODULE Purity -------------------------------
(***************************************************************************)
(* Top-level call protocol of the compile functions, as a history machine: *)
(*  - src    : content of the caller-owned sources (abstract version id)   *)
(*  - comp   : mutable option fields of the compiler object                *)
(*  - memo   : (function, options, content-before) |-> output digest       *)
(* Every stage of a call leaves src unchanged unless inplace was requested *)
(* (C07); the output is a function of (function, options \ inplace,        *)
(* content-before) only -- not of the environment env (hash seed, UFO      *)
(* library, memory/disk) nor of earlier calls (C08); compile_variable      *)
(* saves three option fields, overrides them while compiling the masters   *)
(* and restores them in a finally clause, also when a stage raises.        *)
(* Known deviations of the implementation are separate, named actions.     *)
(***************************************************************************)
EXTENDS Integers, Sequences, FiniteSets, TLC

CONSTANTS Fns, Envs, MaxCalls, WithKnown

VarFns == {"compileVariableTTF", "compileVariableCFF2"}

VARIABLES pc, src, comp, saved, cur, hist, memo, deviated
vars == <<pc, src, comp, saved, cur, hist, memo, deviated>>

DefaultComp == [useProductionNames |-> "None", postProcessorClass |-> "PostProcessor", skipFeatureCompilation |-> FALSE]
\* the compile result as an uninterpreted function of what it may depend on
Out(f, content) == <<f, content>>

Init == /\ pc = "idle" /\ src = 0 /\ comp = DefaultComp /\ saved = DefaultComp
        /\ cur = [f |-> "none", inplace |-> FALSE, env |-> "none", before |-> 0, fails |-> FALSE]
        /\ hist = <<>> /\ memo = <<>> /\ deviated = FALSE

Call == /\ pc = "idle" /\ Len(hist) < MaxCalls
        /\ \E f \in Fns, ip \in BOOLEAN, e \in Envs, fails \in BOOLEAN :
              cur' = [f |-> f, inplace |-> ip, env |-> e, before |-> src, fails |-> fails]
        /\ comp' = DefaultComp          \* the public functions build a fresh compiler object per call
        /\ pc' = IF cur'.f \in VarFns THEN "save" ELSE "preprocess"
        /\ deviated' = FALSE
        /\ UNCHANGED <<src, saved, hist, memo>>

\* compile_variable._compileNeededSources
SaveOpts == /\ pc = "save" /\ saved' = comp
            /\ comp' = [comp EXCEPT !.useProductionNames = "False", !.postProcessorClass = "None"]
            /\ pc' = "preprocess" /\ UNCHANGED <<src, cur, hist, memo, deviated>>

\* filters: copy-on-entry unless inplace; with inplace the sources are rewritten
Preprocess == /\ pc = "preprocess"
              /\ src' = IF cur.inplace THEN src + 1 ELSE src
              /\ pc' = "outlines" /\ UNCHANGED <<comp, saved, cur, hist, memo, deviated>>
\* known deviations (F-C07-1 MATH constants pop, F-C07-2 colour layers): the source changes without inplace
KnownDeviation == /\ WithKnown /\ pc = "outlines" /\ ~cur.inplace /\ ~deviated
                  /\ src' = src + 1 /\ deviated' = TRUE
                  /\ UNCHANGED <<pc, comp, saved, cur, hist, memo>>
Outlines == /\ pc = "outlines" /\ pc' = "features" /\ UNCHANGED <<src, comp, saved, cur, hist, memo, deviated>>
Features == /\ pc = "features"
            /\ pc' = IF cur.fails THEN "raise" ELSE (IF cur.f \in VarFns THEN "restore" ELSE "post")
            /\ UNCHANGED <<src, comp, saved, cur, hist, memo, deviated>>
\* finally: of _compileNeededSources -- runs on the normal and on the exceptional path
RestoreOpts == /\ pc = "restore" /\ comp' = saved /\ pc' = "merge" /\ UNCHANGED <<src, saved, cur, hist, memo, deviated>>
Merge == /\ pc = "merge" /\ pc' = "post" /\ UNCHANGED <<src, comp, saved, cur, hist, memo, deviated>>
Post == /\ pc = "post" /\ pc' = "return" /\ UNCHANGED <<src, comp, saved, cur, hist, memo, deviated>>
Raise == /\ pc = "raise"
         /\ comp' = IF cur.f \in VarFns THEN saved ELSE comp
         /\ hist' = Append(hist, [f |-> cur.f, out |-> "raised", env |-> cur.env])
         /\ pc' = "idle" /\ UNCHANGED <<src, saved, cur, memo, deviated>>
Return == /\ pc = "return"
          /\ LET key == <<cur.f, cur.before>>  out == Out(cur.f, cur.before) IN
             /\ hist' = Append(hist, [f |-> cur.f, out |-> out, env |-> cur.env])
             /\ memo' = [k \in DOMAIN memo \cup {key} |-> IF k = key THEN out ELSE memo[k]]
          /\ pc' = "idle" /\ UNCHANGED <<src, comp, saved, cur, deviated>>

Next == Call \/ SaveOpts \/ Preprocess \/ KnownDeviation \/ Outlines \/ Features \/ RestoreOpts \/ Merge \/ Post \/ Raise \/ Return
Spec == Init /\ [][Next]_vars

\* C07 as an action property: no step of a call without inplace changes the sources
C07_SourcesUntouched == [][(~cur.inplace /\ pc # "idle") => (src' = src \/ (deviated' /\ ~deviated))]_vars
\* C08: functional dependence -- a key never gets two different outputs, whatever the environment or history
C08_Pure == pc = "return" => LET key == <<cur.f, cur.before>> IN (key \in DOMAIN memo => memo[key] = Out(cur.f, cur.before))
\* compiler object restored at the end of every call, also when it raised
C08_OptsRestored == pc = "idle" => comp = DefaultComp
\* while the masters of a variable font are compiled, production names and post-processing are off
MastersNotPostprocessed == (pc \in {"preprocess", "outlines", "features"} /\ cur.f \in VarFns)
                              => (comp.useProductionNames = "False" /\ comp.postProcessorClass = "None")
=============================================================================
