----------------------------- MODULE CffOptions -----------------------------
(***************************************************************************)
(* Option handling of the CFF path (OTFCompiler -> OutlineOTFCompiler ->   *)
(* PostProcessor.process_cff).  The drawn content `ops` (what C01 pins to  *)
(* the source) is carried through every stage; the stages only change the  *)
(* ENCODING attributes (specialised, subroutinised, table version).        *)
(* Property C12: for every supported option combination the drawn content, *)
(* the advances and the layout tables at the end equal those of the        *)
(* unoptimised CFF 1 compile; unsupported combinations raise               *)
(* NotImplementedError and nothing else does.                              *)
(***************************************************************************)
EXTENDS Integers, Sequences, FiniteSets

Opt  == {0, 1, 2}                      \* CFFOptimization NONE / SPECIALIZE / SUBROUTINIZE
Subr == {"default", "cffsubr", "compreffor"}
Ver  == {1, 2}

VARIABLES pc, opts, cff, err
vars == <<pc, opts, cff, err>>

\* cff = [ops: abstract drawn content id, adv, layout, ver, specialised, subr]
Content == [ops |-> "ops0", adv |-> "adv0", layout |-> "lay0"]

Supported(o) == ~(o.opt = 2 /\ o.subr = "compreffor" /\ o.ver = 2)

Init == pc = "call" /\ opts = [opt |-> 0, subr |-> "default", ver |-> 1] /\ err = "none"
        /\ cff = [ops |-> "none", adv |-> "none", layout |-> "none", ver |-> 0, specialised |-> FALSE, subr |-> "none"]

Call == /\ pc = "call"
        /\ \E o \in Opt, s \in Subr, v \in Ver : opts' = [opt |-> o, subr |-> s, ver |-> v]
        /\ pc' = "outlines" /\ UNCHANGED <<cff, err>>

\* OutlineOTFCompiler: always a CFF 1 table; charstrings specialised iff optimizeCFF >= SPECIALIZE
Outlines == /\ pc = "outlines"
            /\ cff' = [ops |-> Content.ops, adv |-> Content.adv, layout |-> Content.layout, ver |-> 1,
                       specialised |-> opts.opt >= 1, subr |-> "none"]
            /\ pc' = "features" /\ UNCHANGED <<opts, err>>
Features == pc = "features" /\ pc' = "postcff" /\ UNCHANGED <<opts, cff, err>>

\* PostProcessor.process_cff
Backend == IF opts.subr = "default" THEN "cffsubr" ELSE opts.subr
PostCFF ==
  /\ pc = "postcff"
  /\ IF opts.opt >= 2
     THEN IF Backend = "compreffor" /\ (cff.ver # 1 \/ opts.ver # 1)
          THEN err' = "NotImplementedError" /\ pc' = "raised" /\ UNCHANGED cff
          ELSE cff' = [cff EXCEPT !.subr = Backend, !.ver = opts.ver] /\ pc' = "done" /\ UNCHANGED err
     ELSE IF cff.ver # opts.ver
          THEN IF cff.ver = 1 /\ opts.ver = 2
               THEN cff' = [cff EXCEPT !.ver = 2] /\ pc' = "done" /\ UNCHANGED err       \* convertCFFToCFF2
               ELSE err' = "NotImplementedError" /\ pc' = "raised" /\ UNCHANGED cff
          ELSE pc' = "done" /\ UNCHANGED <<cff, err>>
  /\ UNCHANGED opts

Next == Call \/ Outlines \/ Features \/ PostCFF
Spec == Init /\ [][Next]_vars

\* encoding stages never touch what is drawn (action property)
ContentStable == [][(pc \in {"features", "postcff"}) =>
                     (cff'.ops = cff.ops /\ cff'.adv = cff.adv /\ cff'.layout = cff.layout)]_vars

C12_SameDrawing == pc = "done" => (cff.ops = Content.ops /\ cff.adv = Content.adv /\ cff.layout = Content.layout
                                   /\ cff.ver = opts.ver)
C12_RaisesIffUnsupported ==
  /\ pc = "raised" => (~Supported(opts) /\ err = "NotImplementedError")
  /\ pc = "done"   => Supported(opts)
=============================================================================
