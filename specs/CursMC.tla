------------------------------- MODULE CursMC -------------------------------
(***************************************************************************)
(* Design check of the cursive writer's lookup split: for every assignment *)
(* of {LTR glyph, other glyph} x anchor suffix {none, .LTR, .RTL} the      *)
(* RightToLeft flag of the lookup a glyph's record lands in is cleared     *)
(* exactly for LTR glyphs unless the suffix decides.                       *)
(***************************************************************************)
EXTENDS Integers, FiniteSets, TLC
Glyphs == {"l1", "l2", "r1", "n1"}              \* two LTR-script glyphs, one RTL-script glyph, one unencoded
IsLTR(g) == g \in {"l1", "l2"}
Suffix == {"none", "LTR", "RTL"}
VARIABLES pc, has, lookups
vars == <<pc, has, lookups>>
Init == pc = 0 /\ has = [g \in Glyphs |-> {}] /\ lookups = {}
Pick == pc = 0 /\ has' \in [Glyphs -> SUBSET Suffix] /\ pc' = 1 /\ UNCHANGED lookups
\* _makeCursiveFeature: shouldSplit iff the cmap has an LTR code point (here: an LTR glyph exists in the font)
ShouldSplit == TRUE
Write == /\ pc = 1
         /\ lookups' = UNION {
              IF s = "none" /\ ShouldSplit
              THEN {[suffix |-> s, rtl |-> 0, glyphs |-> {g \in Glyphs : IsLTR(g) /\ s \in has[g]}],
                    [suffix |-> s, rtl |-> 1, glyphs |-> {g \in Glyphs : ~IsLTR(g) /\ s \in has[g]}]}
              ELSE {[suffix |-> s, rtl |-> IF s = "LTR" THEN 0 ELSE 1, glyphs |-> {g \in Glyphs : s \in has[g]}]}
              : s \in Suffix}
         /\ pc' = 2 /\ UNCHANGED has
Next == Pick \/ Write
Spec == Init /\ [][Next]_vars
C18_Direction == pc = 2 => \A g \in Glyphs, s \in Suffix : s \in has[g] =>
   \E lk \in lookups : /\ g \in lk.glyphs /\ lk.suffix = s
                       /\ lk.rtl = (IF s = "RTL" THEN 1 ELSE IF s = "LTR" THEN 0 ELSE IF IsLTR(g) THEN 0 ELSE 1)
C18_Once == pc = 2 => \A g \in Glyphs, s \in Suffix : Cardinality({lk \in lookups : g \in lk.glyphs /\ lk.suffix = s}) <= 1
=============================================================================
