----------------------------- MODULE MarkTrace -----------------------------
(***************************************************************************)
(* Trace acceptor for property C06: the compiled MarkBasePos / MarkLigPos /*)
(* MarkMarkPos lookups are interpreted with OTPos.tla and compared with    *)
(* the candidate offsets computed from the UFO anchors.                    *)
(* Record: tid, n, q, hasCats, glyphs[gid+1] = [cat, abvm, anchors =       *)
(*   << [key, num, isMark, x, y] >> (x, y at scale 4)], tags, F.           *)
(***************************************************************************)
EXTENDS OTPos, MarkWriter, Json, IOUtils, TLC, TLCExt

Traces == ndJsonDeserialize(IOEnv.TRACE_FILE)
VARIABLE i

G(t, g) == t.glyphs[g + 1]
Anch(t, g) == G(t, g).anchors
Exported(t) == 0..(t.n - 1)
QR(t, v4) == Quant(v4, t.q)          \* quantise, then round: the stored anchor coordinate

MarkAnchors(t, g) == {k \in 1..Len(Anch(t, g)) : Anch(t, g)[k].isMark}
BaseAnchors(t, g) == {k \in 1..Len(Anch(t, g)) : ~Anch(t, g)[k].isMark /\ Anch(t, g)[k].key # ""}
\* an anchor class is usable when some glyph carries the base side and some glyph the mark side
\* when glyph classes exist, glyphs without a base / ligature / mark class take no part in mark positioning
Included(t, g) == ~t.hasCats \/ G(t, g).cat \in {"base", "ligature", "mark"}
Paired(t, key) == /\ \E g \in Exported(t) : Included(t, g) /\ \E k \in BaseAnchors(t, g) : Anch(t, g)[k].key = key
                  /\ \E g \in Exported(t) : Included(t, g) /\ \E k \in MarkAnchors(t, g) : Anch(t, g)[k].key = key
CatOK(t, g, c) == ~t.hasCats \/ G(t, g).cat = c
\* the glyphs the writer treats as marks: they carry a mark anchor of a usable class (and are GDEF marks when classes exist)
IsMarkG(t, g) == CatOK(t, g, "mark") /\ \E k \in MarkAnchors(t, g) : Paired(t, Anch(t, g)[k].key)
\* known finding F-C06-1: a (GDEF) mark glyph none of whose mark anchors has a counterpart is not treated as a mark
Known_C06_1(t, g) == MarkAnchors(t, g) # {} /\ ~IsMarkG(t, g) /\ CatOK(t, g, "mark")

\* candidate offsets of mark m on anchor-bearer b for anchors of b selected by Sel(anchor)
Cands(t, b, m, Sel(_)) ==
  {<<QR(t, Anch(t, b)[p[1]].x) - QR(t, Anch(t, m)[p[2]].x), QR(t, Anch(t, b)[p[1]].y) - QR(t, Anch(t, m)[p[2]].y)>> :
      p \in {p \in BaseAnchors(t, b) \X MarkAnchors(t, m) :
                Anch(t, b)[p[1]].key = Anch(t, m)[p[2]].key /\ Sel(Anch(t, b)[p[1]])}}
MaxComp(t, b) == Max({0} \cup {Anch(t, b)[k].num : k \in 1..Len(Anch(t, b))})

HasMarkFeature(t, k, lang) == FeatureTags(t.F, t.tags[k].tag, lang) \cap MarkTags # {}
Contexts(t) == {c \in (1..Len(t.tags)) \X UNION {Languages(t.F, t.tags[k].tag) : k \in 1..Len(t.tags)} :
                   c[2] \in Languages(t.F, t.tags[c[1]].tag) /\ HasMarkFeature(t, c[1], c[2])}

\* declaratively, a mark glyph is a glyph carrying an attaching ('_x') anchor (a GDEF mark when classes exist)
IsMarkD(t, g) == CatOK(t, g, "mark") /\ MarkAnchors(t, g) # {}
\* one check item: <<context, kind, b, comp, m>>
Items(t) ==
  {x \in Contexts(t) \X {"base", "mark", "lig"} \X Exported(t) \X (0..3) \X Exported(t) :
     LET kind == x[2]  b == x[3]  comp == x[4]  m == x[5] IN
     /\ b # m /\ IsMarkD(t, m) /\ G(t, b).abvm = G(t, m).abvm
     /\ CASE kind = "base" -> comp = 0 /\ ~IsMarkD(t, b) /\ CatOK(t, b, "base")
          [] kind = "mark" -> comp = 0 /\ IsMarkD(t, b)
          [] kind = "lig"  -> comp >= 1 /\ comp <= MaxComp(t, b) /\ ~IsMarkD(t, b) /\ CatOK(t, b, "ligature")}
InKnown(t, x) == Known_C06_1(t, x[3]) \/ Known_C06_1(t, x[5])
ItemOK(t, x) ==
  LET c == x[1]  kind == x[2]  b == x[3]  comp == x[4]  m == x[5]
      obs == Attach(t.F, t.tags[c[1]].tag, c[2], kind, b, comp, m)
      cands == IF kind = "lig" THEN Cands(t, b, m, LAMBDA a : a.num = comp) ELSE Cands(t, b, m, LAMBDA a : a.num = 0)
  IN IF cands = {} THEN ~obs[1] ELSE obs[1] /\ <<obs[2], obs[3]>> \in cands
Bad(t) == {x \in Items(t) : ~ItemOK(t, x) /\ ~InKnown(t, x)}
KnownCount(t) == Cardinality({x \in Items(t) : ~ItemOK(t, x) /\ InKnown(t, x)})
NonEmpty(t) == Cardinality({x \in Items(t) : (IF x[2] = "lig" THEN Cands(t, x[3], x[5], LAMBDA a : a.num = x[4])
                                               ELSE Cands(t, x[3], x[5], LAMBDA a : a.num = 0)) # {}})

\* ---- conformance with the writer model (MarkWriter.tla): for every glyph pair outside abvm / blwm routing, in every
\* language system that exposes a mark feature, the compiled lookups attach exactly what the model's lookups attach
\* (model clause: a deviation that still satisfies the property is reported as DRIFT)
Modelled(t) == "model" \in DOMAIN t /\ t.model
ModelItems(t) ==
  {x \in {"base", "mark", "lig"} \X Exported(t) \X (0..Max({0} \cup {MaxComp(t, b) : b \in Exported(t)})) \X Exported(t) :
     /\ ~G(t, x[2]).abvm /\ ~G(t, x[4]).abvm
     /\ IF x[1] = "lig" THEN x[3] >= 1 /\ x[3] <= MaxComp(t, x[2]) ELSE x[3] = 0}
ModelBad(t) ==
  IF ~Modelled(t) THEN {}
  ELSE LET P == WPlan(t) IN
       {y \in Contexts(t) \X ModelItems(t) :
          Attach(t.F, t.tags[y[1][1]].tag, y[1][2], y[2][1], y[2][2], y[2][3], y[2][4]) # WAttach(t, P, y[2][1], y[2][2], y[2][3], y[2][4])}
\* no language system exposes a mark feature although the source defines attachments (outside known finding F-C06-1):
\* evaluated against the writer-independent candidates
PseudoItems(t) ==
  {x \in {"base", "mark", "lig"} \X Exported(t) \X (0..3) \X Exported(t) :
     LET kind == x[1]  b == x[2]  comp == x[3]  m == x[4] IN
     /\ b # m /\ IsMarkD(t, m) /\ G(t, b).abvm = G(t, m).abvm
     /\ ~Known_C06_1(t, b) /\ ~Known_C06_1(t, m)
     /\ CASE kind = "base" -> comp = 0 /\ ~IsMarkD(t, b) /\ CatOK(t, b, "base")
          [] kind = "mark" -> comp = 0 /\ IsMarkD(t, b)
          [] kind = "lig"  -> comp >= 1 /\ comp <= MaxComp(t, b) /\ ~IsMarkD(t, b) /\ CatOK(t, b, "ligature")
     /\ (IF kind = "lig" THEN Cands(t, b, m, LAMBDA a : a.num = comp) ELSE Cands(t, b, m, LAMBDA a : a.num = 0)) # {}}
FeatureMissing(t) == Contexts(t) = {} /\ PseudoItems(t) # {}

Init == i = 1
Next ==
  /\ i <= Len(Traces)
  /\ LET t == Traces[i]  bad == Bad(t)  missing == FeatureMissing(t)  mbad == ModelBad(t)
     IN PrintT(<<"VERDICT", t.tid,
                 IF missing THEN "mark-feature-present" ELSE IF bad = {} THEN "none" ELSE "anchors-coincide",
                 IF mbad = {} THEN "none" ELSE "model-attachment",
                 Cardinality(Items(t)), NonEmpty(t),
                 KnownCount(t), ToString(IF bad # {} THEN CHOOSE x \in bad : TRUE
                                         ELSE IF mbad # {} THEN CHOOSE x \in mbad : TRUE
                                         ELSE IF missing THEN CHOOSE x \in PseudoItems(t) : TRUE ELSE <<>>)>>)
  /\ i' = i + 1
Spec == Init /\ [][Next]_i
=============================================================================
