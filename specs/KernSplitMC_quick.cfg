SPECIFICATION Spec
CONSTANTS
  MaxEntries = 1
INVARIANT C05
INVARIANT C05_MixedZeroOrValue
CHECK_DEADLOCK FALSE
