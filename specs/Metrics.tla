------------------------------- MODULE Metrics -------------------------------
(***************************************************************************)
(* Derived metric fields (outlineCompiler._setupTable_hhea_or_vhea,        *)
(* setupTable_hmtx / vmtx / VORG, head bounding box, maxp.numGlyphs).      *)
(* Input: per glyph in glyph order the advance and the bounding box        *)
(* (<<>> when the glyph is empty, else <<xMin, yMin, xMax, yMax>>).        *)
(***************************************************************************)
EXTENDS Integers, Sequences, FiniteSets, SequencesExt, FiniteSetsExt

HasBox(b) == Len(b) = 4
MaxOr0(S) == IF S = {} THEN 0 ELSE Max(S)
MinOr0(S) == IF S = {} THEN 0 ELSE Min(S)

\* the loop that precomputes numberOfHMetrics
RECURSIVE NumLongLoop(_, _)
NumLongLoop(adv, n) ==
  IF n <= 1 THEN n
  ELSE IF adv[n - 1] = adv[Len(adv)] THEN (IF n - 1 <= 1 THEN 1 ELSE NumLongLoop(adv, n - 1))
  ELSE n
NumLong(adv) == IF Len(adv) > 1 THEN NumLongLoop(adv, Len(adv)) ELSE Len(adv)
\* declaratively: the smallest k >= 1 such that every advance from k on equals the last one
NumLongDecl(adv) ==
  IF Len(adv) = 0 THEN 0
  ELSE Min({k \in 1..Len(adv) : \A i \in k..Len(adv) : adv[i] = adv[Len(adv)]})

\* horizontal header from (adv, box) sequences
Boxed(box) == {k \in 1..Len(box) : HasBox(box[k])}
Lsb(box, k) == IF HasBox(box[k]) THEN box[k][1] ELSE 0
HheaOK(h, adv, box) ==
  /\ h.advanceWidthMax = MaxOr0({adv[k] : k \in 1..Len(adv)})
  /\ h.minLeftSideBearing = MinOr0({box[k][1] : k \in Boxed(box)})
  /\ h.minRightSideBearing = MinOr0({adv[k] - box[k][3] : k \in Boxed(box)})      \* adv - lsb - (xMax - xMin)
  /\ h.xMaxExtent = MaxOr0({box[k][3] : k \in Boxed(box)})                         \* lsb + (xMax - xMin)
  /\ h.numberOfHMetrics = NumLongDecl(adv)
FontBoxOK(head, box) ==
  IF Boxed(box) = {} THEN head.xMin = 0 /\ head.yMin = 0 /\ head.xMax = 0 /\ head.yMax = 0
  ELSE /\ head.xMin = Min({box[k][1] : k \in Boxed(box)}) /\ head.yMin = Min({box[k][2] : k \in Boxed(box)})
       /\ head.xMax = Max({box[k][3] : k \in Boxed(box)}) /\ head.yMax = Max({box[k][4] : k \in Boxed(box)})

\* vertical: tsb = vertOrigin - yMax ; extents from heights
VheaOK(v, hgt, tsb, box) ==
  /\ v.advanceHeightMax = MaxOr0({hgt[k] : k \in 1..Len(hgt)})
  /\ v.minTopSideBearing = MinOr0({tsb[k] : k \in Boxed(box)})
  /\ v.minBottomSideBearing = MinOr0({hgt[k] - tsb[k] - (box[k][4] - box[k][2]) : k \in Boxed(box)})
  /\ v.yMaxExtent = MaxOr0({tsb[k] + (box[k][4] - box[k][2]) : k \in Boxed(box)})
  /\ v.numberOfVMetrics = NumLongDecl(hgt)
=============================================================================
