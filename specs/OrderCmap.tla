----------------------------- MODULE OrderCmap -----------------------------
(***************************************************************************)
(* Glyph order and character map (util.makeOfficialGlyphOrder,             *)
(* util.makeUnicodeToGlyphNameMapping, outlineCompiler.setupTable_cmap).   *)
(* Glyph names are strings; their sort order is the order of their code    *)
(* point sequences, supplied as a function `cps`.                           *)
(***************************************************************************)
EXTENDS Integers, Sequences, FiniteSets, SequencesExt, FiniteSetsExt

SeqToSet(s) == {s[k] : k \in 1..Len(s)}

RECURSIVE LexLess(_, _)
LexLess(a, b) ==
  IF Len(a) = 0 THEN Len(b) > 0
  ELSE IF Len(b) = 0 THEN FALSE
  ELSE IF a[1] # b[1] THEN a[1] < b[1]
  ELSE LexLess(Tail(a), Tail(b))

SortNames(S, cps) == SetToSortSeq(S, LAMBDA a, b : LexLess(cps[a], cps[b]))

\* ---- the loop of makeOfficialGlyphOrder ------------------------------------------------------
RECURSIVE OrderLoop(_, _, _, _)
OrderLoop(req, k, names, acc) ==
  IF k > Len(req) THEN [acc |-> acc, rest |-> names]
  ELSE IF req[k] \in names THEN OrderLoop(req, k + 1, names \ {req[k]}, Append(acc, req[k]))
  ELSE OrderLoop(req, k + 1, names, acc)

MakeOrder(names, req, cps) ==
  LET head == IF ".notdef" \in names THEN <<".notdef">> ELSE <<>>
      r == OrderLoop(req, 1, names \ {".notdef"}, head)
  IN r.acc \o SortNames(r.rest, cps)

\* ---- declarative statement of property C03 (order part) ---------------------------------------
FirstOcc(req, k) == \A j \in 1..(k-1) : req[j] # req[k]
Requested(names, req) ==      \* first occurrences of requested names that exist, in that order
  SelectSeq([k \in 1..Len(req) |-> [n |-> req[k], first |-> FirstOcc(req, k)]],
            LAMBDA e : e.first /\ e.n \in names /\ e.n # ".notdef")
OrderOK(order, names, req, cps) ==
  LET rq == Requested(names, req)
      nreq == Len(rq)
      off == IF ".notdef" \in names THEN 1 ELSE 0
  IN /\ Len(order) = Cardinality(names)
     /\ SeqToSet(order) = names                                  \* each exported glyph exactly once
     /\ (".notdef" \in names) => order[1] = ".notdef"
     /\ Len(order) >= off + nreq
     /\ \A k \in 1..nreq : order[off + k] = rq[k].n
     /\ \A a, b \in (off + nreq + 1)..Len(order) : a < b => LexLess(cps[order[a]], cps[order[b]])

\* ---- character map ----------------------------------------------------------------------------
\* unicodes: name |-> sequence of code points
Declares(unicodes, n, cp) == \E k \in 1..Len(unicodes[n]) : unicodes[n][k] = cp
AllCps(unicodes, names) == UNION {SeqToSet(unicodes[n]) : n \in names}
Conflict(unicodes, names) ==
  \E cp \in AllCps(unicodes, names) :
     \/ Cardinality({n \in names : Declares(unicodes, n, cp)}) > 1
     \/ \E n \in names : Cardinality({k \in 1..Len(unicodes[n]) : unicodes[n][k] = cp}) > 1
ExpectedMap(unicodes, names) ==
  [cp \in AllCps(unicodes, names) |-> CHOOSE n \in names : Declares(unicodes, n, cp)]
BMP(m) == [cp \in {c \in DOMAIN m : c <= 65535} |-> m[cp]]
HasNonBMP(m) == \E c \in DOMAIN m : c > 65535

\* observed subtable: [fmt, plat, enc, map |-> << <<cp, name>> ... >>]
AsFun(pairs) == [cp \in {pairs[k][1] : k \in 1..Len(pairs)} |->
                   (CHOOSE k \in 1..Len(pairs) : pairs[k][1] = cp) ]
MapOf(pairs) == [cp \in {pairs[k][1] : k \in 1..Len(pairs)} |->
                   pairs[CHOOSE k \in 1..Len(pairs) : pairs[k][1] = cp][2]]
NoDupKeys(pairs) == \A a, b \in 1..Len(pairs) : pairs[a][1] = pairs[b][1] => a = b

CmapOK(cmaps, unicodes, names) ==
  LET m == ExpectedMap(unicodes, names)
      f4 == {k \in 1..Len(cmaps) : cmaps[k].fmt = 4}
      f12 == {k \in 1..Len(cmaps) : cmaps[k].fmt = 12}
  IN /\ f4 # {}
     /\ \A k \in f4 : NoDupKeys(cmaps[k].map) /\ MapOf(cmaps[k].map) = BMP(m)
     /\ (f12 # {}) <=> HasNonBMP(m)
     /\ \A k \in f12 : NoDupKeys(cmaps[k].map) /\ MapOf(cmaps[k].map) = m
     /\ \A k \in 1..Len(cmaps) : cmaps[k].fmt \in {4, 12, 14}

\* variation sequences: src << <<vs, cp, glyph>> >>, observed << <<vs, cp, glyph or "">> >> ("" = default)
UvsOK(src, obs, unicodes, names) ==
  LET m == ExpectedMap(unicodes, names)
      S == {src[k] : k \in 1..Len(src)}
      O == {obs[k] : k \in 1..Len(obs)}
  IN /\ Cardinality(O) = Cardinality(S)
     /\ \A e \in S : (IF e[2] \in DOMAIN m /\ m[e[2]] = e[3] THEN <<e[1], e[2], "">> ELSE <<e[1], e[2], e[3]>>) \in O
=============================================================================
