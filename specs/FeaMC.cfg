SPECIFICATION Spec
CONSTANTS
  Tags = {"mark", "mkmk", "liga"}
  WTags <- MarkWriterTags
  MaxBlocks = 2
  MaxBody = 3
INVARIANT C17_Survive
INVARIANT C17_Tags
INVARIANT NoDuplicateGenerated
INVARIANT LookupsBeforeFeatures
CHECK_DEADLOCK FALSE
