---------------------------- MODULE FontInfoTrace ----------------------------
(***************************************************************************)
(* Trace acceptor for property C16.  Record: tid, present (list of         *)
(* attribute names), num (numeric attribute values at scale 4), str        *)
(* (string attribute values as code point sequences), ret = observed       *)
(* fields (numbers, name records as code point sequences) or err.          *)
(***************************************************************************)
EXTENDS FontInfo, Json, IOUtils, TLC, TLCExt
Traces == ndJsonDeserialize(IOEnv.TRACE_FILE)
VARIABLE i
Rng(s) == {s[k] : k \in 1..Len(s)}
Has(r, f) == f \in DOMAIN r
P(t) == Rng(t.present)
NumV(t) == [a \in DOMAIN t.num |-> t.num[a]]
StrV(t) == [a \in DOMAIN t.str |-> t.str[a]]
NumClauses(t) == [f \in DOMAIN NumFields |-> t.ret.num[f] = Field(P(t), NumV(t), f)]
BadNum(t) == {f \in DOMAIN NumFields : ~NumClauses(t)[f]}
\* further fields (present when the harness recorded them)
NumStr(t) == [a \in DOMAIN t.num |-> t.num[a]]
BadMore(t) == IF ~Has(t.ret, "more") THEN {}
              ELSE {f \in MoreFields : t.ret.more[f] # MoreField(P(t), NumV(t), f)}
                   \cup (IF HasVhea(P(t)) # t.ret.hasVhea THEN {"vhea-presence"}
                         ELSE IF ~t.ret.hasVhea THEN {} ELSE {f \in VheaFields : t.ret.vhea[f] # VheaField(P(t), NumV(t), f)})
DirectNameOK(t, key, id) == LET e == DirectName(P(t), StrV(t), key)  k == ToString(id) IN
                            IF Len(e) = 0 THEN ~Has(t.ret.names, k) ELSE Has(t.ret.names, k) /\ t.ret.names[k] = e
BadNames(t) == IF ~Has(t.ret, "more") THEN {}
  ELSE {x \in {<<"n0", 0>>, <<"n7", 7>>, <<"n8", 8>>, <<"n9", 9>>, <<"n10", 10>>, <<"n11", 11>>, <<"n12", 12>>, <<"n13", 13>>,
               <<"n14", 14>>, <<"n18", 18>>, <<"n19", 19>>, <<"n21", 21>>, <<"n22", 22>>} : ~DirectNameOK(t, x[1], x[2])}
       \cup (IF Has(t.ret.names, "5") /\ t.ret.names["5"] = VersionString(P(t), NumV(t), StrV(t)) THEN {} ELSE {<<"version", 5>>})
       \cup (LET ps == IF "postscriptFontName" \in P(t) THEN StrV(t)["postscriptFontName"] ELSE t.ret.names["6"] IN
             IF Has(t.ret.names, "3") /\ t.ret.names["3"] = UniqueID(P(t), NumV(t), StrV(t), ps) THEN {} ELSE {<<"uniqueID", 3>>})
       \cup (IF t.ret.vendor = PadTo4(VendorID(P(t), StrV(t))) THEN {} ELSE {<<"vendor", 0>>})
PB(t) == IF Has(t, "bits") THEN DOMAIN t.bits ELSE {}
BitV(t) == [a \in PB(t) |-> Rng(t.bits[a])]
NoDup(s) == \A a, b \in 1..Len(s) : s[a] = s[b] => a = b
\* bit 1 of head.flags ("left sidebearing at x = 0") is recomputed by fontTools' maxp.recalc for TrueType outlines
Ignored(t, f) == IF f = "headFlags" /\ t.flavor = "tt" THEN {1} ELSE {}
BadBits(t) == IF ~Has(t.ret, "bits") THEN {}
              ELSE {f \in BitFields : BitFieldDefined(PB(t), f) /\
                      ~(NoDup(t.ret.bits[f]) /\ Rng(t.ret.bits[f]) \ Ignored(t, f) = BitField(P(t), StrV(t), PB(t), BitV(t), f) \ Ignored(t, f))}
NameOK(t, id) == LET key == ToString(id) IN
                 IF Len(NameRecord(P(t), StrV(t), id)) = 0 THEN ~Has(t.ret.names, key)
                 ELSE Has(t.ret.names, key) /\ t.ret.names[key] = NameRecord(P(t), StrV(t), id)
Clauses(t) ==
  IF Has(t.ret, "err") THEN << <<"compiles", FALSE>> >>
  ELSE
  << <<"compiles", TRUE>>,
     <<"numeric-fields", BadNum(t) = {}>>,
     <<"bit-list-fields", BadBits(t) = {}>>,
     <<"further-numeric-fields", BadMore(t) = {}>>,
     <<"further-name-records", BadNames(t) = {}>>,
     <<"name-1-2-4", NameOK(t, 1) /\ NameOK(t, 2) /\ NameOK(t, 4)>>,
     \* explicit openTypeNameRecords (other languages / platforms, same name IDs) are stored as given, next to the built ones
     <<"explicit-name-records-kept", Has(t, "expNameRecs") =>
           \A k \in 1..Len(t.expNameRecs) : \E j \in 1..Len(t.ret.nameRecs) : t.ret.nameRecs[j] = t.expNameRecs[k]>>,
     <<"typographic-names", IF HasTypographicNames(P(t), StrV(t)) THEN NameOK(t, 16) /\ NameOK(t, 17)
                            ELSE ~Has(t.ret.names, "16") /\ ~Has(t.ret.names, "17")>>,
     <<"postscript-name-legal", ("postscriptFontName" \notin P(t)) => (Has(t.ret.names, "6") /\ PsLegal(t.ret.names["6"]))>>,
     <<"postscript-name-ascii-exact",
          ("postscriptFontName" \notin P(t)
           /\ AsciiPrintable(Str(P(t), StrV(t), "openTypeNamePreferredFamilyName"))
           /\ AsciiPrintable(Str(P(t), StrV(t), "openTypeNamePreferredSubfamilyName")))
          => t.ret.names["6"] = PsNormalizeAscii(Str(P(t), StrV(t), "openTypeNamePreferredFamilyName") \o <<45>>
                                                  \o Str(P(t), StrV(t), "openTypeNamePreferredSubfamilyName"))>>,
     <<"explicit-postscript-name", ("postscriptFontName" \in P(t) /\ AsciiPrintable(StrV(t)["postscriptFontName"]))
          => t.ret.names["6"] = SelectSeq(StrV(t)["postscriptFontName"], LAMBDA c : c \notin PsForbidden)>>,
     <<"cff-names-ascii", (Has(t.ret, "cffName") /\ "postscriptFontName" \notin P(t)) => PsLegal(t.ret.cffName)>>,
     <<"saves-and-reloads", t.ret.reloaded>> >>
Init == i = 1
Next == /\ i <= Len(Traces)
        /\ LET t == Traces[i]  cl == Clauses(t)  bad == {k \in 1..Len(cl) : ~cl[k][2]}
           IN PrintT(<<"VERDICT", t.tid, IF bad = {} THEN "none" ELSE cl[Min(bad)][1], "none",
                       ToString(IF Has(t.ret, "err") THEN {} ELSE BadNum(t) \cup BadBits(t) \cup BadMore(t)) \o ToString(IF Has(t.ret, "err") THEN {} ELSE BadNames(t))>>)
        /\ i' = i + 1
Spec == Init /\ [][Next]_i
=============================================================================
