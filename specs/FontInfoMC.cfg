SPECIFICATION Spec
INVARIANT C16_Unsigned
INVARIANT C16_ExplicitWins
INVARIANT C16_Chain
CHECK_DEADLOCK FALSE
