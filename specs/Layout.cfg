SPECIFICATION Spec
INVARIANT C20
CHECK_DEADLOCK FALSE
