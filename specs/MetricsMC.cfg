SPECIFICATION Spec
INVARIANT C04_NumLong
CHECK_DEADLOCK FALSE
