SPECIFICATION Spec
CONSTANTS
  Glyphs = {"a", "b"}
  LayerLib = FALSE
  KeepUfoList = TRUE
INVARIANT ListedAreSkipped
CHECK_DEADLOCK FALSE
