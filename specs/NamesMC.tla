------------------------------- MODULE NamesMC -------------------------------
(* every sequence of up to MaxGlyphs supplied names from a pool built to collide with generated ".N" suffixes:
   the returned names are pairwise distinct, each is its candidate plus ".N" suffixes only, characters are legal *)
EXTENDS Names, TLC
CONSTANT MaxGlyphs
A == <<65>>
Pool == {A, A \o <<DOT, 49>>, A \o <<DOT, 49, DOT, 49>>, A \o <<DOT, 50>>, <<66>>, <<66, 33>>}    \* A, A.1, A.1.1, A.2, B, B!
VARIABLES cands, pc
Init == cands = <<>> /\ pc = "pick"
Add == pc = "pick" /\ Len(cands) < MaxGlyphs /\ \E c \in Pool : cands' = Append(cands, c) /\ UNCHANGED pc
Stop == pc = "pick" /\ pc' = "done" /\ UNCHANGED cands
Next == Add \/ Stop
Spec == Init /\ [][Next]_<<cands, pc>>
RECURSIVE Loop(_, _, _)
Loop(k, seen, acc) == IF k > Len(cands) THEN acc
                      ELSE LET r == UniqueName(StripIllegal(cands[k]), seen) IN Loop(k + 1, r.seen, Append(acc, r.name))
Result == Loop(1, <<>>, <<>>)
C11_Unique == pc = "done" => Distinct(Result)
C11_UsesSupplied == pc = "done" => \A k \in 1..Len(cands) : IsPrefix2(StripIllegal(cands[k]), Result[k])
C11_Legal == pc = "done" => \A k \in 1..Len(cands) : \A j \in 1..Len(Result[k]) : LegalChar(Result[k][j])
=============================================================================
