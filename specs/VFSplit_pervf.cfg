SPECIFICATION Spec
CONSTANTS
  PerVF = TRUE
  HoistDefault = FALSE
  Discs = {0, 1}
  Positions = {0, 1, 2}
  MaxVFs = 2
CHECK_DEADLOCK FALSE
INVARIANT JointDecisions
