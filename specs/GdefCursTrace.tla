--------------------------- MODULE GdefCursTrace ---------------------------
(***************************************************************************)
(* Trace acceptor for property C18: GDEF glyph classes, ligature carets    *)
(* and cursive attachment records of a compiled font against the UFO data. *)
(* Record: tid, n, glyphs[gid+1] = [cat, ltr, carets = <<v4...>>,          *)
(*   curs = << [suffix, hasEntry, ex, ey, hasExit, xx, xy] >> ],           *)
(*   hasCats, userClasses (<<>> or <<[gid, cls]>>), userCarets, pairs      *)
(*   (suffixes for which both an entry and an exit anchor exist), F.       *)
(***************************************************************************)
EXTENDS OTPos, UfoKerning, Json, IOUtils, TLC, TLCExt

Traces == ndJsonDeserialize(IOEnv.TRACE_FILE)
VARIABLE i
G(t, g) == t.glyphs[g + 1]
Exported(t) == 0..(t.n - 1)
OtR4(v4) == (2 * v4 + 4) \div 8            \* otRound of a quarter-unit value

ClassNum(c) == CASE c = "base" -> 1 [] c = "ligature" -> 2 [] c = "mark" -> 3 [] c = "component" -> 4 [] OTHER -> 0
UserClass(t, g) == LET S == {k \in 1..Len(t.userClasses) : t.userClasses[k][1] = g}
                   IN IF S = {} THEN 0 ELSE t.userClasses[CHOOSE k \in S : TRUE][2]
AnyAssigned(t) == \E g \in Exported(t) : ClassNum(G(t, g).cat) # 0

ClassesOK(t) ==
  IF t.userDefinesClasses THEN \A g \in Exported(t) : GlyphClass(t.F, g) = UserClass(t, g)
  ELSE IF AnyAssigned(t) THEN \A g \in Exported(t) : GlyphClass(t.F, g) = ClassNum(G(t, g).cat)
  ELSE TRUE       \* no categories: glyph classes are inferred by feaLib from the positioning rules (environment)

\* carets: the rounded source coordinates in increasing order (the table builder stores each position once)
Sorted(S) == SetToSortSeq(S, <)
ExpCarets(t, g) == Sorted({OtR4(v) : v \in Rng(G(t, g).carets)})
ObsCarets(t, g) == LET S == {k \in 1..Len(t.F.gdef.carets) : t.F.gdef.carets[k][1] = g}
                   IN IF S = {} THEN <<>> ELSE LET c == t.F.gdef.carets[CHOOSE k \in S : TRUE][2]
                                               IN [k \in 1..Len(c) |-> c[k][2]]
\* (a static build stores each position once; a variable build keeps coinciding carets apart, since they may differ elsewhere in
\*  the design space: both are the anchors' coordinates in increasing order)
NonDecreasing(s) == \A k \in 1..(Len(s) - 1) : s[k] <= s[k + 1]
\* carets the user's own GDEF block defines (by position or by contour point index) are left alone: the compiled list is theirs
UserCaretsOK(t) == t.userDefinesCarets => {<<t.F.gdef.carets[k][1], t.F.gdef.carets[k][2]>> : k \in 1..Len(t.F.gdef.carets)}
                                          = {<<t.userCarets[k][1], t.userCarets[k][2]>> : k \in 1..Len(t.userCarets)}
CaretsOK(t) == t.userDefinesCarets \/ \A g \in Exported(t) :
                 LET o == ObsCarets(t, g)  e == ExpCarets(t, g) IN
                 \/ o = e
                 \/ (NonDecreasing(o) /\ Rng(o) = Rng(e) /\ Len(o) <= Len(G(t, g).carets))
                 \* away from the default location of a variable font the records keep the default's order while their values move
                 \/ ("orderFree" \in DOMAIN t /\ t.orderFree /\ Rng(o) = Rng(e) /\ Len(o) <= Len(G(t, g).carets))

\* cursive: all records of glyph g in curs lookups: {<<rtlFlag, entry, exit>>}
CursLookups(t) == {li \in 0..(Len(t.F.gpos.lookups) - 1) : t.F.gpos.lookups[li + 1].type = 3}
RecsIn(lk, g) == UNION {{lk.subs[j].recs[k] : k \in {k \in 1..Len(lk.subs[j].recs) : lk.subs[j].recs[k][1] = g}} : j \in 1..Len(lk.subs)}
CursRecs(t, g) ==
  UNION {{<<t.F.gpos.lookups[li + 1].flag % 2, r[2], r[3]>> : r \in RecsIn(t.F.gpos.lookups[li + 1], g)} : li \in CursLookups(t)}
ExpCursRecs(t, g) ==
  {<<(IF c.suffix = "RTL" THEN 1 ELSE IF c.suffix = "LTR" THEN 0 ELSE IF G(t, g).ltr THEN 0 ELSE 1),
     (IF c.hasEntry THEN <<1, OtR4(c.ex), OtR4(c.ey)>> ELSE <<0, 0, 0>>),
     (IF c.hasExit THEN <<1, OtR4(c.xx), OtR4(c.xy)>> ELSE <<0, 0, 0>>)>> :
      c \in {c \in Rng(G(t, g).curs) : c.pair \in Rng(t.pairs)}}
CursOK(t) == t.userDefinesCurs \/ \A g \in Exported(t) : CursRecs(t, g) = ExpCursRecs(t, g)
CursBad(t) == {g \in Exported(t) : CursRecs(t, g) # ExpCursRecs(t, g)}

Init == i = 1
Next ==
  /\ i <= Len(Traces)
  /\ LET t == Traces[i]
         p == IF ~ClassesOK(t) THEN "gdef-classes-mirror-categories"
              ELSE IF ~CaretsOK(t) THEN "carets-sorted-rounded"
              ELSE IF ~UserCaretsOK(t) THEN "user-carets-left-alone"
              ELSE IF ~CursOK(t) THEN "cursive-records-and-direction" ELSE "none"
     IN PrintT(<<"VERDICT", t.tid, p, "none", ToString(IF t.userDefinesCurs THEN {} ELSE CursBad(t))>>)
  /\ i' = i + 1
Spec == Init /\ [][Next]_i
=============================================================================
