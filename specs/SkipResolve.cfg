SPECIFICATION Spec
CONSTANTS
  Glyphs = {"a", "b"}
  LayerLib = FALSE
  KeepUfoList = FALSE
INVARIANT ListedAreSkipped
INVARIANT OnlyListedAreSkipped
CHECK_DEADLOCK FALSE
