---------------------------- MODULE SkipVarTrace ----------------------------
(***************************************************************************)
(* Trace acceptor for C13 on the designspace paths (compileVariableTTF,    *)
(* compileVariableCFF2).  One record = one family compiled twice, with and *)
(* without a skipExportGlyphs list:                                        *)
(*   tid, skip, order0 / order1 (glyph order without / with skipping),     *)
(*   cmap1 (names mapped by the cmap of the skipping build),               *)
(*   m0, m1 : source glyph sets of the full masters at locations 0 and 8,  *)
(*   sparse : glyphs of the sparse layer at location 4 (may be empty),     *)
(*   locs   : << [loc, r0, r1, adv0, adv1] >>  what each build renders at  *)
(*            that location (variable font instantiated there): per glyph  *)
(*            the drawn contours as point lists with components resolved   *)
(*            by the rasteriser's rule (no direction compensation).        *)
(* The model is the designspace semantics: the glyph set at a location is  *)
(* the master there; at a sparse location a glyph the layer lacks is the   *)
(* linear blend of its neighbours.  A remaining glyph must render          *)
(* Resolve(glyph set at the location) -- as a multiset of closed contours  *)
(* compared up to start point and direction -- whether or not anything is  *)
(* skipped.                                                                *)
(***************************************************************************)
EXTENDS GlyphSet, Json, IOUtils, TLC, TLCExt

Traces == ndJsonDeserialize(IOEnv.TRACE_FILE)
VARIABLE i
Has(r, f) == f \in DOMAIN r
SetOf(seq) == {seq[k] : k \in 1..Len(seq)}

\* ---- designspace semantics ------------------------------------------------------------------------
MidPt(p, q) == <<(p[1] + q[1]) \div 2, (p[2] + q[2]) \div 2, p[3]>>
MidGlyph(a, b) ==
  [cs |-> [k \in 1..Len(a.cs) |-> [j \in 1..Len(a.cs[k]) |-> MidPt(a.cs[k][j], b.cs[k][j])]],
   comps |-> [k \in 1..Len(a.comps) |-> [b |-> a.comps[k].b, m |-> a.comps[k].m,
                                         d |-> <<(a.comps[k].d[1] + b.comps[k].d[1]) \div 2, (a.comps[k].d[2] + b.comps[k].d[2]) \div 2>>]],
   w |-> (a.w + b.w) \div 2]
Slim(g) == [cs |-> g.cs, comps |-> g.comps, w |-> g.w]
GlyphSetAt(t, loc) ==
  CASE loc = 0 -> [n \in DOMAIN t.m0 |-> Slim(t.m0[n])]
    [] loc = 8 -> [n \in DOMAIN t.m1 |-> Slim(t.m1[n])]
    [] OTHER   -> [n \in DOMAIN t.m0 |-> IF n \in DOMAIN t.sparse THEN Slim(t.sparse[n]) ELSE MidGlyph(t.m0[n], t.m1[n])]

\* ---- closed contours up to start point and direction ------------------------------------------------
XY(c) == [k \in 1..Len(c) |-> <<c[k][1], c[k][2]>>]
Rot(c, r) == [k \in 1..Len(c) |-> c[((k - 1 + r) % Len(c)) + 1]]
Rev(c) == [k \in 1..Len(c) |-> c[Len(c) + 1 - k]]
CycEq(a, b) == Len(a) = Len(b) /\ (Len(a) = 0 \/ \E r \in 0..(Len(a) - 1) : Rot(a, r) = b \/ Rot(Rev(a), r) = b)
SameRendering(exp, obs) ==
  /\ Len(exp) = Len(obs)
  /\ \A k \in 1..Len(exp) :
        Cardinality({j \in 1..Len(obs) : CycEq(exp[k], obs[j])}) = Cardinality({j \in 1..Len(exp) : CycEq(exp[k], exp[j])})

Expected(t, loc, n) == LET r == Resolve(GlyphSetAt(t, loc), n) IN [k \in 1..Len(r) |-> XY(r[k])]
ObsOK(t, L, which, n) ==
  LET r == IF which = 0 THEN L.r0 ELSE L.r1
      a == IF which = 0 THEN L.adv0 ELSE L.adv1 IN
  /\ n \in DOMAIN r /\ SameRendering(Expected(t, L.loc, n), r[n])
  /\ n \in DOMAIN a /\ a[n] * PS = GlyphSetAt(t, L.loc)[n].w

Skip(t) == SetOf(t.skip)
Remaining(t) == (DOMAIN t.m0) \ Skip(t)
(***************************************************************************)
(* Known finding F-C13-1: the masters build a remaining glyph differently  *)
(* (one composes it, another draws plain contours) and, where it is        *)
(* composed, a component that is kept comes BEFORE a skipped one (or the   *)
(* glyph also has own contours): inlining the skipped component moves its  *)
(* contours in front of the kept components in that master only, and the   *)
(* masters are no longer compatible (the build then fails).                *)
(***************************************************************************)
Reorders(g, skip) ==
  \E j \in 1..Len(g.comps) : g.comps[j].b \in skip /\ (\E k \in 1..(j - 1) : g.comps[k].b \notin skip)
BuiltDifferently(t, n) == (Len(t.m0[n].comps) = 0) # (Len(t.m1[n].comps) = 0)
Known_C13_1(t) ==
  Has(t, "err") /\ \E n \in Remaining(t) : BuiltDifferently(t, n) /\ (Reorders(t.m0[n], Skip(t)) \/ Reorders(t.m1[n], Skip(t)))
\* remaining glyphs that reach, through components, a skipped glyph drawn in the sparse layer: the sparse master must define them
\* (only through chains of SKIPPED glyphs: a kept component that has the master itself carries it for its users)
RECURSIVE ViaSkipped(_, _, _)
ViaSkipped(t, n, fuel) ==
  fuel > 0 /\ \E k \in 1..Len(t.m0[n].comps) :
     LET b == t.m0[n].comps[k].b IN b \in Skip(t) /\ b \in DOMAIN t.m0 /\ (b \in DOMAIN t.sparse \/ ViaSkipped(t, b, fuel - 1))
NeedsSparse(t) == {n \in Remaining(t) : ViaSkipped(t, n, Cardinality(DOMAIN t.m0))}
SparseMasterOK(t) ==
  Has(t, "sparseHas") =>
    \A n \in NeedsSparse(t) :
       /\ n \in SetOf(t.sparseHas) /\ n \in DOMAIN t.rS
       \* (what it draws can be read off the sparse master alone only when inlining leaves no reference to a glyph that this
       \*  master does not hold -- otherwise the master font has an empty placeholder there)
       /\ (Len(SkipExportGlyph(GlyphSetAt(t, 4), n, Skip(t)).comps) = 0 => SameRendering(Expected(t, 4, n), t.rS[n]))
Clauses(t) ==
  IF Has(t, "err") THEN << <<"compiles", "P", FALSE>> >> ELSE
  << <<"skipped-absent",          "P", SetOf(t.order1) \cap Skip(t) = {}>>,
     <<"remaining-present",       "P", Remaining(t) \subseteq SetOf(t.order1)>>,
     <<"order-filtered",          "P", t.order1 = SelectSeq(t.order0, LAMBDA n : n \notin Skip(t))>>,
     <<"cmap-excludes-skipped",   "P", SetOf(t.cmap1) \cap Skip(t) = {}>>,
     <<"same-contours-as-unskipped", "P", \A k \in 1..Len(t.locs) : \A n \in Remaining(t) :
                                        n \in DOMAIN t.locs[k].r0 /\ n \in DOMAIN t.locs[k].r1
                                        /\ SameRendering(t.locs[k].r0[n], t.locs[k].r1[n])>>,
     <<"same-advance-as-unskipped",  "P", \A k \in 1..Len(t.locs) : \A n \in Remaining(t) : t.locs[k].adv0[n] = t.locs[k].adv1[n]>>,
     <<"sparse-master-defines-what-uses-skipped-glyphs", "P", SparseMasterOK(t)>>,
     <<"renders-the-designspace",    "M", \A k \in 1..Len(t.locs) : \A n \in Remaining(t) : ObsOK(t, t.locs[k], 1, n)>>,
     <<"model-unskipped-build",      "M", \A k \in 1..Len(t.locs) : \A n \in DOMAIN t.m0 : ObsOK(t, t.locs[k], 0, n)>> >>
First(cl, kind) == LET bad == {k \in 1..Len(cl) : cl[k][2] = kind /\ ~cl[k][3]} IN IF bad = {} THEN "none" ELSE cl[Min(bad)][1]

Init == i = 1
Next == /\ i <= Len(Traces)
        /\ LET t == Traces[i]  cl == Clauses(t) IN PrintT(<<"VERDICT", t.tid, First(cl, "P"), First(cl, "M"), IF Known_C13_1(t) THEN "F-C13-1" ELSE "none">>)
        /\ i' = i + 1
Spec == Init /\ [][Next]_i
=============================================================================
