SPECIFICATION Spec
CONSTANTS
  NG = 3
  Keys <- Keys3
  WithCats = FALSE
  WithLig = FALSE
INVARIANT C06_Model
INVARIANT NoSpurious
INVARIANT LookupsConflictFree
INVARIANT SpecificWins
INVARIANT BottomWins
INVARIANT GroupingCompact
CHECK_DEADLOCK FALSE
