SPECIFICATION Spec
CONSTANTS CopyOnBuild = FALSE
 HasLTR = FALSE
INVARIANT VariableSurvives
CHECK_DEADLOCK FALSE
