------------------------------ MODULE Filters ------------------------------
(***************************************************************************)
(* The glyph-filter protocol of ufo2ft (filters/base.py BaseFilter.__call__*)
(* and the shipped filters) as functions on glyph sets, plus the           *)
(* declarative clauses of properties C14 and C15.                          *)
(*                                                                         *)
(* A filter invocation is described by                                     *)
(*   f.name  : filter class name without the "Filter" suffix               *)
(*   f.inc   : set of glyph names for which include(glyph) holds           *)
(*   f.opt   : record of options (per filter, see below)                   *)
(* and maps a glyph set `gs` to Model(f, gs) = [gs |-> ..., mod |-> ...].   *)
(***************************************************************************)
EXTENDS GlyphSet

\* ---------------------------------------------------------------------------
\* Visiting order: BaseFilter.__call__ sorts glyph names by decreasing
\* component depth; ties are in dict order, which the specification leaves
\* open.  The result functions below do not depend on the order; the design
\* check FiltersMC explores every order.
\* ---------------------------------------------------------------------------

\* DecomposeComponentsFilter.filter
DecomposeApplies(gs, n) == HasComps(gs[n])
DecomposeModel(gs, inc) ==
  LET hit == {n \in DOMAIN gs : n \in inc /\ DecomposeApplies(gs, n)}
  IN [gs  |-> [n \in DOMAIN gs |-> IF n \in hit THEN DecomposeGlyph(gs, n) ELSE gs[n]],
      mod |-> hit]

\* DecomposeTransformedComponentsFilter.filter
DecomposeTransformedModel(gs, inc) ==
  LET hit == {n \in DOMAIN gs : n \in inc /\ HasTransformed(gs[n])}
  IN [gs  |-> [n \in DOMAIN gs |-> IF n \in hit THEN DecomposeGlyph(gs, n) ELSE gs[n]],
      mod |-> hit]

\* FlattenComponentsFilter: every included glyph with components is rewritten;
\* it is *reported* only when some component's first flattened tuple differs.
FlattenModel(gs, inc) ==
  LET hit == {n \in DOMAIN gs : n \in inc /\ HasComps(gs[n])}
  IN [gs  |-> [n \in DOMAIN gs |-> IF n \in hit THEN FlattenGlyph(gs, n) ELSE gs[n]],
      mod |-> {n \in hit : FlattenReports(gs, n)}]

\* SkipExportGlyphsFilter(skip): include = all
SkipExportModel(gs, skip) ==
  IF skip = {} THEN [gs |-> gs, mod |-> {}]
  ELSE [gs  |-> SkipExportSet(gs, skip),
        mod |-> {n \in DOMAIN gs : n \in skip \/ SkipTouches(gs[n], skip)}]

\* ReverseContourDirectionFilter
ReverseModel(gs, inc) ==
  LET hit == {n \in DOMAIN gs : n \in inc /\ Len(gs[n].cs) > 0}
  IN [gs  |-> [n \in DOMAIN gs |->
                 IF n \in hit THEN [gs[n] EXCEPT !.cs = [k \in 1..Len(gs[n].cs) |-> RevContour(gs[n].cs[k])]]
                 ELSE gs[n]],
      mod |-> hit]

(***************************************************************************)
(* TransformationsFilter.  opt = [ox, oy (PS), sx, sy (MS), oh (PS: origin *)
(* height), inv (the exact inverse transform, supplied by the harness and  *)
(* checked below)].  Matrix = Translate(ox,oy) . Translate(0,oh) . Scale . *)
(* Translate(0,-oh).  A glyph is transformed when it is included, or when  *)
(* it is reached by the recursion from an included glyph through a chain   *)
(* of *included* bases (filter() recurses only into included bases).       *)
(***************************************************************************)
XMatrix(o) == [m |-> <<o.sx, 0, 0, o.sy>>, d |-> <<o.ox, o.oy + o.oh - (o.sy * o.oh) \div MS>>]
IsIdentityT(t) == t = Ident
NonEmptyGlyph(g) == Len(g.cs) > 0 \/ Len(g.comps) > 0 \/ Len(g.anchors) > 0

XformTargets(gs, inc) == {n \in DOMAIN gs : n \in inc /\ NonEmptyGlyph(gs[n])}

XformGlyph(gs, n, M, Minv, targets) ==
  LET g == gs[n] IN
  [g EXCEPT
     !.cs = [k \in 1..Len(g.cs) |-> [j \in 1..Len(g.cs[k]) |-> AppPt(M, g.cs[k][j])]],
     !.comps = [k \in 1..Len(g.comps) |->
                  LET c == g.comps[k]
                      r == IF c.b \in targets
                           THEN Compose(M, Compose(Tr(c), Minv))
                           ELSE Compose(M, Tr(c))
                  IN [b |-> c.b, m |-> r.m, d |-> r.d]],
     !.anchors = [k \in 1..Len(g.anchors) |->
                    LET q == AppXY(M, g.anchors[k].x, g.anchors[k].y)
                    IN [g.anchors[k] EXCEPT !.x = q[1], !.y = q[2]]],
     !.w = AppVec(M, g.w, g.h)[1],
     !.h = AppVec(M, g.w, g.h)[2]]

TransformationsModel(gs, inc, o) ==
  LET M == XMatrix(o)
      targets == XformTargets(gs, inc)
  IN IF IsIdentityT(M) THEN [gs |-> gs, mod |-> {}]
     ELSE [gs  |-> [n \in DOMAIN gs |-> IF n \in targets THEN XformGlyph(gs, n, M, o.inv, targets) ELSE gs[n]],
           mod |-> targets]

\* map contours by a transform *without* direction reversal (what the transformations
\* filter promises: "maps the outline by exactly the requested matrix")
MapContours(t, cs) == [k \in 1..Len(cs) |-> [j \in 1..Len(cs[k]) |-> AppPt(t, cs[k][j])]]

(***************************************************************************)
(* Known finding F-C15-1: an included composite reaches an included glyph  *)
(* through a base that is NOT included; the matrix is then applied twice.  *)
(***************************************************************************)
RECURSIVE ReachesIncludedViaExcluded(_, _, _, _)
ReachesIncludedViaExcluded(gs, n, inc, k) ==
  k > 0 /\ n \in DOMAIN gs /\
  \E j \in 1..Len(gs[n].comps) :
     LET b == gs[n].comps[j].b IN
       /\ b \in DOMAIN gs
       /\ \/ (b \notin inc /\ (Reach(gs, b) \cap inc) # {})
          \/ ReachesIncludedViaExcluded(gs, b, inc, k - 1)
Known_C15_1(gs, n, inc) == ReachesIncludedViaExcluded(gs, n, inc, Cardinality(DOMAIN gs))

(***************************************************************************)
(* Declarative clauses (properties C14 / C15).                             *)
(***************************************************************************)
\* glyphs an invocation may legitimately change: included ones and everything they reference
Allowed(gs, inc) == (inc \cap DOMAIN gs) \cup UNION {Reach(gs, n) : n \in inc \cap DOMAIN gs}

Changed(before, after) ==
  {n \in DOMAIN before \cup DOMAIN after :
      n \notin DOMAIN before \/ n \notin DOMAIN after \/ before[n] # after[n]}

\* (a glyph the filter ADDS is not an outsider that was changed; it must be reported, see ReportsChanges)
OutsidersUntouched(before, after, inc) == (Changed(before, after) \cap DOMAIN before) \subseteq Allowed(before, inc)
ReportsChanges(before, after, mod) == Changed(before, after) \subseteq mod
RenderPreserved(before, after, names) == \A n \in names : n \in DOMAIN after /\ Resolve(after, n) = Resolve(before, n)
\* ---------------------------------------------------------------------------
\* Interpolatable variants (BaseIFilter.__call__): one decision per glyph NAME for
\* all masters.  ms is a sequence of glyph sets; a glyph may be missing from a
\* (sparse) master.  Without an instantiator each master is decomposed against
\* its own glyph set.
\* ---------------------------------------------------------------------------
AllNames(ms) == UNION {DOMAIN ms[k] : k \in 1..Len(ms)}
AnyMaster(ms, n, P(_)) == \E k \in 1..Len(ms) : n \in DOMAIN ms[k] /\ P(ms[k][n])
IJointModel(ms, inc, Trigger(_), Apply(_, _), Reports(_, _)) ==
  LET hit == {n \in AllNames(ms) : n \in inc /\ AnyMaster(ms, n, Trigger)}
  IN [ms  |-> [k \in 1..Len(ms) |-> [n \in DOMAIN ms[k] |-> IF n \in hit THEN Apply(ms[k], n) ELSE ms[k][n]]],
      hit |-> hit]

\* point structure of a glyph: what must agree across masters for interpolation
Struct(g) == [cs |-> [k \in 1..Len(g.cs) |-> [j \in 1..Len(g.cs[k]) |-> g.cs[k][j][3]]],
              comps |-> [k \in 1..Len(g.comps) |-> g.comps[k].b]]
SameDomains(ms) == \A a, b \in 1..Len(ms) : DOMAIN ms[a] = DOMAIN ms[b]
CompatibleMasters(ms) ==
  \A n \in AllNames(ms) : \A a, b \in 1..Len(ms) :
     (n \in DOMAIN ms[a] /\ n \in DOMAIN ms[b]) => Struct(ms[a][n]) = Struct(ms[b][n])

\* ---------------------------------------------------------------------------
\* PropagateAnchorsFilter, declaratively (property C15): anchors are only appended;
\* an appended anchor sits where an anchor of the same name (or of its stem, for
\* numbered ligature anchors) of one of the glyph's component bases lands under that
\* component's transform; it never duplicates a name the glyph already had.
\* ---------------------------------------------------------------------------
AnchorsOnlyAppended(before, after) ==
  /\ DOMAIN after = DOMAIN before
  /\ \A n \in DOMAIN before :
       /\ Len(after[n].anchors) >= Len(before[n].anchors)
       /\ [after[n] EXCEPT !.anchors = SubSeq(after[n].anchors, 1, Len(before[n].anchors))] = before[n]
NewAnchorsFollowComponents(before, after) ==
  \A n \in DOMAIN before :
    \A i \in (Len(before[n].anchors) + 1)..Len(after[n].anchors) :
      LET a == after[n].anchors[i] IN
      /\ \A j \in 1..Len(before[n].anchors) : before[n].anchors[j].n # a.n
      /\ \E k \in 1..Len(before[n].comps) :
           LET c == before[n].comps[k] IN
           c.b \in DOMAIN after /\
           \E j \in 1..Len(after[c.b].anchors) :
              LET b == after[c.b].anchors[j] IN
              (b.n = a.n \/ b.n = a.stem) /\ AppXY(Tr(c), b.x, b.y) = <<a.x, a.y>>

MaxDepth(gs) == Max({0} \cup {Depth(gs, n) : n \in DOMAIN gs})

=============================================================================
