---------------------------- MODULE MastersTrace ----------------------------
(***************************************************************************)
(* Trace acceptor for property C09 (interpolatable compilation).  Record:  *)
(*  tid, src = << glyph set per source >> (a sparse source contributes the *)
(*  glyphs of its layer), sparse = << BOOLEAN >>, default (index),          *)
(*  out = << name |-> [cs : << <<type...>> >>, comps : << "base|2x2" >>] >>   *)
(*  per compiled master, events = the IFilter / IPreStart / Cu2QuI hook     *)
(*  events that carry exact glyph sets (gss).                               *)
(***************************************************************************)
EXTENDS Filters, Json, IOUtils, TLC, TLCExt
Traces == ndJsonDeserialize(IOEnv.TRACE_FILE)
VARIABLE i
Rng(s) == {s[k] : k \in 1..Len(s)}
Has(r, f) == f \in DOMAIN r
Full(t) == SelectSeq([k \in 1..Len(t.src) |-> k], LAMBDA k : ~t.sparse[k])
FullSets(t) == [j \in 1..Len(Full(t)) |-> t.src[Full(t)[j]]]
\* structure agreement of the compiled masters: every glyph present in two masters has the same structure
\* (a sparse master may hold EMPTY placeholders for missing component bases: those are exempt)
Placeholder(t, k, n) == t.sparse[k] /\ n \notin DOMAIN t.src[k] /\ t.out[k][n] = [cs |-> <<>>, comps |-> <<>>]
OutCompatible(t) ==
  \A a, b \in 1..Len(t.out) : \A n \in (DOMAIN t.out[a]) \cap (DOMAIN t.out[b]) :
     (Placeholder(t, a, n) \/ Placeholder(t, b, n)) \/ t.out[a][n] = t.out[b][n]
\* glyphs a sparse master may contain: .notdef, its layer, composites that (transitively) use a layer glyph,
\* and everything those and the layer glyphs reference
SparseAllowed(t, k) ==
  LET dgs == t.src[t.default]
      layer == DOMAIN t.src[k]
      up == {n \in DOMAIN dgs : Reach(dgs, n) \cap layer # {}}
      down == UNION {Reach(dgs, n) : n \in (layer \cup up) \cap DOMAIN dgs}
  IN {".notdef"} \cup layer \cup up \cup down
SparseOK(t) == \A k \in 1..Len(t.src) : t.sparse[k] => (DOMAIN t.out[k]) \subseteq SparseAllowed(t, k)
FullOK(t) == \A k \in 1..Len(t.src) : ~t.sparse[k] => ((DOMAIN t.src[k]) \ Rng(t.skip)) \subseteq DOMAIN t.out[k]
\* joint decisions: consecutive exact snapshots of all working glyph sets stay compatible
StepsOK(t) == \A e \in 1..(Len(t.events) - 1) :
                 (SameDomains(t.events[e].gss) /\ CompatibleMasters(t.events[e].gss)) => CompatibleMasters(t.events[e + 1].gss)
(***************************************************************************)
(* Known finding F-C09-1: a closed contour whose closing segment is a      *)
(* ZERO-LENGTH line (last on-curve point = start point) in some masters    *)
(* only.  fontTools' PointToSegmentPen then emits the closing lineTo        *)
(* explicitly in those masters (to keep the duplicate point) and leaves it *)
(* implied in the others, so the segment structure differs.                *)
(***************************************************************************)
ClosingZero(c) ==
  LET sg == Segments(c) IN
  sg.ok /\ Len(sg.segs) >= 2 /\ sg.segs[Len(sg.segs)][1] = "line"
        /\ LET prev == sg.segs[Len(sg.segs) - 1][2] IN prev[Len(prev)] = sg.start
TieFlags(gs, n) == LET r == Resolve(gs, n) IN [k \in 1..Len(r) |-> ClosingZero(r[k]) \/ ClosingZero(RevContour(r[k]))]
\* any zero-length on-curve step (consecutive equal on-curve points) in some masters only
ZeroSteps(c) == {k \in 1..Len(c) : c[k][3] # "off" /\ c[(k % Len(c)) + 1][3] # "off" /\ c[k][1] = c[(k % Len(c)) + 1][1] /\ c[k][2] = c[(k % Len(c)) + 1][2]}
StepFlags(gs, n) == LET r == Resolve(gs, n) IN [k \in 1..Len(r) |-> ZeroSteps(r[k])]
\* glyphs whose compiled structure differs between two masters (placeholders exempt, as in OutCompatible)
BadGlyphs(t) ==
  {n \in UNION {DOMAIN t.out[k] : k \in 1..Len(t.out)} :
     \E a, b \in 1..Len(t.out) : n \in DOMAIN t.out[a] /\ n \in DOMAIN t.out[b]
                                  /\ ~(Placeholder(t, a, n) \/ Placeholder(t, b, n)) /\ t.out[a][n] # t.out[b][n]}
TieExplained(t, n) ==
  \E a, b \in 1..Len(FullSets(t)) :
     n \in DOMAIN FullSets(t)[a] /\ n \in DOMAIN FullSets(t)[b] /\ TieFlags(FullSets(t)[a], n) # TieFlags(FullSets(t)[b], n)
\* the signature is per glyph: EVERY glyph whose structure differs must itself have the closing tie in some masters only
Known_C09_1(t) == BadGlyphs(t) # {} /\ \A n \in BadGlyphs(t) : TieExplained(t, n)
(***************************************************************************)
(* Known finding F-C09-2: a composite held by a SPARSE master whose        *)
(* (flattened) component transform does not fit F2Dot14 (an entry beyond   *)
(* +-2) while the sparse master lacks one of its bases.  The TrueType      *)
(* glyph pen decomposes such a composite when the master is compiled --    *)
(* in the full masters from the real bases, in the sparse master from the  *)
(* EMPTY placeholders standing in for the missing bases: the glyph comes   *)
(* out empty there and the masters disagree.                               *)
(***************************************************************************)
Ovf(g) == \E k \in 1..Len(g.comps) : \E e \in 1..4 : (IF g.comps[k].m[e] < 0 THEN -g.comps[k].m[e] ELSE g.comps[k].m[e]) > 2 * MS
OverflowInSparse(t, n) ==
  LET dgs == t.src[t.default] IN
  /\ n \in DOMAIN dgs
  /\ \E k \in 1..Len(t.src) : /\ t.sparse[k] /\ n \in DOMAIN t.src[k] /\ HasComps(t.src[k][n])
                               /\ \E m \in Reach(dgs, n) \ {n} : m \notin DOMAIN t.src[k]
  /\ (Ovf(dgs[n]) \/ Ovf(FlattenGlyph(dgs, n)))
\* per glyph again: every glyph whose structure differs carries one of the two signatures, at least one of them this one
Known_C09_2(t) == /\ BadGlyphs(t) # {} /\ \A n \in BadGlyphs(t) : TieExplained(t, n) \/ OverflowInSparse(t, n)
                  /\ \E n \in BadGlyphs(t) : OverflowInSparse(t, n)

(***************************************************************************)
(* Per-glyph form of the same obligation for families that are NOT         *)
(* compatible glyph by glyph in their sources but are so in what they      *)
(* render: a glyph that is MIXED (contours + components) in some master is  *)
(* decomposed in every master (the joint decision the property names), so *)
(* a glyph built as two components in one master and as contour + component*)
(* in another ends up as the same contours everywhere -- and whatever      *)
(* refers to it keeps the same component list everywhere.                  *)
(***************************************************************************)
FS(t) == FullSets(t)
InAll(t, n) == \A k \in 1..Len(FS(t)) : n \in DOMAIN FS(t)[k]
OwnSame(t, n) == \A a, b \in 1..Len(FS(t)) : Struct(FS(t)[a][n]) = Struct(FS(t)[b][n])
RStruct(gs, n) == LET r == Resolve(gs, n) IN [k \in 1..Len(r) |-> [j \in 1..Len(r[k]) |-> r[k][j][3]]]
RenderSame(t, n) == \A a, b \in 1..Len(FS(t)) : RStruct(FS(t)[a], n) = RStruct(FS(t)[b], n)
MixedSomewhere(t, n) == \E k \in 1..Len(FS(t)) : IsMixed(FS(t)[k][n])
Fixable(t, n) == InAll(t, n) /\ (OwnSame(t, n) \/ (MixedSomewhere(t, n) /\ RenderSame(t, n)))
ReachAll(t, n) == {n} \cup UNION {Reach(FS(t)[k], n) : k \in 1..Len(FS(t))}
Good(t, n) == \A m \in ReachAll(t, n) : Fixable(t, m)
PerGlyphOK(t) ==
  (SameDomains(FS(t)) /\ Len(t.skip) = 0 /\ \A k \in 1..Len(t.sparse) : ~t.sparse[k]) =>
     \A n \in DOMAIN FS(t)[1] : Good(t, n) => \A a, b \in 1..Len(t.out) :
        (n \in DOMAIN t.out[a] /\ n \in DOMAIN t.out[b]) => t.out[a][n] = t.out[b][n]

Clauses(t) ==
  << <<"compiles", ~Has(t, "err")>>,
     <<"masters-stay-compatible", (~Has(t, "err") /\ SameDomains(FullSets(t)) /\ CompatibleMasters(FullSets(t))) => OutCompatible(t)>>,
     <<"jointly-fixable-glyphs-stay-compatible", ~Has(t, "err") => PerGlyphOK(t)>>,
     <<"sparse-master-glyph-set", ~Has(t, "err") => SparseOK(t)>>,
     <<"full-master-glyph-set", ~Has(t, "err") => FullOK(t)>>,
     <<"joint-decisions-per-stage", ~Has(t, "err") => StepsOK(t)>> >>
Init == i = 1
Next == /\ i <= Len(Traces)
        /\ LET t == Traces[i]  cl == Clauses(t)  bad == {k \in 1..Len(cl) : ~cl[k][2]}
           IN PrintT(<<"VERDICT", t.tid, IF bad = {} THEN "none" ELSE cl[Min(bad)][1], "none",
                       IF bad # {} /\ ~Has(t, "err") /\ Known_C09_1(t) THEN "F-C09-1"
                       ELSE IF bad # {} /\ ~Has(t, "err") /\ Known_C09_2(t) THEN "F-C09-2" ELSE "none">>)
        /\ i' = i + 1
Spec == Init /\ [][Next]_i
=============================================================================
