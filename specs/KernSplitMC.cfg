SPECIFICATION Spec
CONSTANTS
  MaxEntries = 2
INVARIANT C05
INVARIANT C05_MixedZeroOrValue
CHECK_DEADLOCK FALSE
