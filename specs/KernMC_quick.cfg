SPECIFICATION Spec
CONSTANTS
  MaxEntries = 2
  Q = 1
  GroupNames = {"y"}
INVARIANT C05_Core
INVARIANT OnePerKind
CHECK_DEADLOCK FALSE
