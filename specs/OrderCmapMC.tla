---------------------------- MODULE OrderCmapMC ----------------------------
(* Exhaustive design check: every subset of a small name repertoire, every requested order (length <= 4, duplicates,
   unknown names, ".notdef" anywhere), every assignment of code points incl. duplicates across glyphs. *)
EXTENDS OrderCmap, TLC
CONSTANT MaxReq
Pool == {".notdef", "a", "b", "B", "a.alt"}
ReqPool == Pool \cup {"zz"}
Cps == [n \in ReqPool |-> CASE n = ".notdef" -> <<46, 110>> [] n = "a" -> <<97>> [] n = "b" -> <<98>> [] n = "B" -> <<66>>
                              [] n = "a.alt" -> <<97, 46, 97>> [] n = "zz" -> <<122, 122>>]
CpPool == {65, 66, 128512}
VARIABLES pc, names, req, unicodes, order, cmap, err
vars == <<pc, names, req, unicodes, order, cmap, err>>
Init == pc = "names" /\ names = {} /\ req = <<>> /\ unicodes = <<>> /\ order = <<>> /\ cmap = <<>> /\ err = "none"
PickNames == pc = "names" /\ \E S \in SUBSET (Pool \ {".notdef"}) : names' = S \cup {".notdef"}
             /\ pc' = "req" /\ UNCHANGED <<req, unicodes, order, cmap, err>>
PickReq == pc = "req" /\ \E L \in 0..MaxReq : \E r \in [1..L -> ReqPool] : req' = r
           /\ pc' = "uni" /\ UNCHANGED <<names, unicodes, order, cmap, err>>
PickUni == pc = "uni" /\ \E u \in [names -> {<<>>, <<65>>, <<66>>, <<128512>>, <<65, 128512>>}] : unicodes' = u
           /\ pc' = "order" /\ UNCHANGED <<names, req, order, cmap, err>>
DoOrder == pc = "order" /\ order' = MakeOrder(names, req, Cps) /\ pc' = "cmap" /\ UNCHANGED <<names, req, unicodes, cmap, err>>
\* makeUnicodeToGlyphNameMapping: first declaration wins, a second one raises
RECURSIVE MapLoop(_, _, _, _)
MapLoop(ord, k, j, m) ==
  IF k > Len(ord) THEN [m |-> m, err |-> "none"]
  ELSE IF j > Len(unicodes[ord[k]]) THEN MapLoop(ord, k + 1, 1, m)
  ELSE LET cp == unicodes[ord[k]][j] IN
       IF cp \in DOMAIN m THEN [m |-> m, err |-> "InvalidFontData"]
       ELSE MapLoop(ord, k, j + 1, [c \in DOMAIN m \cup {cp} |-> IF c = cp THEN ord[k] ELSE m[c]])
DoCmap == pc = "cmap" /\ LET r == MapLoop(order, 1, 1, <<>>) IN cmap' = r.m /\ err' = r.err
          /\ pc' = "done" /\ UNCHANGED <<names, req, unicodes, order>>
Next == PickNames \/ PickReq \/ PickUni \/ DoOrder \/ DoCmap
Spec == Init /\ [][Next]_vars
C03_Order == pc \in {"cmap", "done"} => OrderOK(order, names, req, Cps)
C03_Cmap == pc = "done" => /\ (err = "InvalidFontData") <=> Conflict(unicodes, names)
                           /\ err = "none" => cmap = ExpectedMap(unicodes, names)
=============================================================================
