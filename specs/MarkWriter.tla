----------------------------- MODULE MarkWriter -----------------------------
(***************************************************************************)
(* Model of ufo2ft's MarkFeatureWriter (markFeatureWriter.py), one         *)
(* operator per method, stated on the abstract font description `t` that   *)
(* MarkTrace records carry (and MarkWriterMC builds):                      *)
(*   t.n, t.hasCats, t.q, t.group (groupMarkClasses),                      *)
(*   t.glyphs[gid+1] = [cat, anchors = << [name, key, num, isMark, x, y] >>]*)
(*   t.keysByKey / t.keysByClass : the anchor keys in the two sort orders  *)
(*   the writer uses (dictionary key / mark-class name).                   *)
(* Anchor names within a glyph are distinct (the harness marks records     *)
(* with duplicate names as not modelled).                                  *)
(*                                                                         *)
(*   _getAnchorLists        -> WIncl                                       *)
(*   _getAnchorPairs/_prune -> WPaired                                     *)
(*   _groupMarkGlyphsByAnchor / _makeMarkClassDefinitions -> WIsMark,      *)
(*                             WClass, WClasses                            *)
(*   _makeMarkToBaseAttachments -> WBaseAtt                                *)
(*   _makeMarkToLigaAttachments -> WLigAtt (NULL anchors reset a component)*)
(*   _makeMarkToMarkAttachments -> WMkmkAtt                                *)
(*   _groupAttachments / _groupMarkClasses / colorGraph -> WLookups        *)
(* and the attachment the generated lookups produce for a pair, under the  *)
(* OpenType rule that the last applying lookup wins: WAttach.              *)
(***************************************************************************)
EXTENDS Integers, Sequences, FiniteSets, FiniteSetsExt, SequencesExt, UfoKerning, TLC

WG(t, g) == t.glyphs[g + 1]
WA(t, g) == WG(t, g).anchors
WAll(t) == 0..(t.n - 1)
WQ(t, v4) == Quant(v4, t.q)
RankIn(order, k) == CHOOSE i \in 1..Len(order) : order[i] = k

\* ---- _getAnchorLists: with glyph classes, only base / ligature / mark glyphs take part ---------------------
WIncl(t, g) == ~t.hasCats \/ WG(t, g).cat \in {"base", "ligature", "mark"}
WInclSet(t) == {g \in WAll(t) : WIncl(t, g)}
MarkIdx(t, g) == {i \in 1..Len(WA(t, g)) : WA(t, g)[i].isMark}
BaseIdx(t, g) == {i \in 1..Len(WA(t, g)) : ~WA(t, g)[i].isMark /\ WA(t, g)[i].key # ""}
MarkKeysOf(t, g) == {WA(t, g)[i].key : i \in MarkIdx(t, g)}

\* ---- _getAnchorPairs / _pruneUnusedAnchors: a key attaches when both sides exist somewhere ------------------
WPaired(t) == (UNION {MarkKeysOf(t, g) : g \in WInclSet(t)}) \cap
              (UNION {{WA(t, g)[i].key : i \in BaseIdx(t, g)} : g \in WInclSet(t)})

\* ---- the writer's plan, computed once per font ---------------------------------------------------------------
\* P.paired, P.marks (mark glyphs), P.class[k] (members of mark class k), P.classes
WPlan0(t) ==
  LET paired == WPaired(t)
      marks == {g \in WInclSet(t) : (t.hasCats => WG(t, g).cat = "mark") /\ MarkKeysOf(t, g) \cap paired # {}}
      class == [k \in paired |-> {g \in marks : k \in MarkKeysOf(t, g)}]
  IN [paired |-> paired, marks |-> marks, class |-> class, classes |-> {k \in paired : class[k] # {}}]

\* ---- _makeMarkToBaseAttachments: glyph -> keys of its plain anchors that have a mark class ------------------
WBaseKeys(t, P, g) ==
  IF g \notin WInclSet(t) \/ g \in P.marks \/ (t.hasCats /\ WG(t, g).cat # "base") THEN {}
  ELSE {WA(t, g)[i].key : i \in {i \in BaseIdx(t, g) : WA(t, g)[i].num = 0 /\ WA(t, g)[i].key \in P.classes}}
\* ---- _makeMarkToMarkAttachments ----------------------------------------------------------------------------
WMkmkKeys(t, P, g) ==
  IF g \notin P.marks THEN {}
  ELSE {WA(t, g)[i].key : i \in {i \in BaseIdx(t, g) : WA(t, g)[i].num = 0 /\ WA(t, g)[i].key \in P.classes}}
\* ---- _makeMarkToLigaAttachments: numbered anchors in source order; an anchor '_N' resets component N ---------
RECURSIVE LigFold(_, _, _, _)
LigFold(a, i, classes, acc) ==       \* acc: [present |-> set of numbers, comp |-> [number -> set of keys]]
  IF i > Len(a) THEN acc
  ELSE LET x == a[i] IN
       IF x.isMark \/ x.num = 0 \/ (x.key # "" /\ x.key \notin classes) THEN LigFold(a, i + 1, classes, acc)
       ELSE LET old == IF x.num \in acc.present THEN acc.comp[x.num] ELSE {}
                new == IF x.key = "" THEN {} ELSE old \cup {x.key}
            IN LigFold(a, i + 1, classes,
                       [present |-> acc.present \cup {x.num},
                        comp |-> [n \in acc.present \cup {x.num} |-> IF n = x.num THEN new ELSE acc.comp[n]]])
WLigComps(t, P, g) ==                \* <<>> when the glyph takes no ligature attachment
  IF g \notin WInclSet(t) \/ g \in P.marks \/ (t.hasCats /\ WG(t, g).cat # "ligature") THEN <<>>
  ELSE LET f == LigFold(WA(t, g), 1, P.classes, [present |-> {}, comp |-> <<>>]) IN
       IF f.present = {} THEN <<>>
       ELSE [n \in 1..Max(f.present) |-> IF n \in f.present THEN f.comp[n] ELSE {}]

\* ---- _groupAttachments ---------------------------------------------------------------------------------------
\* atts: set of key sets (one per attachment).  Result: sequence of sets of keys = the lookups in order.
LexLess(a, b) == \/ \E i \in 1..Min({Len(a), Len(b)}) : a[i] < b[i] /\ \A j \in 1..(i - 1) : a[j] = b[j]
                 \/ Len(a) < Len(b) /\ \A j \in 1..Len(a) : a[j] = b[j]
RECURSIVE Colour(_, _, _, _)
Colour(nodes, edges, i, col) ==      \* colorGraph: greedy over the nodes in sorted order
  IF i > Len(nodes) THEN col
  ELSE LET used == {col[j] : j \in {j \in 1..(i - 1) : <<nodes[i], nodes[j]>> \in edges}}
           c == CHOOSE c \in 0..i : c \notin used /\ \A d \in 0..(c - 1) : d \in used
       IN Colour(nodes, edges, i + 1, Append(col, c))
SortKey(k) == IF k = "bottom" THEN -2 ELSE IF k = "top" THEN -1 ELSE 0
WLookups(t, P, atts) ==
  IF ~t.group
  THEN \* one lookup per mark class, sorted by key: a more specific class ('top.alt' after 'top') is applied last
       LET ks == SelectSeq(t.keysByKey, LAMBDA k : k \in P.classes) IN [i \in 1..Len(ks) |-> {ks[i]}]
  ELSE LET ref == UNION atts
           nodes == SelectSeq(t.keysByClass, LAMBDA k : k \in ref)
           edges == {e \in ref \X ref : e[1] # e[2] /\ P.class[e[1]] \cap P.class[e[2]] # {}}
           col == Colour(nodes, edges, 1, <<>>)
           groups == {SelectSeq([i \in 1..Len(nodes) |-> IF col[i] = c THEN i ELSE 0], LAMBDA x : x # 0) : c \in {col[i] : i \in 1..Len(nodes)}}
           prim(gr) == -Min({SortKey(nodes[gr[i]]) : i \in 1..Len(gr)})
           less(a, b) == prim(a) < prim(b) \/ (prim(a) = prim(b) /\ LexLess(a, b))
           sorted == SetToSortSeq(groups, less)
       IN [i \in 1..Len(sorted) |-> {nodes[sorted[i][j]] : j \in 1..Len(sorted[i])}]

WPlan(t) ==
  LET P == WPlan0(t)
      baseK == [g \in WAll(t) |-> WBaseKeys(t, P, g)]
      mkmkK == [g \in WAll(t) |-> WMkmkKeys(t, P, g)]
      ligC == [g \in WAll(t) |-> WLigComps(t, P, g)]
      ligK == [g \in WAll(t) |-> UNION {ligC[g][n] : n \in 1..Len(ligC[g])}]
  IN [paired |-> P.paired, marks |-> P.marks, class |-> P.class, classes |-> P.classes,
      baseK |-> baseK, mkmkK |-> mkmkK, ligC |-> ligC,
      baseL |-> WLookups(t, P, {baseK[g] : g \in {g \in WAll(t) : baseK[g] # {}}}),
      ligL |-> WLookups(t, P, {ligK[g] : g \in {g \in WAll(t) : ligK[g] # {}}}),
      \* one mark-to-mark lookup per key, sorted by key
      mkmkL |-> LET ks == SelectSeq(t.keysByKey, LAMBDA k : k \in P.classes) IN [i \in 1..Len(ks) |-> {ks[i]}]]

\* ---- what the lookups do to a pair ------------------------------------------------------------------------------
AnchorOf(t, g, key, num, isMark) ==
  WA(t, g)[CHOOSE i \in 1..Len(WA(t, g)) : WA(t, g)[i].key = key /\ WA(t, g)[i].num = num /\ WA(t, g)[i].isMark = isMark]
Offset(t, b, num, m, k) ==
  LET ab == AnchorOf(t, b, k, num, FALSE)  am == AnchorOf(t, m, k, 0, TRUE)
  IN <<TRUE, WQ(t, ab.x) - WQ(t, am.x), WQ(t, ab.y) - WQ(t, am.y)>>
\* lookups L (sequence of key sets); bearer offers the keys `offered`; the last lookup with an applying class wins
LastWins(t, P, L, offered, b, num, m) ==
  LET app(i) == {k \in L[i] : k \in offered /\ m \in P.class[k]}
      hits == {i \in 1..Len(L) : app(i) # {}}
  IN IF hits = {} THEN <<FALSE, 0, 0>> ELSE Offset(t, b, num, m, CHOOSE k \in app(Max(hits)) : TRUE)
WAttach(t, P, kind, b, comp, m) ==
  CASE kind = "base" -> LastWins(t, P, P.baseL, P.baseK[b], b, 0, m)
    [] kind = "mark" -> LastWins(t, P, P.mkmkL, P.mkmkK[b], b, 0, m)
    [] kind = "lig"  -> IF comp < 1 \/ comp > Len(P.ligC[b]) THEN <<FALSE, 0, 0>> ELSE LastWins(t, P, P.ligL, P.ligC[b][comp], b, comp, m)

\* a mark glyph is in at most one class of a lookup (otherwise feaLib rejects the feature file)
NoConflict(P, L) == \A i \in 1..Len(L) : \A k1, k2 \in L[i] : k1 # k2 => P.class[k1] \cap P.class[k2] = {}
=============================================================================
