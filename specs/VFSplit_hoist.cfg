SPECIFICATION Spec
CONSTANTS
  PerVF = FALSE
  HoistDefault = TRUE
  Discs = {0, 1}
  Positions = {0, 1, 2}
  MaxVFs = 2
CHECK_DEADLOCK FALSE
INVARIANT BaseIsOwnDefault
