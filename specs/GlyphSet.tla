------------------------------ MODULE GlyphSet ------------------------------
(***************************************************************************)
(* Glyph sets and the component algebra of ufo2ft's filters.               *)
(* A glyph set is a function  name |-> glyph  with                         *)
(*   glyph = [cs : Seq(contour), comps : Seq(component), anchors, w, h, u] *)
(*   component = [b : name, m : <<xx,xy,yx,yy>>, d : <<dx,dy>>]           *)
(* Every operator here is a transcription of what the code does           *)
(* (util.decomposeCompositeGlyph + fontTools DecomposingFilterPointPen,    *)
(* filters/flattenComponents._flattenComponent, filters/skipExportGlyphs, *)
(* util.getMaxComponentDepth) or the declarative notion the properties    *)
(* use (Resolve = what the glyph renders).                                 *)
(***************************************************************************)
EXTENDS Geometry

Names(gs) == DOMAIN gs

(***************************************************************************)
(* Resolve: the glyph's own contours, then for each component in order the *)
(* resolved contours of its base mapped by the composed transform, depth   *)
(* first; a contour is reversed iff the composed transform flips.          *)
(* A missing base contributes nothing (the harness never generates one     *)
(* for compiles, where the code raises).                                   *)
(***************************************************************************)
RECURSIVE ResolveT(_, _, _)
ResolveT(gs, n, t) ==
  IF n \notin DOMAIN gs THEN <<>>
  ELSE LET g == gs[n] IN
       [k \in 1..Len(g.cs) |-> TContour(t, g.cs[k])]
       \o FlattenSeq([k \in 1..Len(g.comps) |->
                        ResolveT(gs, g.comps[k].b, Compose(t, Tr(g.comps[k])))])

Resolve(gs, n) == ResolveT(gs, n, Ident)

\* decomposition WITHOUT direction compensation: what fontTools' TTGlyphPointPen does when it has to
\* decompose a composite whose 2x2 overflows F2Dot14 (the rasteriser would not reverse either)
RECURSIVE ResolveNoRevT(_, _, _)
ResolveNoRevT(gs, n, t) ==
  IF n \notin DOMAIN gs THEN <<>>
  ELSE LET g == gs[n] IN
       [k \in 1..Len(g.cs) |-> [j \in 1..Len(g.cs[k]) |-> AppPt(t, g.cs[k][j])]]
       \o FlattenSeq([k \in 1..Len(g.comps) |->
                        ResolveNoRevT(gs, g.comps[k].b, Compose(t, Tr(g.comps[k])))])
ResolveNoRev(gs, n) == ResolveNoRevT(gs, n, Ident)

\* util.getMaxComponentDepth (acyclic inputs)
RECURSIVE Depth(_, _)
Depth(gs, n) ==
  IF n \notin DOMAIN gs \/ Len(gs[n].comps) = 0 THEN 0
  ELSE 1 + Max({0} \cup {Depth(gs, gs[n].comps[k].b) : k \in 1..Len(gs[n].comps)})

\* cyclic reference reachable from n (bounded by the number of glyphs)
RECURSIVE ReachN(_, _, _)
ReachN(gs, n, k) ==
  IF k = 0 \/ n \notin DOMAIN gs THEN {}
  ELSE LET bs == {gs[n].comps[j].b : j \in 1..Len(gs[n].comps)}
       IN bs \cup UNION {ReachN(gs, b, k - 1) : b \in bs}
Reach(gs, n) == ReachN(gs, n, Cardinality(DOMAIN gs))
Cyclic(gs) == \E n \in DOMAIN gs : n \in Reach(gs, n)
Bases(gs, n) == {gs[n].comps[j].b : j \in 1..Len(gs[n].comps)}
Dangling(gs) == \E n \in DOMAIN gs : ~(Bases(gs, n) \subseteq DOMAIN gs)

\* full decomposition of one glyph against glyph set gs
DecomposeGlyph(gs, n) == [gs[n] EXCEPT !.cs = Resolve(gs, n), !.comps = <<>>]

HasComps(g) == Len(g.comps) > 0
IsMixed(g)  == Len(g.comps) > 0 /\ Len(g.cs) > 0
IsTransformedComp(c) == c.m # <<MS, 0, 0, MS>>
HasTransformed(g) == \E k \in 1..Len(g.comps) : IsTransformedComp(g.comps[k])

(***************************************************************************)
(* FlatComp: filters/flattenComponents._flattenComponent.  Stops at simple *)
(* or mixed glyphs and composes the transforms on the way up:              *)
(*   Transform(c).translate(tr.dx, tr.dy).transform((tr 2x2, 0, 0))       *)
(* which is Compose(c, tr).                                                *)
(***************************************************************************)
SimpleOrMixed(g) == Len(g.comps) = 0 \/ Len(g.cs) > 0
RECURSIVE FlatComp(_, _)
FlatComp(gs, c) ==
  LET g == gs[c.b] IN
  IF SimpleOrMixed(g) THEN <<c>>
  ELSE FlattenSeq([k \in 1..Len(g.comps) |->
         LET fl == FlatComp(gs, g.comps[k])
         IN [j \in 1..Len(fl) |->
               LET r == Compose(Tr(c), Tr(fl[j])) IN [b |-> fl[j].b, m |-> r.m, d |-> r.d]]])

FlattenGlyph(gs, n) ==
  [gs[n] EXCEPT !.comps = FlattenSeq([k \in 1..Len(gs[n].comps) |-> FlatComp(gs, gs[n].comps[k])])]
\* what _flattenGlyphComponents reports
FlattenReports(gs, n) ==
  \E k \in 1..Len(gs[n].comps) : FlatComp(gs, gs[n].comps[k])[1] # gs[n].comps[k]

(***************************************************************************)
(* Exp: SkipExportGlyphsFilter = decomposeCompositeGlyph(include = skip,   *)
(* decomposeNested = False): a reference to a skipped glyph is replaced by *)
(* that glyph's content; nested references are re-examined with the same   *)
(* include set and pass through (transform composed) when not skipped.     *)
(***************************************************************************)
RECURSIVE Exp(_, _, _, _)
Exp(gs, b, t, skip) ==
  IF b \notin skip \/ b \notin DOMAIN gs
  THEN [cs |-> <<>>, comps |-> << [b |-> b, m |-> t.m, d |-> t.d] >>]
  ELSE LET g == gs[b]
           subs == [k \in 1..Len(g.comps) |-> Exp(gs, g.comps[k].b, Compose(t, Tr(g.comps[k])), skip)]
       IN [cs    |-> [k \in 1..Len(g.cs) |-> TContour(t, g.cs[k])]
                     \o FlattenSeq([k \in 1..Len(subs) |-> subs[k].cs]),
           comps |-> FlattenSeq([k \in 1..Len(subs) |-> subs[k].comps])]

SkipTouches(g, skip) == \E k \in 1..Len(g.comps) : g.comps[k].b \in skip
SkipExportGlyph(gs, n, skip) ==
  LET g == gs[n]
      ex == [k \in 1..Len(g.comps) |-> Exp(gs, g.comps[k].b, Tr(g.comps[k]), skip)]
  IN IF ~SkipTouches(g, skip) THEN g
     ELSE [g EXCEPT !.cs = g.cs \o FlattenSeq([k \in 1..Len(ex) |-> ex[k].cs]),
                    !.comps = FlattenSeq([k \in 1..Len(ex) |-> ex[k].comps])]
SkipExportSet(gs, skip) ==
  [n \in (DOMAIN gs) \ skip |-> SkipExportGlyph(gs, n, skip)]

\* multiset equality of two sequences
SameBag(s, t) ==
  /\ Len(s) = Len(t)
  /\ \A x \in Range(s) \cup Range(t) :
        Cardinality({i \in 1..Len(s) : s[i] = x}) = Cardinality({i \in 1..Len(t) : t[i] = x})

=============================================================================
