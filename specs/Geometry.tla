------------------------------ MODULE Geometry ------------------------------
(***************************************************************************)
(* Exact affine geometry of ufo2ft's glyph algebra on scaled integers.     *)
(*   points, offsets, widths : integers at scale PS = 1024                 *)
(*   2x2 matrix entries       : integers at scale MS = 64                  *)
(* A transform is [m |-> <<xx, xy, yx, yy>>, d |-> <<dx, dy>>] in the       *)
(* fontTools convention  x' = xx*x + yx*y + dx,  y' = xy*x + yy*y + dy.    *)
(* A point is <<x, y, t>> with t \in {"line","curve","qcurve","off","move"}*)
(* The harness only emits inputs for which every \div below is exact.      *)
(***************************************************************************)
EXTENDS Integers, Sequences, FiniteSets, SequencesExt, FiniteSetsExt

PS == 1024
MS == 64

Ident == [m |-> <<MS, 0, 0, MS>>, d |-> <<0, 0>>]
Tr(c) == [m |-> c.m, d |-> c.d]

AppXY(t, x, y) == << (t.m[1]*x + t.m[3]*y) \div MS + t.d[1],
                     (t.m[2]*x + t.m[4]*y) \div MS + t.d[2] >>
AppPt(t, p) == LET q == AppXY(t, p[1], p[2]) IN <<q[1], q[2], p[3]>>
\* vectors ignore the offset (Transform.transformVector)
AppVec(t, x, y) == << (t.m[1]*x + t.m[3]*y) \div MS, (t.m[2]*x + t.m[4]*y) \div MS >>

Det(t) == t.m[1]*t.m[4] - t.m[2]*t.m[3]

\* Compose(o, i): apply i first, then o   ( == Transform(o).transform(i) in fontTools )
Compose(o, i) ==
  [m |-> << (o.m[1]*i.m[1] + o.m[3]*i.m[2]) \div MS, (o.m[2]*i.m[1] + o.m[4]*i.m[2]) \div MS,
            (o.m[1]*i.m[3] + o.m[3]*i.m[4]) \div MS, (o.m[2]*i.m[3] + o.m[4]*i.m[4]) \div MS >>,
   d |-> AppXY(o, i.d[1], i.d[2])]

Translate(dx, dy) == [m |-> <<MS, 0, 0, MS>>, d |-> <<dx, dy>>]

\* Exact rounding: floor(n/d + 1/2), halves towards +infinity (fontTools otRound)
OtRound(n, d) == (2*n + d) \div (2*d)
Abs(x) == IF x < 0 THEN -x ELSE x
\* rounding of a PS-scaled value to a PS-scaled value, tolerance tolS at scale PS
\*   (tol = 0: identity; tol >= 1/2: otRound; else round only when within tolerance)
RoundTol(v, tolS) ==
  LET r == PS * OtRound(v, PS)
  IN IF tolS = 0 THEN v
     ELSE IF 2*tolS >= PS THEN r
     ELSE IF Abs(r - v) <= tolS THEN r ELSE v
RoundInt(v) == OtRound(v, PS)            \* PS-scaled -> plain integer

IsOn(p) == p[3] # "off"

(***************************************************************************)
(* Contour reversal at point level, transcribed from                       *)
(* fontTools.pens.pointPen.ReverseContourPointPen._flushContour            *)
(* (closed contours: the first point stays first, segment types move to    *)
(* the other end of their segment; open contours: leading off-curves of    *)
(* the reversed list are dropped and it starts with a "move").             *)
(***************************************************************************)
RevContour(c) ==
  IF Len(c) = 0 THEN c
  ELSE
  LET n == Len(c)
      closed == c[1][3] # "move"
      rot == IF closed THEN Tail(c) \o <<c[1]>> ELSE c
      on  == {i \in 1..n : IsOn(rot[i])}
      rv0 == [k \in 1..n |-> rot[n + 1 - k]]
      \* open paths: drop leading off-curves of the reversed list
      lead == IF closed \/ on = {} THEN 0
              ELSE Min({k \in 1..n : IsOn(rv0[k])}) - 1
      rv == SubSeq(rv0, lead + 1, n)
      first == IF ~closed THEN "move"
               ELSE IF on = {} THEN "off" ELSE rot[Min(on)][3]
      PrevOn(k) == {j \in 1..(k-1) : IsOn(rv[j])}
      T(k) == IF ~IsOn(rv[k]) THEN "off"
              ELSE IF PrevOn(k) = {} THEN first ELSE rv[Max(PrevOn(k))][3]
  IN [k \in 1..Len(rv) |-> <<rv[k][1], rv[k][2], T(k)>>]

\* transform a contour; reversed when the transform flips orientation
TContour(t, c) ==
  LET moved == [k \in 1..Len(c) |-> AppPt(t, c[k])]
  IN IF Det(t) < 0 THEN RevContour(moved) ELSE moved

(***************************************************************************)
(* Segment normal form of a closed contour (PointToSegmentPen semantics):  *)
(* rotate so the contour ends with its first on-curve point; the result is *)
(* <<start, segs>> with segs a sequence of <<type, <<pts...>>>> where pts   *)
(* are the off-curve points followed by the on-curve end point.            *)
(* Contours without on-curve points are outside the domain.                *)
(***************************************************************************)
RECURSIVE SegSplit(_, _, _)
SegSplit(pts, k, acc) ==
  IF k > Len(pts) THEN <<>>
  ELSE IF IsOn(pts[k])
       THEN << <<pts[k][3], Append(acc, <<pts[k][1], pts[k][2]>>)>> >> \o SegSplit(pts, k + 1, <<>>)
       ELSE SegSplit(pts, k + 1, Append(acc, <<pts[k][1], pts[k][2]>>))

Segments(c) ==
  LET n == Len(c)
      on == {i \in 1..n : IsOn(c[i])}
  IN IF on = {} THEN [start |-> <<0, 0>>, segs |-> <<>>, ok |-> FALSE]
     ELSE IF c[1][3] = "move"
          THEN [start |-> <<c[1][1], c[1][2]>>, segs |-> SegSplit(c, 2, <<>>), ok |-> TRUE, closed |-> FALSE]
          ELSE LET f == Min(on)
                   rot == SubSeq(c, f + 1, n) \o SubSeq(c, 1, f)
               IN [start |-> <<c[f][1], c[f][2]>>, segs |-> SegSplit(rot, 1, <<>>), ok |-> TRUE, closed |-> TRUE]

\* drop the closing line segment of a closed contour when it ends at the start point
\* (it is implied by closePath); applied to both sides of a comparison
DropClosingLine(sg) ==
  IF Len(sg.segs) > 0 /\ sg.segs[Len(sg.segs)][1] = "line"
     /\ sg.segs[Len(sg.segs)][2][1] = sg.start
  THEN [sg EXCEPT !.segs = SubSeq(sg.segs, 1, Len(sg.segs) - 1)]
  ELSE sg

=============================================================================
