---------------------------- MODULE LayoutTrace ----------------------------
(***************************************************************************)
(* Trace acceptor for property C20 on the compiled ScriptList.             *)
(* Record: tid, n, glyphs[gid+1] = [scripts], tags = <<[tag, script]>>,    *)
(* declared = script tags named by languagesystem statements, F.           *)
(***************************************************************************)
EXTENDS OTPos, Json, IOUtils, TLC, TLCExt
Traces == ndJsonDeserialize(IOEnv.TRACE_FILE)
VARIABLE i
G(t, g) == t.glyphs[g + 1]
PosTags == {"mark", "mkmk", "curs", "abvm", "blwm"}
AllFeatureTags(t) == {t.F.gpos.features[k].tag : k \in 1..Len(t.F.gpos.features)}
\* lookups of any feature with tag T (whatever script)
LookupsOfTag(t, T) == UNION {Rng(t.F.gpos.features[k].lookups) : k \in {k \in 1..Len(t.F.gpos.features) : t.F.gpos.features[k].tag = T}}
\* glyphs a positioning lookup acts on as anchor bearers / cursive participants
Bearers(lk) == UNION {CASE st.k = "mb" -> {st.bases[k][1] : k \in 1..Len(st.bases)}
                        [] st.k = "mm" -> {st.bases[k][1] : k \in 1..Len(st.bases)}
                        [] st.k = "ml" -> {st.ligs[k][1] : k \in 1..Len(st.ligs)}
                        [] st.k = "curs" -> {st.recs[k][1] : k \in 1..Len(st.recs)}
                        [] OTHER -> {} : st \in Rng(lk.subs)}
ActsOn(t, T, script) == \E li \in LookupsOfTag(t, T) : \E g \in Bearers(t.F.gpos.lookups[li + 1]) : script \in Rng(G(t, g).scripts)
\* EVERY language system of the script (the default one and each LangSysRecord) is examined
MissingIn(t, k, T) == {lang \in Languages(t.F, t.tags[k].tag) :
                         /\ FeatureTags(t.F, t.tags[k].tag, lang) \cap {"kern", "dist"} # {}
                         /\ T \notin FeatureTags(t.F, t.tags[k].tag, lang)}
Missing(t) == {<<k, T>> \in (1..Len(t.tags)) \X (PosTags \cap AllFeatureTags(t)) :
                 /\ t.tags[k].tag # "DFLT"
                 /\ ActsOn(t, T, t.tags[k].script)
                 /\ MissingIn(t, k, T) # {}}
\* all language systems of one script expose the same generated positioning features (kerning included)
GenTags == PosTags \cup {"kern", "dist"}
LangsAgree(t) == \A k \in 1..Len(t.tags) : \A l1, l2 \in Languages(t.F, t.tags[k].tag) :
                    FeatureTags(t.F, t.tags[k].tag, l1) \cap GenTags = FeatureTags(t.F, t.tags[k].tag, l2) \cap GenTags
\* Known finding F-C20-1: the script is not named by a languagesystem statement although the font EXPORTS a glyph with a
\* code point that belongs to that script alone (that is how the kern writer legitimately learns about the script)
Known(t, x) == /\ t.tags[x[1]].tag \notin Rng(t.declared)
               /\ \E g \in 0..(t.n - 1) : t.tags[x[1]].script \in Rng(G(t, g).single)
Init == i = 1
Next == /\ i <= Len(Traces)
        /\ LET t == Traces[i]  bad == {x \in Missing(t) : ~Known(t, x)}  kn == {x \in Missing(t) : Known(t, x)}
           IN PrintT(<<"VERDICT", t.tid, IF bad # {} THEN "positioning-reachable-where-kerning-is"
                                        ELSE IF ~LangsAgree(t) THEN "language-systems-of-a-script-agree" ELSE "none", "none",
                       Cardinality(kn), ToString(bad)>>)
        /\ i' = i + 1
Spec == Init /\ [][Next]_i
=============================================================================
