---------------------------- MODULE LayoutTrace ----------------------------
(***************************************************************************)
(* Trace acceptor for property C20 on the compiled ScriptList.             *)
(* Record: tid, n, glyphs[gid+1] = [scripts], tags = <<[tag, script]>>,    *)
(* declared = script tags named by languagesystem statements, F.           *)
(***************************************************************************)
EXTENDS OTPos, Json, IOUtils, TLC, TLCExt
Traces == ndJsonDeserialize(IOEnv.TRACE_FILE)
VARIABLE i
G(t, g) == t.glyphs[g + 1]
PosTags == {"mark", "mkmk", "curs", "abvm", "blwm"}
AllLangsOf(t) == UNION {Languages(t.F, t.tags[k].tag) : k \in 1..Len(t.tags)}
AllFeatureTags(t) == {t.F.gpos.features[k].tag : k \in 1..Len(t.F.gpos.features)}
\* lookups of any feature with tag T (whatever script)
LookupsOfTag(t, T) == UNION {Rng(t.F.gpos.features[k].lookups) : k \in {k \in 1..Len(t.F.gpos.features) : t.F.gpos.features[k].tag = T}}
\* glyphs a positioning lookup acts on as anchor bearers / cursive participants
Bearers(lk) == UNION {CASE st.k = "mb" -> {st.bases[k][1] : k \in 1..Len(st.bases)}
                        [] st.k = "mm" -> {st.bases[k][1] : k \in 1..Len(st.bases)}
                        [] st.k = "ml" -> {st.ligs[k][1] : k \in 1..Len(st.ligs)}
                        [] st.k = "curs" -> {st.recs[k][1] : k \in 1..Len(st.recs)}
                        [] OTHER -> {} : st \in Rng(lk.subs)}
ActsOn(t, T, script) == \E li \in LookupsOfTag(t, T) : \E g \in Bearers(t.F.gpos.lookups[li + 1]) : script \in Rng(G(t, g).scripts)
\* EVERY language system of the script (the default one and each LangSysRecord) is examined
Missing(t) == {x \in (1..Len(t.tags)) \X (PosTags \cap AllFeatureTags(t)) \X AllLangsOf(t) :
                 LET k == x[1]  T == x[2]  lang == x[3] IN
                 /\ t.tags[k].tag # "DFLT"
                 /\ lang \in Languages(t.F, t.tags[k].tag)
                 /\ ActsOn(t, T, t.tags[k].script)
                 /\ FeatureTags(t.F, t.tags[k].tag, lang) \cap {"kern", "dist"} # {}
                 /\ T \notin FeatureTags(t.F, t.tags[k].tag, lang)}
\* the same for generated kerning itself: a kern / dist lookup whose first-glyph coverage holds a glyph that belongs to the
\* script ALONE positions that script's text, so every language system of the script that exposes a generated positioning
\* feature exposes that kerning feature too
FirstGlyphs(lk) == UNION {IF st.k \in {"pp1", "pp2"} THEN Rng(st.cov) ELSE {} : st \in Rng(lk.subs)}
KernActsOn(t, T, script) == \E li \in LookupsOfTag(t, T) : \E g \in FirstGlyphs(t.F.gpos.lookups[li + 1]) : script \in Rng(G(t, g).single)
MissingKern(t) == {x \in (1..Len(t.tags)) \X ({"kern", "dist"} \cap AllFeatureTags(t)) \X AllLangsOf(t) :
                     LET k == x[1]  T == x[2]  lang == x[3] IN
                     /\ t.tags[k].tag # "DFLT"
                     /\ lang \in Languages(t.F, t.tags[k].tag)
                     /\ KernActsOn(t, T, t.tags[k].script)
                     /\ FeatureTags(t.F, t.tags[k].tag, lang) \cap PosTags # {}
                     /\ T \notin FeatureTags(t.F, t.tags[k].tag, lang)}
DeclaredPair(t, tag, lang) == \E j \in 1..Len(t.declaredPairs) : t.declaredPairs[j][1] = tag /\ t.declaredPairs[j][2] = lang
\* all language systems of one script expose the same generated positioning features (kerning included)
GenTags == PosTags \cup {"kern", "dist"}
\* (language systems the feature file DECLARES; one that only the kern writer's registration created is finding F-C20-1)
LangsAgree(t) == \A k \in 1..Len(t.tags) : \A l1, l2 \in {l \in Languages(t.F, t.tags[k].tag) : DeclaredPair(t, t.tags[k].tag, l)} :
                    FeatureTags(t.F, t.tags[k].tag, l1) \cap GenTags = FeatureTags(t.F, t.tags[k].tag, l2) \cap GenTags
\* Known finding F-C20-1: the (script, language) system is not named by a languagesystem statement -- the kern writer registers
\* its lookups under the script's default language system regardless -- although the font EXPORTS a glyph with a
\* code point that belongs to that script alone (that is how the kern writer legitimately learns about the script)
Known(t, x) == /\ ~DeclaredPair(t, t.tags[x[1]].tag, x[3])
               /\ \E g \in 0..(t.n - 1) : t.tags[x[1]].script \in Rng(G(t, g).single)
Init == i = 1
Next == /\ i <= Len(Traces)
        /\ LET t == Traces[i]  bad == {x \in Missing(t) : ~Known(t, x)}  kn == {x \in Missing(t) : Known(t, x)}
               badk == {x \in MissingKern(t) : DeclaredPair(t, t.tags[x[1]].tag, x[3])}
           IN PrintT(<<"VERDICT", t.tid, IF bad # {} THEN "positioning-reachable-where-kerning-is"
                                        ELSE IF badk # {} THEN "kerning-reachable-where-it-acts"
                                        ELSE IF ~LangsAgree(t) THEN "language-systems-of-a-script-agree" ELSE "none", "none",
                       Cardinality(kn), ToString(IF bad # {} THEN bad ELSE badk)>>)
        /\ i' = i + 1
Spec == Init /\ [][Next]_i
=============================================================================
