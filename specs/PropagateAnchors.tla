-------------------------- MODULE PropagateAnchors --------------------------
(***************************************************************************)
(* Functional model of filters/propagateAnchors.py                         *)
(*   _propagate_glyph_anchors / _get_anchor_data / _adjust_anchors /       *)
(*   _component_closest_to_origin                                          *)
(* on abstract glyph sets.  Anchor names are strings; what the algorithm   *)
(* asks about them (prefix, leading underscore, "_" + name, sort order) is *)
(* answered on their code point sequences, supplied as                     *)
(*   env.cps   : name |-> code points (all names of the glyph set and the  *)
(*               numbered names name_1 .. name_9 the filter can create)    *)
(*   env.marks : glyph names of category "mark" (public.openTypeCategories)*)
(*   env.ligmark : glyph names that do not start with "_" but contain one  *)
(* The model is total on every input except where the code's answer is not *)
(* a function of the abstract state: curve extrema (bounds of components   *)
(* with off-curve points), an empty mark component (the code raises), and  *)
(* two anchor names that generate the same key (the winner depends on set  *)
(* iteration order).  Modelled(gs, env, n) is FALSE there.                 *)
(***************************************************************************)
EXTENDS GlyphSet, TLC

Cps(env, s) == IF s \in DOMAIN env.cps THEN env.cps[s] ELSE <<>>
IsPrefixName(env, p, s) == LET a == Cps(env, p)  b == Cps(env, s) IN Len(a) <= Len(b) /\ SubSeq(b, 1, Len(a)) = a
LeadingUnderscore(env, s) == Len(Cps(env, s)) > 0 /\ Cps(env, s)[1] = 95
IsAttachingFor(env, m, s) == Cps(env, m) = <<95>> \o Cps(env, s)            \* m = "_" + s
\* Python's str ordering: lexicographic on code points
LexLess(a, b) ==
  LET n == IF Len(a) < Len(b) THEN Len(a) ELSE Len(b)
      diff == {k \in 1..n : a[k] # b[k]}
  IN IF diff = {} THEN Len(a) < Len(b) ELSE a[Min(diff)] < b[Min(diff)]
NameLess(env, s, t) == LexLess(Cps(env, s), Cps(env, t))
Numbered(name, k) == name \o "_" \o ToString(k)

SeqOfSet(S) == SetToSeq(S)
\* increasing sequence of a finite set of naturals
RECURSIVE Sorted(_)
Sorted(S) == IF S = {} THEN <<>> ELSE <<Min(S)>> \o Sorted(S \ {Min(S)})

EarlyReturn(gs, env, n) == Len(gs[n].comps) = 0 \/ (n \in env.marks /\ Len(gs[n].anchors) > 0)

\* (xmin, ymin) of a component drawn through the glyph set, when all its points are on-curve line points
CompPoints(gs, c) == FlattenSeq(ResolveNoRevT(gs, c.b, Tr(c)))
BoundsModelled(gs, c) ==
  LET pts == CompPoints(gs, c) IN
  Len(pts) > 0 /\ \A k \in 1..Len(pts) : pts[k][3] \in {"line", "move"} /\ pts[k][1] % 256 = 0 /\ pts[k][2] % 256 = 0
                                           /\ Abs(pts[k][1]) <= 256 * 8000 /\ Abs(pts[k][2]) <= 256 * 8000
DistKey(gs, c) ==
  LET pts == CompPoints(gs, c)
      xm == Min({pts[k][1] : k \in 1..Len(pts)}) \div 256
      ym == Min({pts[k][2] : k \in 1..Len(pts)}) \div 256
  IN xm * xm + ym * ym

AnchorXY(c, a) == AppXY(Tr(c), a.x, a.y)

RECURSIVE Prop(_, _, _)
(* Prop(gs, env, n) = [anchors |-> the glyph's anchors after propagation (records [n, x, y]),                    *)
(*                     ok |-> the value is a function of the abstract state (see above), bases included]         *)
Prop(gs, env, n) ==
  LET g == gs[n]
      own == [k \in 1..Len(g.anchors) |-> [n |-> g.anchors[k].n, x |-> g.anchors[k].x, y |-> g.anchors[k].y]]
  IN
  IF EarlyReturn(gs, env, n) THEN [anchors |-> own, ok |-> TRUE]
  ELSE
  LET K == {k \in 1..Len(g.comps) : g.comps[k].b \in DOMAIN gs}
      BP == TLCEval([k \in K |-> Prop(gs, env, g.comps[k].b)])     \* (forced: a lazily evaluated function would recompute Prop at every use)
      BA == TLCEval([k \in K |-> BP[k].anchors])
      IsMarkComp(k) == \E j \in 1..Len(BA[k]) : LeadingUnderscore(env, BA[k][j].n)
      marks0 == {k \in K : IsMarkComp(k)}
      bases0 == K \ marks0
      promote == marks0 # {} /\ bases0 = {} /\ n \in env.ligmark
      boundsOK == \A k \in marks0 : BoundsModelled(gs, g.comps[k])
      closest == IF promote /\ boundsOK
                 THEN CHOOSE k \in marks0 : \A o \in marks0 :
                         DistKey(gs, g.comps[k]) < DistKey(gs, g.comps[o]) \/ (DistKey(gs, g.comps[k]) = DistKey(gs, g.comps[o]) /\ k <= o)
                 ELSE 0
      marks == IF promote THEN marks0 \ {closest} ELSE marks0
      bases == IF promote THEN {closest} \cap K ELSE bases0
      names == UNION {{BA[k][j].n : j \in 1..Len(BA[k])} : k \in bases}
      wanted == {a \in names : ~\E j \in 1..Len(own) : IsPrefixName(env, a, own[j].n)}
      \* _get_anchor_data: the first anchor of that name in every base component, in component order
      Hits(a) == LET ks == Sorted({k \in bases : \E j \in 1..Len(BA[k]) : BA[k][j].n = a})
                 IN [h \in 1..Len(ks) |-> LET k == ks[h]  j == Min({j \in 1..Len(BA[k]) : BA[k][j].n = a})
                                          IN AnchorXY(g.comps[k], BA[k][j])]
      Entries(a) == LET h == Hits(a) IN
                    IF Len(h) > 1 THEN {[n |-> Numbered(a, i), xy |-> h[i]] : i \in 1..Len(h)}
                    ELSE {[n |-> a, xy |-> h[i]] : i \in 1..Len(h)}
      added == UNION {Entries(a) : a \in wanted}
      keys == {e.n : e \in added}
      collision == Cardinality(keys) # Cardinality(added)
      \* _adjust_anchors, mark components in order: the last mark component that carries both "x" and "_x" moves "x" there
      Movers(key) == {k \in marks : \E j \in 1..Len(BA[k]) : BA[k][j].n = key /\ \E j2 \in 1..Len(BA[k]) : IsAttachingFor(env, BA[k][j2].n, key)}
      Final(e) == IF Movers(e.n) = {} THEN e.xy
                  ELSE LET k == Max(Movers(e.n))  j == Max({j \in 1..Len(BA[k]) : BA[k][j].n = e.n})
                       IN AnchorXY(g.comps[k], BA[k][j])
      \* appended in the order of sorted(to_add.items())
      RECURSIVE Ordered(_)
      Ordered(S) == IF S = {} THEN <<>>
                    ELSE LET e == CHOOSE e \in S : \A o \in S : o = e \/ NameLess(env, e.n, o.n)
                         IN << [n |-> e.n, x |-> Final(e)[1], y |-> Final(e)[2]] >> \o Ordered(S \ {e})
  IN [anchors |-> own \o (IF collision THEN <<>> ELSE Ordered(added)),
      ok |-> (promote => boundsOK) /\ ~collision /\ \A k \in K : BP[k].ok]

\* glyphs the filter processes: included composites and, through them, their bases (recursion stops at an early return)
RECURSIVE Proc(_, _, _)
Proc(gs, env, n) ==
  IF n \notin DOMAIN gs THEN {}
  ELSE {n} \cup (IF EarlyReturn(gs, env, n) THEN {}
                 ELSE UNION {Proc(gs, env, gs[n].comps[k].b) : k \in 1..Len(gs[n].comps)})
Processed(gs, env, inc) == UNION {Proc(gs, env, n) : n \in {n \in inc \cap DOMAIN gs : Len(gs[n].comps) > 0}}

NXY(anchors) == [k \in 1..Len(anchors) |-> [n |-> anchors[k].n, x |-> anchors[k].x, y |-> anchors[k].y]]
PropagateModelled(gs, env, inc) == ~Cyclic(gs) /\ \A n \in Processed(gs, env, inc) : Prop(gs, env, n).ok
PropagateModelAnchors(gs, env, inc) ==
  LET P == Processed(gs, env, inc) IN
  TLCEval([n \in DOMAIN gs |-> IF n \in P THEN Prop(gs, env, n).anchors ELSE NXY(gs[n].anchors)])
PropagateModelModified(gs, env, inc) ==
  {n \in Processed(gs, env, inc) : Len(Prop(gs, env, n).anchors) > Len(gs[n].anchors)}

(***************************************************************************)
(* Declarative completeness (C15: "gives a composite an anchor where its   *)
(* base's anchor lands"): a processed composite whose base component -- a  *)
(* component whose glyph carries no attaching anchor -- has an anchor "x"  *)
(* ends up with an anchor "x" or "x_<i>", unless it already had an anchor  *)
(* whose name starts with "x".                                             *)
(***************************************************************************)
AnchorsComplete(before, after, env, inc) ==
  \A n \in Processed(before, env, inc) :
    EarlyReturn(before, env, n) \/
    \A k \in 1..Len(before[n].comps) :
      LET b == before[n].comps[k].b IN
      (b \in DOMAIN after /\ ~\E j \in 1..Len(after[b].anchors) : LeadingUnderscore(env, after[b].anchors[j].n)) =>
        \A j \in 1..Len(after[b].anchors) :
          LET a == after[b].anchors[j].n IN
          (\E o \in 1..Len(before[n].anchors) : IsPrefixName(env, a, before[n].anchors[o].n))
          \/ \E o \in 1..Len(after[n].anchors) : after[n].anchors[o].n = a \/ after[n].anchors[o].stem = a
=============================================================================
