------------------------------- MODULE OTPos -------------------------------
(***************************************************************************)
(* OpenType GPOS application semantics, written from the OpenType          *)
(* specification (independent of ufo2ft's writers): ScriptList / LangSys / *)
(* Feature / Lookup reachability, lookup flags (IgnoreMarks, mark          *)
(* filtering sets against GDEF), PairPos formats 1 and 2, MarkBasePos,     *)
(* MarkLigPos, MarkMarkPos, CursivePos.  Glyphs are glyph ids (0-based);   *)
(* F = [gpos, gdef] is the structural dump of the compiled tables.         *)
(***************************************************************************)
EXTENDS Integers, Sequences, FiniteSets, FiniteSetsExt, SequencesExt

Rng(s) == {s[k] : k \in 1..Len(s)}
SumSeq(s) == FoldSeq(LAMBDA x, acc : x + acc, 0, s)

\* ---- GDEF ------------------------------------------------------------------
GlyphClass(F, g) == LET S == {k \in 1..Len(F.gdef.classes) : F.gdef.classes[k][1] = g}
                    IN IF S = {} THEN 0 ELSE F.gdef.classes[CHOOSE k \in S : TRUE][2]
IsMarkGlyph(F, g) == GlyphClass(F, g) = 3
InMarkSet(F, idx, g) == idx >= 0 /\ idx < Len(F.gdef.markSets) /\ g \in Rng(F.gdef.markSets[idx + 1])
\* a lookup skips glyph g (lookup flag semantics)
Skipped(F, lk, g) ==
  \/ (lk.flag \div 8) % 2 = 1 /\ IsMarkGlyph(F, g)                                   \* IgnoreMarks
  \/ (lk.flag \div 2) % 2 = 1 /\ GlyphClass(F, g) = 1                                \* IgnoreBaseGlyphs
  \/ (lk.flag \div 4) % 2 = 1 /\ GlyphClass(F, g) = 2                                \* IgnoreLigatures
  \/ (lk.flag \div 16) % 2 = 1 /\ IsMarkGlyph(F, g) /\ ~InMarkSet(F, lk.mfs, g)      \* UseMarkFilteringSet
  \/ (lk.flag \div 256) # 0 /\ IsMarkGlyph(F, g) /\ FALSE                            \* MarkAttachmentType: not generated

\* ---- reachability ------------------------------------------------------------
ScriptRecs(F, tag) == {k \in 1..Len(F.gpos.scripts) : F.gpos.scripts[k].tag = tag}
\* feature indices of a language system: "dflt" = DefaultLangSys
LangFeats(F, tag, lang) ==
  UNION {IF lang = "dflt" THEN Rng(F.gpos.scripts[k].dflt)
         ELSE UNION {Rng(F.gpos.scripts[k].langs[j].feats) :
                       j \in {j \in 1..Len(F.gpos.scripts[k].langs) : F.gpos.scripts[k].langs[j].tag = lang}}
         : k \in ScriptRecs(F, tag)}
FeatureTags(F, tag, lang) == {F.gpos.features[fi + 1].tag : fi \in LangFeats(F, tag, lang)}
\* lookup indices (0-based) reachable through features with a tag in `tags`, in lookup-list order
LookupsFor(F, tag, lang, tags) ==
  UNION {Rng(F.gpos.features[fi + 1].lookups) : fi \in {fi \in LangFeats(F, tag, lang) : F.gpos.features[fi + 1].tag \in tags}}
Languages(F, tag) ==
  {"dflt"} \cup UNION {{F.gpos.scripts[k].langs[j].tag : j \in 1..Len(F.gpos.scripts[k].langs)} : k \in ScriptRecs(F, tag)}

\* ---- PairPos -----------------------------------------------------------------
ClassOf(cd, g) == LET S == {k \in 1..Len(cd) : cd[k][1] = g} IN IF S = {} THEN 0 ELSE cd[CHOOSE k \in S : TRUE][2]
CovIndex(cov, g) == LET S == {k \in 1..Len(cov) : cov[k] = g} IN IF S = {} THEN 0 ELSE CHOOSE k \in S : TRUE
Zero == [adv |-> 0, plc |-> 0, yadv |-> 0, yplc |-> 0, v2 |-> 0, hit |-> 0]

\* does this subtable decide the pair (OpenType: the first subtable that does ends the lookup)
SubDecides(st, a, b) ==
  IF st.k = "pp1" THEN CovIndex(st.cov, a) # 0 /\ \E j \in 1..Len(st.sets[CovIndex(st.cov, a)]) : st.sets[CovIndex(st.cov, a)][j].g2 = b
  ELSE st.k = "pp2" /\ CovIndex(st.cov, a) # 0
SubValue(st, a, b) ==
  IF st.k = "pp1"
  THEN LET ps == st.sets[CovIndex(st.cov, a)]
           j == CHOOSE j \in 1..Len(ps) : ps[j].g2 = b
       IN [adv |-> ps[j].adv, plc |-> ps[j].plc, yadv |-> ps[j].yadv, yplc |-> ps[j].yplc, v2 |-> ps[j].v2, hit |-> 1]
  ELSE LET r == st.recs[ClassOf(st.cd1, a) + 1][ClassOf(st.cd2, b) + 1]
       IN [adv |-> r.adv, plc |-> r.plc, yadv |-> r.yadv, yplc |-> r.yplc, v2 |-> r.v2,
           hit |-> IF r.adv # 0 \/ r.plc # 0 THEN 1 ELSE 0]
LookupPair(F, li, a, b) ==
  LET lk == F.gpos.lookups[li + 1] IN
  IF lk.type # 2 \/ Skipped(F, lk, a) \/ Skipped(F, lk, b) THEN Zero
  ELSE LET dec == {k \in 1..Len(lk.subs) : SubDecides(lk.subs[k], a, b)}
       IN IF dec = {} THEN Zero ELSE SubValue(lk.subs[Min(dec)], a, b)

\* total adjustment applied to glyph a when followed by b, under script tag / language
PairValue(F, tag, lang, a, b) ==
  LET ls == SetToSortSeq(LookupsFor(F, tag, lang, {"kern", "dist"}), <)
      vs == [k \in 1..Len(ls) |-> LookupPair(F, ls[k], a, b)]
  IN [adv  |-> SumSeq([k \in 1..Len(vs) |-> vs[k].adv]),
      plc  |-> SumSeq([k \in 1..Len(vs) |-> vs[k].plc]),
      yany |-> SumSeq([k \in 1..Len(vs) |-> (IF vs[k].yadv # 0 \/ vs[k].yplc # 0 \/ vs[k].v2 # 0 THEN 1 ELSE 0)]),
      hits |-> SumSeq([k \in 1..Len(vs) |-> vs[k].hit])]

\* ---- mark attachment -----------------------------------------------------------
MarkRec(st, m) == LET S == {k \in 1..Len(st.marks) : st.marks[k][1] = m} IN IF S = {} THEN <<>> ELSE st.marks[CHOOSE k \in S : TRUE]
BaseRec(st, b) == LET S == {k \in 1..Len(st.bases) : st.bases[k][1] = b} IN IF S = {} THEN <<>> ELSE st.bases[CHOOSE k \in S : TRUE]
\* offset of mark m relative to base b given by one MarkBase / MarkMark subtable: <<applies, dx, dy>>
SubAttach(st, b, m) ==
  LET mr == MarkRec(st, m)  br == BaseRec(st, b) IN
  IF mr = <<>> \/ br = <<>> THEN <<FALSE, 0, 0>>
  ELSE LET an == br[2][mr[2] + 1] IN
       IF an[1] = 0 THEN <<FALSE, 0, 0>> ELSE <<TRUE, an[2] - mr[3], an[3] - mr[4]>>
LigRec(st, l) == LET S == {k \in 1..Len(st.ligs) : st.ligs[k][1] = l} IN IF S = {} THEN <<>> ELSE st.ligs[CHOOSE k \in S : TRUE]
SubAttachLig(st, l, comp, m) ==
  LET mr == MarkRec(st, m)  lr == LigRec(st, l) IN
  IF mr = <<>> \/ lr = <<>> \/ comp > Len(lr[2]) THEN <<FALSE, 0, 0>>
  ELSE LET an == lr[2][comp][mr[2] + 1] IN
       IF an[1] = 0 THEN <<FALSE, 0, 0>> ELSE <<TRUE, an[2] - mr[3], an[3] - mr[4]>>

\* within a lookup the first subtable that covers both glyphs applies; across lookups the LAST applying one wins
LookupAttach(F, li, kind, b, comp, m) ==
  LET lk == F.gpos.lookups[li + 1]
      want == IF kind = "base" THEN "mb" ELSE IF kind = "lig" THEN "ml" ELSE "mm"
      app == {k \in 1..Len(lk.subs) : lk.subs[k].k = want /\
                 (IF kind = "lig" THEN MarkRec(lk.subs[k], m) # <<>> /\ LigRec(lk.subs[k], b) # <<>>
                  ELSE MarkRec(lk.subs[k], m) # <<>> /\ BaseRec(lk.subs[k], b) # <<>>)}
  IN IF app = {} THEN <<FALSE, 0, 0>>
     ELSE IF kind = "lig" THEN SubAttachLig(lk.subs[Min(app)], b, comp, m) ELSE SubAttach(lk.subs[Min(app)], b, m)
MarkTags == {"mark", "mkmk", "abvm", "blwm"}
Attach(F, tag, lang, kind, b, comp, m) ==
  LET ls == SetToSortSeq(LookupsFor(F, tag, lang, MarkTags), <)
      hits == {k \in 1..Len(ls) : LookupAttach(F, ls[k], kind, b, comp, m)[1]}
  IN IF hits = {} THEN <<FALSE, 0, 0>> ELSE LookupAttach(F, ls[Max(hits)], kind, b, comp, m)
=============================================================================
