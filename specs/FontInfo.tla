------------------------------ MODULE FontInfo ------------------------------
(***************************************************************************)
(* Font-info fallbacks (fontInfoData.specialFallbacks / staticFallbackData)*)
(* and their mapping to table fields (outlineCompiler.setupTable_head /    *)
(* hhea / OS2 / post / name).  Numeric attributes are at scale 4 (quarter   *)
(* units); `p` is the set of PRESENT attribute names, `v` their values.    *)
(* Strings are sequences of code points.                                   *)
(***************************************************************************)
EXTENDS Integers, Sequences, FiniteSets, SequencesExt, FiniteSetsExt

OtR(n, d) == (2 * n + d) \div (2 * d)          \* otRound(n / d)
OtR4(v4) == OtR(v4, 4)                           \* table field from a quarter-unit value
Abs(x) == IF x < 0 THEN -x ELSE x
Max2(a, b) == IF a > b THEN a ELSE b

RECURSIVE Val(_, _, _)
Val(p, v, a) ==
  IF a \in p THEN v[a]
  ELSE CASE a = "unitsPerEm"  -> 4 * 1000
         [] a = "ascender"    -> 4 * OtR(4 * Val(p, v, "unitsPerEm"), 5 * 4)            \* otRound(upm * 0.8)
         [] a = "descender"   -> -(4 * OtR(Val(p, v, "unitsPerEm"), 5 * 4))             \* -otRound(upm * 0.2)
         [] a = "capHeight"   -> 4 * OtR(7 * Val(p, v, "unitsPerEm"), 10 * 4)
         [] a = "xHeight"     -> 4 * OtR(Val(p, v, "unitsPerEm"), 2 * 4)
         [] a = "openTypeOS2TypoAscender"  -> Val(p, v, "ascender")
         [] a = "openTypeOS2TypoDescender" -> Val(p, v, "descender")
         [] a = "openTypeOS2TypoLineGap"   ->                                            \* max(int(upm * 1.2) - asc + desc, 0)
              Max2(4 * ((6 * Val(p, v, "unitsPerEm")) \div (5 * 4)) - Val(p, v, "ascender") + Val(p, v, "descender"), 0)
         [] a = "openTypeHheaAscender"     -> Val(p, v, "ascender") + Val(p, v, "openTypeOS2TypoLineGap")
         [] a = "openTypeHheaDescender"    -> Val(p, v, "descender")
         [] a = "openTypeHheaLineGap"      -> 0
         [] a = "openTypeOS2WinAscent"     -> Val(p, v, "ascender") + Val(p, v, "openTypeOS2TypoLineGap")
         [] a = "openTypeOS2WinDescent"    -> Abs(Val(p, v, "descender"))
         [] a = "openTypeHheaCaretSlopeRise" -> Val(p, v, "unitsPerEm")                   \* italicAngle = 0 in the exact domain
         [] a = "openTypeHheaCaretSlopeRun"  -> 0
         [] a = "openTypeHheaCaretOffset"    -> 0
         [] a = "postscriptUnderlineThickness" -> Val(p, v, "unitsPerEm") \div 20        \* upm * 0.05  (exact for the generated upms)
         [] a = "postscriptUnderlinePosition"  -> -((3 * Val(p, v, "unitsPerEm")) \div 40) \* upm * -0.075
         [] OTHER -> 0

\* table field |-> info attribute
NumFields == [unitsPerEm |-> "unitsPerEm", hheaAscent |-> "openTypeHheaAscender", hheaDescent |-> "openTypeHheaDescender",
              hheaLineGap |-> "openTypeHheaLineGap", caretSlopeRise |-> "openTypeHheaCaretSlopeRise",
              caretSlopeRun |-> "openTypeHheaCaretSlopeRun", caretOffset |-> "openTypeHheaCaretOffset",
              sTypoAscender |-> "openTypeOS2TypoAscender", sTypoDescender |-> "openTypeOS2TypoDescender",
              sTypoLineGap |-> "openTypeOS2TypoLineGap", usWinAscent |-> "openTypeOS2WinAscent",
              usWinDescent |-> "openTypeOS2WinDescent", sxHeight |-> "xHeight", sCapHeight |-> "capHeight",
              underlineThickness |-> "postscriptUnderlineThickness", underlinePosition |-> "postscriptUnderlinePosition"]
\* (the underline fallbacks upm * 0.05 and upm * -0.075 are not quarter-unit values in general: rounded from the exact rational)
Field(p, v, f) ==
  IF NumFields[f] = "postscriptUnderlineThickness" /\ NumFields[f] \notin p THEN OtR(Val(p, v, "unitsPerEm"), 80)
  ELSE IF NumFields[f] = "postscriptUnderlinePosition" /\ NumFields[f] \notin p THEN OtR(-(3 * Val(p, v, "unitsPerEm")), 160)
  ELSE OtR4(Val(p, v, NumFields[f]))

\* ---- strings -----------------------------------------------------------------------------------
SP == 32
Lower(c) == IF c >= 65 /\ c <= 90 THEN c + 32 ELSE c
Upper(c) == IF c >= 97 /\ c <= 122 THEN c - 32 ELSE c
LowerS(s) == [k \in 1..Len(s) |-> Lower(s[k])]
IsAlpha(c) == (c >= 65 /\ c <= 90) \/ (c >= 97 /\ c <= 122)
TitleS(s) == [k \in 1..Len(s) |-> IF k = 1 \/ ~IsAlpha(s[k - 1]) THEN Upper(s[k]) ELSE Lower(s[k])]   \* str.title() on ASCII
RECURSIVE StripL(_)
StripL(s) == IF Len(s) > 0 /\ s[1] = SP THEN StripL(Tail(s)) ELSE s
RECURSIVE StripR(_)
StripR(s) == IF Len(s) > 0 /\ s[Len(s)] = SP THEN StripR(SubSeq(s, 1, Len(s) - 1)) ELSE s
Strip(s) == StripR(StripL(s))
S(str) == str         \* (strings arrive as code point sequences from the harness)
REGULAR == <<114, 101, 103, 117, 108, 97, 114>>
BOLD == <<98, 111, 108, 100>>
ITALIC == <<105, 116, 97, 108, 105, 99>>
BOLDITALIC == BOLD \o <<SP>> \o ITALIC
StyleMapNames == {REGULAR, BOLD, ITALIC, BOLDITALIC}
NEWFONT == <<78, 101, 119, 32, 70, 111, 110, 116>>
REGULAR_T == <<82, 101, 103, 117, 108, 97, 114>>

RECURSIVE Str(_, _, _)
Str(p, v, a) ==
  IF a \in p THEN v[a]
  ELSE CASE a = "familyName" -> NEWFONT
         [] a = "styleName"  -> REGULAR_T
         [] a = "openTypeNamePreferredFamilyName" -> Str(p, v, "familyName")
         [] a = "openTypeNamePreferredSubfamilyName" -> Str(p, v, "styleName")
         [] a = "styleMapStyleName" ->
              LET sn == Strip(LowerS(Str(p, v, "openTypeNamePreferredSubfamilyName")))
              IN IF sn \in StyleMapNames THEN sn ELSE REGULAR
         [] a = "styleMapFamilyName" ->
              LET fam == Str(p, v, "openTypeNamePreferredFamilyName")
                  st0 == IF "styleMapStyleName" \in p /\ Len(v["styleMapStyleName"]) > 0 THEN v["styleMapStyleName"]
                         ELSE Str(p, v, "openTypeNamePreferredSubfamilyName")
                  st == IF LowerS(st0) \in StyleMapNames THEN <<>> ELSE st0
              IN Strip(fam \o <<SP>> \o st)
         [] OTHER -> <<>>
NameRecord(p, v, id) ==
  CASE id = 1 -> Str(p, v, "styleMapFamilyName")
    [] id = 2 -> TitleS(Str(p, v, "styleMapStyleName"))
    [] id = 4 -> Str(p, v, "openTypeNamePreferredFamilyName") \o <<SP>> \o Str(p, v, "openTypeNamePreferredSubfamilyName")
    [] id = 16 -> Str(p, v, "openTypeNamePreferredFamilyName")
    [] id = 17 -> Str(p, v, "openTypeNamePreferredSubfamilyName")
    [] OTHER -> <<>>
HasTypographicNames(p, v) == ~(NameRecord(p, v, 1) = NameRecord(p, v, 16) /\ NameRecord(p, v, 2) = NameRecord(p, v, 17))

\* ---- further attribute -> field mappings (direct or with a simple fallback) ------------------------------------
\* Values at scale 4 as everywhere; U = unitsPerEm (with fallback).  italicAngle = 0 in the exact domain, so the
\* italic-dependent x offsets fall back to 0.
Present4(p, v, a, dflt) == IF a \in p THEN OtR4(v[a]) ELSE dflt
MoreField(p, v, f) ==
  LET U == Val(p, v, "unitsPerEm")
      subXS == Present4(p, v, "openTypeOS2SubscriptXSize", OtR(13 * U, 80))         \* upm * 0.65
      subYS == Present4(p, v, "openTypeOS2SubscriptYSize", OtR(3 * U, 20))          \* upm * 0.6
      xh == Val(p, v, "xHeight")
  IN CASE f = "usWeightClass" -> Present4(p, v, "openTypeOS2WeightClass", 400)
       [] f = "usWidthClass"  -> Present4(p, v, "openTypeOS2WidthClass", 5)
       [] f = "lowestRecPPEM" -> Present4(p, v, "openTypeHeadLowestRecPPEM", 6)
       [] f = "ySubscriptXSize" -> subXS
       [] f = "ySubscriptYSize" -> subYS
       [] f = "ySubscriptYOffset" -> Present4(p, v, "openTypeOS2SubscriptYOffset", OtR(3 * U, 160))     \* upm * 0.075
       [] f = "ySubscriptXOffset" -> Present4(p, v, "openTypeOS2SubscriptXOffset", 0)
       [] f = "ySuperscriptXSize" -> Present4(p, v, "openTypeOS2SuperscriptXSize", subXS)
       [] f = "ySuperscriptYSize" -> Present4(p, v, "openTypeOS2SuperscriptYSize", subYS)
       [] f = "ySuperscriptYOffset" -> Present4(p, v, "openTypeOS2SuperscriptYOffset", OtR(7 * U, 80))  \* upm * 0.35
       [] f = "ySuperscriptXOffset" -> Present4(p, v, "openTypeOS2SuperscriptXOffset", 0)
       [] f = "yStrikeoutSize" -> Present4(p, v, "openTypeOS2StrikeoutSize", Field(p, v, "underlineThickness"))
       [] f = "yStrikeoutPosition" -> Present4(p, v, "openTypeOS2StrikeoutPosition",
                                               IF xh # 0 THEN OtR(3 * xh, 20) ELSE OtR(11 * U, 200))    \* xHeight * 0.6 / upm * 0.22
       [] f = "isFixedPitch" -> IF "postscriptIsFixedPitch" \in p /\ v["postscriptIsFixedPitch"] # 0 THEN 1 ELSE 0
       [] f = "fontRevision1000" -> (IF "versionMajor" \in p THEN v["versionMajor"] \div 4 ELSE 0) * 1000
                                     + (IF "versionMinor" \in p THEN v["versionMinor"] \div 4 ELSE 0)
MoreFields == {"usWeightClass", "usWidthClass", "lowestRecPPEM", "ySubscriptXSize", "ySubscriptYSize", "ySubscriptYOffset",
               "ySubscriptXOffset", "ySuperscriptXSize", "ySuperscriptYSize", "ySuperscriptYOffset", "ySuperscriptXOffset",
               "yStrikeoutSize", "yStrikeoutPosition", "isFixedPitch", "fontRevision1000"}
\* vhea exists exactly when the three vertical typo metrics are given; its caret fields fall back to 0 / 1 / 0
VheaAttrs == {"openTypeVheaVertTypoAscender", "openTypeVheaVertTypoDescender", "openTypeVheaVertTypoLineGap"}
HasVhea(p) == VheaAttrs \subseteq p
VheaField(p, v, f) ==
  CASE f = "ascent" -> OtR4(v["openTypeVheaVertTypoAscender"]) [] f = "descent" -> OtR4(v["openTypeVheaVertTypoDescender"])
    [] f = "lineGap" -> OtR4(v["openTypeVheaVertTypoLineGap"])
    [] f = "caretSlopeRise" -> Present4(p, v, "openTypeVheaCaretSlopeRise", 0)
    [] f = "caretSlopeRun" -> Present4(p, v, "openTypeVheaCaretSlopeRun", 1)
    [] f = "caretOffset" -> Present4(p, v, "openTypeVheaCaretOffset", 0)
VheaFields == {"ascent", "descent", "lineGap", "caretSlopeRise", "caretSlopeRun", "caretOffset"}

\* name records that are the attribute as given (absent attribute or empty string: no record)
DirectNames == [n0 |-> "copyright", n7 |-> "trademark", n8 |-> "openTypeNameManufacturer", n9 |-> "openTypeNameDesigner",
                n10 |-> "openTypeNameDescription", n11 |-> "openTypeNameManufacturerURL", n12 |-> "openTypeNameDesignerURL",
                n13 |-> "openTypeNameLicense", n14 |-> "openTypeNameLicenseURL", n18 |-> "openTypeNameCompatibleFullName",
                n19 |-> "openTypeNameSampleText", n21 |-> "openTypeNameWWSFamilyName", n22 |-> "openTypeNameWWSSubfamilyName"]
DirectName(p, sv, key) == IF DirectNames[key] \in p THEN sv[DirectNames[key]] ELSE <<>>
\* decimal digits
RECURSIVE DecCps(_)
DecCps(n) == IF n < 10 THEN <<48 + n>> ELSE DecCps(n \div 10) \o <<48 + (n % 10)>>
ZFill3(n) == IF n >= 100 THEN DecCps(n) ELSE IF n >= 10 THEN <<48>> \o DecCps(n) ELSE <<48, 48>> \o DecCps(n)
VERSION_ == <<86, 101, 114, 115, 105, 111, 110, 32>>      \* "Version "
VersionString(p, v, sv) ==
  IF "openTypeNameVersion" \in p THEN sv["openTypeNameVersion"]
  ELSE VERSION_ \o DecCps(IF "versionMajor" \in p THEN v["versionMajor"] \div 4 ELSE 0) \o <<46>>
                \o ZFill3(IF "versionMinor" \in p THEN v["versionMinor"] \div 4 ELSE 0)
VendorID(p, sv) == IF "openTypeOS2VendorID" \in p THEN sv["openTypeOS2VendorID"] ELSE <<78, 79, 78, 69>>      \* "NONE"
StripVersionPrefix(s) == IF Len(s) >= 8 /\ SubSeq(s, 1, 8) = VERSION_ THEN SubSeq(s, 9, Len(s)) ELSE s
\* openTypeNameUniqueID fallback: version;vendor;postscript name (psname = the attribute as given, else the generated one)
UniqueID(p, v, sv, psname) ==
  IF "openTypeNameUniqueID" \in p THEN sv["openTypeNameUniqueID"]
  ELSE StripVersionPrefix(VersionString(p, v, sv)) \o <<59>> \o VendorID(p, sv) \o <<59>> \o psname
RECURSIVE PadTo4(_)
PadTo4(s) == IF Len(s) >= 4 THEN s ELSE PadTo4(s \o <<32>>)

\* ---- bit lists ------------------------------------------------------------------------------------
\* A bit-list attribute names the bits that are set (a number listed twice is still one bit); the table field holds
\* exactly those that fall inside the field.  `pb` = present bit-list attributes, `b` their values as SETS.
BitDefault(a) == CASE a = "openTypeHeadFlags" -> {0, 1} [] a = "openTypeOS2Type" -> {2} [] OTHER -> {}
BitVal(pb, b, a) == IF a \in pb THEN b[a] ELSE BitDefault(a)
StyleBitsSelection(sm) == CASE sm = REGULAR -> {6} [] sm = BOLD -> {5} [] sm = ITALIC -> {0} [] sm = BOLDITALIC -> {0, 5} [] OTHER -> {}
StyleBitsMac(sm) == CASE sm = BOLD -> {0} [] sm = ITALIC -> {1} [] sm = BOLDITALIC -> {0, 1} [] OTHER -> {}
BitField(p, v, pb, b, f) ==
  CASE f = "headFlags"   -> BitVal(pb, b, "openTypeHeadFlags") \cap 0..15
    [] f = "fsType"      -> BitVal(pb, b, "openTypeOS2Type") \cap 0..15
    [] f = "fsSelection" -> (BitVal(pb, b, "openTypeOS2Selection") \cup StyleBitsSelection(Str(p, v, "styleMapStyleName"))) \cap 0..15
    [] f = "macStyle"    -> StyleBitsMac(Str(p, v, "styleMapStyleName"))
    [] f = "unicodeRanges"  -> BitVal(pb, b, "openTypeOS2UnicodeRanges") \cap 0..127
    [] f = "codePageRanges" -> BitVal(pb, b, "openTypeOS2CodePageRanges") \cap 0..63
\* fields that are computed from the character map when the attribute is absent (environment)
BitFieldDefined(pb, f) == (f = "unicodeRanges" => "openTypeOS2UnicodeRanges" \in pb) /\ (f = "codePageRanges" => "openTypeOS2CodePageRanges" \in pb)
BitFields == {"headFlags", "fsType", "fsSelection", "macStyle", "unicodeRanges", "codePageRanges"}

\* PostScript font name: only printable ASCII, no space, none of []{}<>()/%
PsForbidden == {91, 93, 40, 41, 123, 125, 60, 62, 47, 37}
PsLegal(s) == \A k \in 1..Len(s) : s[k] >= 33 /\ s[k] <= 126 /\ s[k] \notin PsForbidden
\* for pure printable-ASCII input the normalisation is exactly "drop spaces and the forbidden characters"
AsciiPrintable(s) == \A k \in 1..Len(s) : s[k] >= 32 /\ s[k] <= 126
PsNormalizeAscii(s) == SelectSeq(s, LAMBDA c : c # SP /\ c \notin PsForbidden)
=============================================================================
