SPECIFICATION Spec
INVARIANT C18_Direction
INVARIANT C18_Once
CHECK_DEADLOCK FALSE
