SPECIFICATION Spec
CONSTANTS
  Copy = FALSE
  Attrs = {"familyName", "ascender", "vendor"}
  VFs = {1, 2, 3}
INVARIANT OwnOverridesOnly
CHECK_DEADLOCK FALSE
