SPECIFICATION Spec
CONSTANTS
  Fresh = FALSE
  Fonts = {1, 2, 3}
  LibWriters <- LW
INVARIANT OwnWriters
CHECK_DEADLOCK FALSE
