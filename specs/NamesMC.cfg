SPECIFICATION Spec
CONSTANT MaxGlyphs = 5
INVARIANT C11_Unique
INVARIANT C11_UsesSupplied
INVARIANT C11_Legal
CHECK_DEADLOCK FALSE
