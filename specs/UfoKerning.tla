----------------------------- MODULE UfoKerning -----------------------------
(***************************************************************************)
(* UFO 3 kerning semantics (the reference the generated features must      *)
(* reproduce): value of a glyph pair with the precedence                   *)
(*   glyph-glyph > glyph-group > group-glyph > group-group > 0.            *)
(* kerning : sequence of [l, r, v] where l / r are [g |-> gid] or          *)
(*           [c |-> group name]; v at scale 4 (quarter units)              *)
(* groups  : sequence of [name, side (1|2), members (sequence of gids)]    *)
(* Entries that mention glyphs outside `exported` or unknown / empty       *)
(* groups do not exist for the compiled font.                              *)
(***************************************************************************)
EXTENDS Integers, Sequences, FiniteSets, FiniteSetsExt

SeqSet(s) == {s[k] : k \in 1..Len(s)}
IsGlyphKey(k) == "g" \in DOMAIN k
Members(groups, name, side, exported) ==
  UNION {SeqSet(groups[i].members) \cap exported : i \in {i \in 1..Len(groups) : groups[i].name = name /\ groups[i].side = side}}
\* the glyphs a key stands for on the given side
KeyGlyphs(groups, k, side, exported) ==
  IF IsGlyphKey(k) THEN {k.g} \cap exported ELSE Members(groups, k.c, side, exported)

\* entries of each kind that cover the pair (a, b)
Covering(kerning, groups, exported, a, b, c1, c2) ==
  {i \in 1..Len(kerning) :
      /\ IsGlyphKey(kerning[i].l) = ~c1 /\ IsGlyphKey(kerning[i].r) = ~c2
      /\ a \in KeyGlyphs(groups, kerning[i].l, 1, exported)
      /\ b \in KeyGlyphs(groups, kerning[i].r, 2, exported)}

ValueOf(kerning, S) == kerning[CHOOSE i \in S : \A j \in S : i <= j].v

\* v at scale 4; 0 when nothing covers the pair
Lookup(kerning, groups, exported, a, b) ==
  LET gg == Covering(kerning, groups, exported, a, b, FALSE, FALSE)
      gc == Covering(kerning, groups, exported, a, b, FALSE, TRUE)
      cg == Covering(kerning, groups, exported, a, b, TRUE, FALSE)
      cc == Covering(kerning, groups, exported, a, b, TRUE, TRUE)
  IN IF gg # {} THEN ValueOf(kerning, gg)
     ELSE IF gc # {} THEN ValueOf(kerning, gc)
     ELSE IF cg # {} THEN ValueOf(kerning, cg)
     ELSE IF cc # {} THEN ValueOf(kerning, cc)
     ELSE 0
\* which entry decided (0 = none): used by known-finding signatures
Deciding(kerning, groups, exported, a, b) ==
  LET gg == Covering(kerning, groups, exported, a, b, FALSE, FALSE)
      gc == Covering(kerning, groups, exported, a, b, FALSE, TRUE)
      cg == Covering(kerning, groups, exported, a, b, TRUE, FALSE)
      cc == Covering(kerning, groups, exported, a, b, TRUE, TRUE)
      first(S) == CHOOSE i \in S : \A j \in S : i <= j
  IN IF gg # {} THEN first(gg) ELSE IF gc # {} THEN first(gc) ELSE IF cg # {} THEN first(cg)
     ELSE IF cc # {} THEN first(cc) ELSE 0

\* q * otRound((v4 / 4) / q)   (ufo2ft.util.quantize on a quarter-unit value)
Quant(v4, q) == q * ((2 * v4 + 4 * q) \div (8 * q))
=============================================================================
