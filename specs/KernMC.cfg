SPECIFICATION Spec
CONSTANTS
  MaxEntries = 2
  Q = 5
  GroupNames = {"x", "y"}
INVARIANT C05_Core
INVARIANT OnePerKind
CHECK_DEADLOCK FALSE
