----------------------------- MODULE KernSplitMC -----------------------------
(***************************************************************************)
(* Design check of the script-split kern writer (kernFeatureWriter.py):    *)
(*   getKerningPairs -> splitKerning (partitionByScript, mergeScripts) ->  *)
(*   bidi filter in _makeSplitScriptKernLookups -> _registerLookups        *)
(* against the UFO kerning semantics, for EVERY kerning dictionary with up *)
(* to MaxEntries entries over glyph and group keys and every assignment of *)
(* five glyphs (Latin, Cyrillic, Arabic, a digit, an unencoded alternate)  *)
(* to at most one kern1 and one kern2 group.  TLC certifies that at this   *)
(* scope every deviation from the UFO value lies inside the signature of   *)
(* known finding F-C05-1, and (strict config) that the signature is real.  *)
(***************************************************************************)
EXTENDS UfoKerning, SequencesExt, TLC

CONSTANTS MaxEntries

Glyph == 0..4
\* 0 = a (Latn, L)   1 = be-cy (Cyrl, L)   2 = alef-ar (Arab, R)   3 = one (Zyyy, EN -> "L")   4 = x.alt (unencoded)
ScriptsOf(g) == CASE g = 0 -> {"Latn"} [] g = 1 -> {"Cyrl"} [] g = 2 -> {"Arab"} [] g = 3 -> {"Zyyy"} [] OTHER -> {}
BidiOf(g) == CASE g \in {0, 1, 3} -> {"L"} [] g = 2 -> {"R"} [] OTHER -> {}
Dir(s) == IF s = "Zyyy" THEN "Auto" ELSE IF s = "Arab" THEN "RTL" ELSE "LTR"
Resolved(g) == IF ScriptsOf(g) = {} \/ "Zyyy" \in ScriptsOf(g) THEN {"Zyyy"} ELSE ScriptsOf(g)

VARIABLES pc, g1, g2, kern
vars == <<pc, g1, g2, kern>>
GroupNames == {"y"}
Groups(f1, f2) ==
  LET mk(f, side) == {[name |-> n, side |-> side, members |-> SetToSeq({g \in Glyph : f[g] = n})] : n \in GroupNames}
  IN SetToSeq(mk(f1, 1) \cup mk(f2, 2))
KeyList == [k \in 1..5 |-> [g |-> k - 1]] \o <<[c |-> "y"]>>
NK == Len(KeyList)
Code(e) == (CHOOSE k \in 1..NK : KeyList[k] = e.l) * NK + (CHOOSE k \in 1..NK : KeyList[k] = e.r)

Init == pc = 0 /\ g1 = [g \in Glyph |-> "none"] /\ g2 = [g \in Glyph |-> "none"] /\ kern = <<>>
PickG1 == pc = 0 /\ g1' \in [Glyph -> GroupNames \cup {"none"}] /\ pc' = 1 /\ UNCHANGED <<g2, kern>>
PickG2 == pc = 1 /\ g2' \in [Glyph -> GroupNames \cup {"none"}] /\ pc' = 2 /\ UNCHANGED <<g1, kern>>
AddEntry == /\ pc = 2 /\ Len(kern) < MaxEntries
            /\ \E l \in 1..NK, r \in 1..NK, v \in {40, -24} :
                  LET e == [l |-> KeyList[l], r |-> KeyList[r], v |-> v] IN
                  /\ (Len(kern) > 0 => Code(kern[Len(kern)]) < Code(e))
                  /\ kern' = Append(kern, e)
            /\ UNCHANGED <<pc, g1, g2>>
Finish == pc = 2 /\ pc' = 3 /\ UNCHANGED <<g1, g2, kern>>
Next == PickG1 \/ PickG2 \/ AddEntry \/ Finish
Spec == Init /\ [][Next]_vars

GS == Groups(g1, g2)
Side(k, side) == KeyGlyphs(GS, k, side, Glyph)

\* ---- getKerningPairs ------------------------------------------------------------------------
Pairs ==
  {[s1 |-> Side(kern[k].l, 1), s2 |-> Side(kern[k].r, 2), c1 |-> ~IsGlyphKey(kern[k].l), c2 |-> ~IsGlyphKey(kern[k].r),
    v |-> Quant(kern[k].v, 1)] : k \in {k \in 1..Len(kern) : Side(kern[k].l, 1) # {} /\ Side(kern[k].r, 2) # {}}}

\* ---- partitionByScript -----------------------------------------------------------------------
DirsOf(side) == {Dir(s) : s \in UNION {Resolved(g) : g \in side}}
SideD(side, d) == {g \in side : \E s \in Resolved(g) : Dir(s) = d}
ScriptsOfSide(side) == UNION {Resolved(g) : g \in side}
Split(p) ==
  {[scripts |-> LET S1 == ScriptsOfSide(SideD(p.s1, d[1]))  S2 == ScriptsOfSide(SideD(p.s2, d[2]))
                IN IF "Zyyy" \in S1 /\ "Zyyy" \in S2 THEN S1 \cup S2 ELSE (S1 \cup S2) \ {"Zyyy"},
    s1 |-> SideD(p.s1, d[1]), s2 |-> SideD(p.s2, d[2]), c1 |-> p.c1, c2 |-> p.c2, v |-> p.v]
   : d \in {d \in DirsOf(p.s1) \X DirsOf(p.s2) : d[1] = d[2] \/ d[1] = "Auto" \/ d[2] = "Auto"}}
AllSplit == UNION {Split(p) : p \in Pairs}

\* ---- mergeScripts: buckets whose script sets overlap are merged to a fixed point ---------------
RECURSIVE Closure(_, _)
Closure(S, all) == LET n == S \cup UNION {T \in all : T \cap S # {}} IN IF n = S THEN S ELSE Closure(n, all)
ScriptSets == {sp.scripts : sp \in AllSplit}
Bucket(sp) == Closure(sp.scripts, ScriptSets)
Buckets == {Bucket(sp) : sp \in AllSplit}

\* ---- _makeSplitScriptKernLookups: drop pairs whose glyphs carry both bidi types ----------------
BidiTypes(sp) == UNION {BidiOf(g) : g \in sp.s1 \cup sp.s2}
Kept == {sp \in AllSplit : ~({"R", "L"} \subseteq BidiTypes(sp))}
Kind(sp) == (IF sp.c1 THEN 2 ELSE 0) + (IF sp.c2 THEN 1 ELSE 0)
\* value of glyph pair (a, b) in the lookup of bucket B: first statement (sorted by kind) that covers it
LookupVal(B, a, b) ==
  LET cov == {sp \in Kept : Bucket(sp) = B /\ a \in sp.s1 /\ b \in sp.s2} IN
  IF cov = {} THEN 0 ELSE (CHOOSE sp \in cov : \A o \in cov : Kind(sp) <= Kind(o)).v
NonEmpty(B) == \E sp \in Kept : Bucket(sp) = B

\* ---- _registerLookups ---------------------------------------------------------------------------
LiveBuckets == {B \in Buckets : NonEmpty(B)}
LookupsOfScript(s) == {B \in LiveBuckets : s \in B}
RegScripts == (UNION LiveBuckets) \ {"Zyyy"}
LTRBuckets == {B \in LiveBuckets : \E s \in B : s # "Zyyy" /\ Dir(s) = "LTR"}
RTLBuckets == {B \in LiveBuckets : \E s \in B : s # "Zyyy" /\ Dir(s) = "RTL"}
DfltLookups == LookupsOfScript("Zyyy") \cup (IF LTRBuckets # {} THEN LTRBuckets ELSE RTLBuckets)
RegisteredFor(s) == IF s = "DFLT" THEN DfltLookups ELSE LookupsOfScript("Zyyy") \cup LookupsOfScript(s)
SumOver(S, a, b) == LET seq == SetToSeq(S) IN FoldSeq(LAMBDA B, acc : LookupVal(B, a, b) + acc, 0, seq)
Applied(s, a, b) == SumOver(RegisteredFor(s), a, b)

\* ---- the property ---------------------------------------------------------------------------------
Neutral(g) == Resolved(g) = {"Zyyy"}
Admissible(s, g) == Neutral(g) \/ (s # "DFLT" /\ s \in ScriptsOf(g))
Mixed(a, b) == {"R", "L"} \subseteq (BidiOf(a) \cup BidiOf(b))
Reference(a, b) == Quant(Lookup(kern, GS, Glyph, a, b), 1)
Known_C05_1(a, b) ==
  LET d == Deciding(kern, GS, Glyph, a, b) IN
  d # 0 /\ (~IsGlyphKey(kern[d].l) \/ ~IsGlyphKey(kern[d].r)) /\
  {"R", "L"} \subseteq UNION {BidiOf(g) : g \in Side(kern[d].l, 1) \cup Side(kern[d].r, 2)}
Scripts == RegScripts \cup {"DFLT"}
C05 == pc = 3 => \A s \in Scripts : \A a, b \in Glyph :
          (Admissible(s, a) /\ Admissible(s, b) /\ ~Mixed(a, b)) => (Applied(s, a, b) = Reference(a, b) \/ Known_C05_1(a, b))
C05_Strict == pc = 3 => \A s \in Scripts : \A a, b \in Glyph :
          (Admissible(s, a) /\ Admissible(s, b) /\ ~Mixed(a, b)) => Applied(s, a, b) = Reference(a, b)     \* must FAIL (F-C05-1)
C05_MixedZeroOrValue == pc = 3 => \A s \in Scripts : \A a, b \in Glyph :
          (Admissible(s, a) /\ Admissible(s, b) /\ Mixed(a, b)) => Applied(s, a, b) \in {0, Reference(a, b)}
=============================================================================
