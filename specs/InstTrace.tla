------------------------------ MODULE InstTrace ------------------------------
(***************************************************************************)
(* Trace acceptor for property C19 (ufo2ft.instantiator).  Record:         *)
(*  tid, locs (design locations of the masters, increasing), default       *)
(*  (index of the default master), masters (glyph sets), loc (instance      *)
(*  location), round, inst (glyph set of the generated instance), swaps    *)
(*  (<<old, new>> pairs applied at loc), kern / instKern (per master and    *)
(*  instance kerning as <<l, r, v>> at scale 4, pairs present in all       *)
(*  masters), info / instInfo (numeric attributes at scale 4), srcSame,    *)
(*  repeatSame, orderSame, swapTwiceSame.                                  *)
(***************************************************************************)
EXTENDS VarModel, Json, IOUtils, TLC, TLCExt
Traces == ndJsonDeserialize(IOEnv.TRACE_FILE)
VARIABLE i
Rng(s) == {s[k] : k \in 1..Len(s)}
Has(r, f) == f \in DOMAIN r
\* which source glyph's geometry ends up under name n after the rule swaps (applied in order)
RECURSIVE SrcOf(_, _, _)
SrcOf(swaps, k, n) ==
  IF k = 0 THEN n
  ELSE LET prev == SrcOf(swaps, k - 1, n) IN
       \* after swap k, name old carries what new carried before and vice versa
       IF n = swaps[k][1] THEN SrcOf(swaps, k - 1, swaps[k][2])
       ELSE IF n = swaps[k][2] THEN SrcOf(swaps, k - 1, swaps[k][1]) ELSE prev
SwapName(swaps, b) == LET S == {k \in 1..Len(swaps) : swaps[k][1] = b \/ swaps[k][2] = b} IN
                      IF S = {} THEN b ELSE LET k == CHOOSE k \in S : TRUE IN IF swaps[k][1] = b THEN swaps[k][2] ELSE swaps[k][1]
Expected(t, n) ==
  LET src == SrcOf(t.swaps, Len(t.swaps), n)
      g0 == BlendGlyph(t.masters, t.locs, t.default, src, t.loc)
      g1 == IF t.round THEN RoundGlyph(g0) ELSE g0
      \* component references follow the swap; code points stay with the name
  IN [g1 EXCEPT !.comps = [c \in 1..Len(g1.comps) |-> [g1.comps[c] EXCEPT !.b = SwapName(t.swaps, @)]],
                !.u = t.masters[t.default][n].u,
                !.h = LET own == BlendGlyph(t.masters, t.locs, t.default, n, t.loc) IN IF t.round THEN RoundS(own.h) ELSE own.h]   \* the height is not swapped
\* kerning / info values are quarter units; the blend is computed at scale 32 so that the division is exact
BlendK(t, k) == LET vals == [m \in 1..Len(t.kern) |-> 8 * t.kern[m][k][3]]
                    v == BlendVal(vals, t.locs, t.loc)                         \* scale 32
                \* fontMath's MathKerning.round rounds halves away from zero (environment)
                IN IF t.round THEN (IF v >= 0 THEN 32 * OtRound(v, 32) ELSE -(32 * OtRound(-v, 32))) ELSE v
BlendI(t, a) == LET v == BlendVal([m \in 1..Len(t.info) |-> 8 * t.info[m][a]], t.locs, t.loc)
                IN IF t.round THEN 32 * OtRound(v, 32) ELSE v
\* Two-axis families: the variation model (fontTools.varLib.models.VariationModel over the masters' normalised locations, in the
\* designspace's AXIS ORDER) is environment; the harness evaluates it on the raw master values and hands the rounded blend
\* over as `expected2` / `expKern` / `expInfo`; the specification states what has to equal what
Exp2(t) == Has(t, "expected2")
BadGlyphs(t) == IF Exp2(t) THEN {n \in DOMAIN t.inst : n \in DOMAIN t.expected2 /\ t.inst[n] # t.expected2[n]}
                ELSE {n \in DOMAIN t.inst : n \in DOMAIN t.masters[t.default] /\ t.inst[n] # Expected(t, n)}
Clauses(t) ==
  IF Has(t, "err") THEN << <<"instantiates", FALSE>> >> ELSE
  << <<"glyph-set-is-default-source", DOMAIN t.inst = DOMAIN t.masters[t.default]>>,
     <<"outline-is-model-blend", BadGlyphs(t) = {}>>,
     <<"kerning-is-model-blend", IF Exp2(t) THEN t.instKern = t.expKern ELSE \A k \in 1..Len(t.instKern) : t.instKern[k][3] = BlendK(t, k)>>,
     <<"info-is-model-blend", IF Exp2(t) THEN t.instInfo = t.expInfo ELSE \A a \in DOMAIN t.instInfo : t.instInfo[a] = BlendI(t, a)>>,
     \* groups (kerning groups and ordinary ones alike) keep their order; members named by an active rule are exchanged
     <<"groups-follow-swaps", \A k \in 1..Len(t.groups) :
                                 t.instGroups[k][2] = [j \in 1..Len(t.groups[k][2]) |-> SwapName(t.swaps, t.groups[k][2][j])]>>,
     <<"sources-untouched", t.srcSame>>,
     <<"repeatable", t.repeatSame>>,
     <<"order-independent", t.orderSame>>,
     <<"swap-involution", t.swapTwiceSame>> >>
Init == i = 1
Next == /\ i <= Len(Traces)
        /\ LET t == Traces[i]  cl == Clauses(t)  bad == {k \in 1..Len(cl) : ~cl[k][2]}
           IN PrintT(<<"VERDICT", t.tid, IF bad = {} THEN "none" ELSE cl[Min(bad)][1], "none", IF Has(t, "err") THEN t.err ELSE ToString(BadGlyphs(t))>>)
        /\ i' = i + 1
Spec == Init /\ [][Next]_i
=============================================================================
