SPECIFICATION Spec
CONSTANTS
  MaxEntries = 2
INVARIANT C05_Dir
INVARIANT C05_DirMixed
CHECK_DEADLOCK FALSE
