SPECIFICATION Spec
CHECK_DEADLOCK FALSE
