SPECIFICATION Spec
CONSTANTS
  MaxEntries = 2
INVARIANT C05_DirMixed_Strict
CHECK_DEADLOCK FALSE
