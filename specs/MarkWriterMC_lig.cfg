SPECIFICATION Spec
CONSTANTS
  NG = 2
  Keys <- Keys3
  WithCats = FALSE
  WithLig = TRUE
INVARIANT C06_Model
INVARIANT NoSpurious
INVARIANT LookupsConflictFree
INVARIANT SpecificWins
INVARIANT BottomWins
INVARIANT GroupingCompact
CHECK_DEADLOCK FALSE
