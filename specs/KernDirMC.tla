----------------------------- MODULE KernDirMC -----------------------------
(***************************************************************************)
(* Design check of the DIRECTION-split kern writer (kernFeatureWriter2.py): *)
(*   get_kerning_pairs -> split_kerning (partition_by_direction: one       *)
(*   bucket per dominant direction, parts with clashing directions or      *)
(*   clashing bidi classes dropped) -> one lookup per direction ->         *)
(*   register_lookups (DFLT: neutral + LTR-or-else-RTL; a script: neutral  *)
(*   + the lookup of its direction)                                        *)
(* against the UFO kerning semantics, for EVERY kerning dictionary with up *)
(* to MaxEntries entries over glyph and group keys and every assignment of *)
(* five glyphs (Latin, Cyrillic, Arabic, a digit, an unencoded alternate)  *)
(* to at most one kern1 and one kern2 group.  TLC certifies that at this   *)
(* scope the second writer gives every pair that is not of mixed strong    *)
(* direction exactly the UFO value -- the class-pair loss of the first     *)
(* writer (F-C05-1) does not occur -- and that a mixed pair gets zero, the *)
(* UFO value, or (known finding F-C05-3) the value of a covering entry.    *)
(***************************************************************************)
EXTENDS UfoKerning, SequencesExt, TLC

CONSTANTS MaxEntries

Glyph == 0..4
\* 0 = a (Latn, L)   1 = be-cy (Cyrl, L)   2 = alef-ar (Arab, R)   3 = one (Zyyy, EN -> "L")   4 = x.alt (unencoded)
ScriptsOf(g) == CASE g = 0 -> {"Latn"} [] g = 1 -> {"Cyrl"} [] g = 2 -> {"Arab"} [] g = 3 -> {"Zyyy"} [] OTHER -> {}
BidiOf(g) == CASE g \in {0, 1, 3} -> {"L"} [] g = 2 -> {"R"} [] OTHER -> {}
Dir(s) == IF s = "Zyyy" THEN "Auto" ELSE IF s = "Arab" THEN "RTL" ELSE "LTR"
Resolved(g) == IF ScriptsOf(g) = {} \/ "Zyyy" \in ScriptsOf(g) THEN {"Zyyy"} ELSE ScriptsOf(g)

VARIABLES pc, g1, g2, kern
vars == <<pc, g1, g2, kern>>
GroupNames == {"y"}
Groups(f1, f2) ==
  LET mk(f, side) == {[name |-> n, side |-> side, members |-> SetToSeq({g \in Glyph : f[g] = n})] : n \in GroupNames}
  IN SetToSeq(mk(f1, 1) \cup mk(f2, 2))
KeyList == [k \in 1..5 |-> [g |-> k - 1]] \o <<[c |-> "y"]>>
NK == Len(KeyList)
Code(e) == (CHOOSE k \in 1..NK : KeyList[k] = e.l) * NK + (CHOOSE k \in 1..NK : KeyList[k] = e.r)

Init == pc = 0 /\ g1 = [g \in Glyph |-> "none"] /\ g2 = [g \in Glyph |-> "none"] /\ kern = <<>>
PickG1 == pc = 0 /\ g1' \in [Glyph -> GroupNames \cup {"none"}] /\ pc' = 1 /\ UNCHANGED <<g2, kern>>
PickG2 == pc = 1 /\ g2' \in [Glyph -> GroupNames \cup {"none"}] /\ pc' = 2 /\ UNCHANGED <<g1, kern>>
AddEntry == /\ pc = 2 /\ Len(kern) < MaxEntries
            /\ \E l \in 1..NK, r \in 1..NK, v \in {40, -24} :
                  LET e == [l |-> KeyList[l], r |-> KeyList[r], v |-> v] IN
                  /\ (Len(kern) > 0 => Code(kern[Len(kern)]) < Code(e))
                  /\ kern' = Append(kern, e)
            /\ UNCHANGED <<pc, g1, g2>>
Finish == pc = 2 /\ pc' = 3 /\ UNCHANGED <<g1, g2, kern>>
Next == PickG1 \/ PickG2 \/ AddEntry \/ Finish
Spec == Init /\ [][Next]_vars

GS == Groups(g1, g2)
Side(k, side) == KeyGlyphs(GS, k, side, Glyph)

\* ---- getKerningPairs ------------------------------------------------------------------------
Pairs ==
  {[s1 |-> Side(kern[k].l, 1), s2 |-> Side(kern[k].r, 2), c1 |-> ~IsGlyphKey(kern[k].l), c2 |-> ~IsGlyphKey(kern[k].r),
    v |-> Quant(kern[k].v, 1)] : k \in {k \in 1..Len(kern) : Side(kern[k].l, 1) # {} /\ Side(kern[k].r, 2) # {}}}

\* ---- glyph direction (script direction; common / unencoded = Neutral) and bidi class (digits count as L) ----------
GDir(g) == CASE g \in {0, 1} -> "L" [] g = 2 -> "R" [] OTHER -> "N"
GBidi(g) == CASE g \in {0, 1, 3} -> "L" [] g = 2 -> "R" [] OTHER -> "N"
\* ---- partition_by_direction ---------------------------------------------------------------------------------------
SideDir(side, d) == {g \in side : GDir(g) = d}
DirsOfSide(side) == {GDir(g) : g \in side}
Parts(p) ==
  {[dom |-> IF d[2] = "N" THEN d[1] ELSE d[2], s1 |-> SideDir(p.s1, d[1]), s2 |-> SideDir(p.s2, d[2]), c1 |-> p.c1, c2 |-> p.c2, v |-> p.v]
   : d \in {d \in DirsOfSide(p.s1) \X DirsOfSide(p.s2) :
              /\ (d[1] = d[2] \/ d[1] = "N" \/ d[2] = "N")                                   \* clashing directions are skipped
              /\ LET b1 == {GBidi(g) : g \in SideDir(p.s1, d[1])}  b2 == {GBidi(g) : g \in SideDir(p.s2, d[2])}
                 IN b1 = b2 \/ "N" \in b1 \/ "N" \in b2}}                                      \* clashing bidi classes are skipped
AllParts == UNION {Parts(p) : p \in Pairs}
Kind(sp) == (IF sp.c1 THEN 2 ELSE 0) + (IF sp.c2 THEN 1 ELSE 0)
\* one lookup per dominant direction; inside it the first statement (sorted by kind) that covers the pair decides
LookupVal(d, a, b) ==
  LET cov == {sp \in AllParts : sp.dom = d /\ a \in sp.s1 /\ b \in sp.s2} IN
  IF cov = {} THEN 0 ELSE (CHOOSE sp \in cov : \A o \in cov : Kind(sp) <= Kind(o)).v
Has(d) == \E sp \in AllParts : sp.dom = d
\* ---- register_lookups ----------------------------------------------------------------------------------------------------
KnownScripts == UNION {ScriptsOf(g) : g \in Glyph} \ {"Zyyy"}
LookupsFor(s) ==
  IF s = "DFLT" THEN (IF Has("N") THEN {"N"} ELSE {}) \cup (IF Has("L") THEN {"L"} ELSE IF Has("R") THEN {"R"} ELSE {})
  ELSE (IF Has("N") THEN {"N"} ELSE {}) \cup (IF Dir(s) = "LTR" /\ Has("L") THEN {"L"} ELSE {}) \cup (IF Dir(s) = "RTL" /\ Has("R") THEN {"R"} ELSE {})
Applied(s, a, b) == LET seq == SetToSeq(LookupsFor(s)) IN FoldSeq(LAMBDA d, acc : LookupVal(d, a, b) + acc, 0, seq)

\* ---- the property ---------------------------------------------------------------------------------------------------------
Neutral(g) == Resolved(g) = {"Zyyy"}
Admissible(s, g) == Neutral(g) \/ (s # "DFLT" /\ s \in ScriptsOf(g))
Mixed(a, b) == {"R", "L"} \subseteq ({GBidi(a), GBidi(b)})
Reference(a, b) == Quant(Lookup(kern, GS, Glyph, a, b), 1)
Scripts == KnownScripts \cup {"DFLT"}
\* the second writer loses no class pair: every pair that is not of mixed strong direction gets the UFO value under every
\* language system whose script admits both glyphs
C05_Dir == pc = 3 => \A s \in Scripts : \A a, b \in Glyph :
             (Admissible(s, a) /\ Admissible(s, b) /\ ~Mixed(a, b)) => Applied(s, a, b) = Reference(a, b)
\* a mixed pair: zero, the UFO value, or the value of another entry that covers it (F-C05-3)
CoveringValues(a, b) == {Quant(kern[k].v, 1) : k \in {k \in 1..Len(kern) : a \in Side(kern[k].l, 1) /\ b \in Side(kern[k].r, 2)}}
C05_DirMixed == pc = 3 => \A s \in Scripts : \A a, b \in Glyph :
             (Admissible(s, a) /\ Admissible(s, b) /\ Mixed(a, b)) => Applied(s, a, b) \in {0} \cup CoveringValues(a, b)
\* must FAIL (F-C05-3 is real): a mixed pair always gets zero or the UFO value
C05_DirMixed_Strict == pc = 3 => \A s \in Scripts : \A a, b \in Glyph :
             (Admissible(s, a) /\ Admissible(s, b) /\ Mixed(a, b)) => Applied(s, a, b) \in {0, Reference(a, b)}
=============================================================================
