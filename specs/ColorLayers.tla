---------------------------- MODULE ColorLayers ----------------------------
(***************************************************************************)
(* Colour fonts (COLR version 0 / CPAL) as ufo2ft builds them:             *)
(*   ExplodeColorLayerGlyphsFilter (filters/explodeColorLayerGlyphs.py)    *)
(*   copies the colour layers' glyphs into the working glyph set as        *)
(*   alternates '<glyph>.<layer>' and records, per base glyph, the list    *)
(*   of (alternate, palette index); setupTable_COLR / setupTable_CPAL      *)
(*   (outlineCompiler.py) turn that mapping and the palettes into tables.  *)
(* Abstract font t:                                                        *)
(*   t.glyphs   : exported default-layer glyph names, in glyph-set order   *)
(*   t.layers   : << [name, glyphs : << [n, comps : << base names >>,      *)
(*                   same : BOOLEAN (equal to the default-layer glyph)] >>*)
(*   t.mapping  : << <<layer name, palette index>> >>  (font-wide)         *)
(*   t.own      : << [n, mapping] >>  glyphs with a mapping of their own   *)
(*   t.palettes : << << <<r, g, b, a>> >> >>  components in fifths (0..5)  *)
(***************************************************************************)
EXTENDS Integers, Sequences, FiniteSets, FiniteSetsExt, SequencesExt

Rng(s) == {s[k] : k \in 1..Len(s)}
Layer(t, l) == LET S == {k \in 1..Len(t.layers) : t.layers[k].name = l} IN IF S = {} THEN <<>> ELSE t.layers[CHOOSE k \in S : TRUE].glyphs
LGlyph(t, l, n) == LET L == Layer(t, l)  S == {k \in 1..Len(L) : L[k].n = n} IN IF S = {} THEN [n |-> "", comps |-> <<>>, same |-> FALSE] ELSE L[CHOOSE k \in S : TRUE]
InLayer(t, l, n) == \E k \in 1..Len(Layer(t, l)) : Layer(t, l)[k].n = n
MappingOf(t, g) == LET S == {k \in 1..Len(t.own) : t.own[k].n = g} IN IF S = {} THEN t.mapping ELSE t.own[CHOOSE k \in S : TRUE].mapping
\* filter(glyph): the alternate is the glyph itself when the layer's drawing equals the default one
AltName(t, g, l) == IF LGlyph(t, l, g).same THEN g ELSE g \o "." \o l
LayersOf(t, g) == LET m == SelectSeq(MappingOf(t, g), LAMBDA e : InLayer(t, e[1], g))
                  IN [k \in 1..Len(m) |-> <<AltName(t, g, m[k][1]), m[k][2]>>]
\* font.lib[colorLayers] as the filter leaves it
ColorLayers(t) == LET bases == SelectSeq(t.glyphs, LAMBDA g : Len(LayersOf(t, g)) > 0)
                  IN [k \in 1..Len(bases) |-> [base |-> bases[k], layers |-> LayersOf(t, bases[k])]]
\* _copyGlyph: the alternate and, recursively, copies of the layer glyphs it is composed of
RECURSIVE Reach(_, _, _, _)
Reach(t, l, todo, seen) ==
  IF todo = {} THEN seen
  ELSE LET n == CHOOSE n \in todo : TRUE
           nxt == Rng(LGlyph(t, l, n).comps) \ (seen \cup {n})
       IN Reach(t, l, (todo \ {n}) \cup nxt, seen \cup {n})
Copied(t) == UNION {UNION {IF InLayer(t, e[1], g) /\ ~LGlyph(t, e[1], g).same
                           THEN {n \o "." \o e[1] : n \in Reach(t, e[1], {g}, {})} ELSE {}
                           : e \in Rng(MappingOf(t, g))} : g \in Rng(t.glyphs)}
\* CPAL: colour components are floats in the source; 0..5 fifths become 0, 51, ..., 255
Byte(f) == 51 * f
Palettes(t) == [p \in 1..Len(t.palettes) |-> [c \in 1..Len(t.palettes[p]) |->
                  <<Byte(t.palettes[p][c][1]), Byte(t.palettes[p][c][2]), Byte(t.palettes[p][c][3]), Byte(t.palettes[p][c][4])>>]]
\* design properties of the mapping itself
WellFormed(t) ==
  /\ \A k \in 1..Len(ColorLayers(t)) : \A j \in 1..Len(ColorLayers(t)[k].layers) :
        LET a == ColorLayers(t)[k].layers[j][1] IN a \in Copied(t) \/ a = ColorLayers(t)[k].base
=============================================================================
