SPECIFICATION Spec
CONSTANTS
  NG = 2
  Keys <- Keys2
  WithCats = FALSE
  WithLig = FALSE
INVARIANT C06_Model_Strict
CHECK_DEADLOCK FALSE
