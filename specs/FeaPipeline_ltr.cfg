SPECIFICATION Spec
CONSTANTS CopyOnBuild = TRUE
 HasLTR = TRUE
INVARIANT TypeOK
INVARIANT VariableSurvives
PROPERTY OnlyAdds
CHECK_DEADLOCK FALSE
