SPECIFICATION Spec
CONSTANTS
  Fns = {"compileTTF", "compileOTF", "compileVariableTTF", "compileVariableCFF2"}
  Envs = {"e1", "e2"}
  MaxCalls = 3
  WithKnown = TRUE
INVARIANT C08_Pure
INVARIANT C08_OptsRestored
INVARIANT MastersNotPostprocessed
PROPERTY C07_SourcesUntouched
CHECK_DEADLOCK FALSE
