------------------------------- MODULE Outline -------------------------------
(***************************************************************************)
(* What the outline compilers store for a (pre-processed) glyph:           *)
(*  - CFF / CFF2: PointToSegmentPen -> T2CharStringPen(roundTolerance),    *)
(*    read back as moveTo / lineTo / curveTo / closePath;                  *)
(*  - TrueType: TTGlyphPointPen -> glyf points, on/off flags, end points,  *)
(*    components (glyph name, F2Dot14 2x2, rounded offset).                *)
(* and the declarative expectations of C01 / C02 / C12 / C13 stated on the *)
(* SOURCE glyph set (Resolve), independent of the pipeline's route.        *)
(***************************************************************************)
EXTENDS GlyphSet

\* ------------------------------------------------------------------ CFF ----
RoundXY(p, tolS) == <<RoundTol(p[1], tolS), RoundTol(p[2], tolS)>>

(* Expansion of one segment <<type, pts>> starting at on-curve point p0.   *)
(* "qcurve" with off-curves q1..qn: implied on-curves at the midpoints;    *)
(* each quadratic piece is elevated to a cubic whose control points        *)
(* (p + 2q)/3 are not dyadic: they are carried as exact numerators "x3"    *)
(* (three times the PS-scaled value) and matched up to rounding ties.      *)
RECURSIVE QPieces(_, _, _, _)
QPieces(p0, offs, k, pend) ==
  IF k > Len(offs) THEN <<>>
  ELSE LET q == offs[k]
           p1 == IF k = Len(offs) THEN pend
                 ELSE << (q[1] + offs[k+1][1]) \div 2, (q[2] + offs[k+1][2]) \div 2 >>
       IN << [t |-> "qc", c1 |-> <<p0[1] + 2*q[1], p0[2] + 2*q[2]>>,
                          c2 |-> <<p1[1] + 2*q[1], p1[2] + 2*q[2]>>, on |-> p1] >>
          \o QPieces(p1, offs, k + 1, pend)

RECURSIVE ExpandSegs(_, _, _)
ExpandSegs(p0, segs, k) ==
  IF k > Len(segs) THEN <<>>
  ELSE LET ty == segs[k][1]
           pts == segs[k][2]
           pend == pts[Len(pts)]
           head == IF ty = "line" \/ Len(pts) = 1 THEN << [t |-> "line", on |-> pend] >>
                   ELSE IF ty = "curve" /\ Len(pts) = 3
                        THEN << [t |-> "curve", c1 |-> pts[1], c2 |-> pts[2], on |-> pend] >>
                        ELSE QPieces(p0, SubSeq(pts, 1, Len(pts) - 1), 1, pend)
       IN head \o ExpandSegs(pend, segs, k + 1)

ExpContourCFF(c) ==
  LET sg == DropClosingLine(Segments(c))
  IN [start |-> sg.start, segs |-> ExpandSegs(sg.start, sg.segs, 1)]

ExpCFF(gs, n) == LET r == Resolve(gs, n) IN [k \in 1..Len(r) |-> ExpContourCFF(r[k])]

\* does an observed contour [start, segs = << <<type, <<pts>>>> >>] match the expectation under tolerance tolS ?
TieOK(o, x3) == 2 * Abs(3 * o - x3) <= 3 * PS        \* |o - x3/3| <= 1/2 unit (o integral, PS-scaled)
SegMatches(e, o, tolS) ==
  CASE e.t = "line"  -> o[1] = "line"  /\ Len(o[2]) = 1 /\ o[2][1] = RoundXY(e.on, tolS)
    [] e.t = "curve" -> o[1] = "curve" /\ Len(o[2]) = 3 /\ o[2][1] = RoundXY(e.c1, tolS)
                         /\ o[2][2] = RoundXY(e.c2, tolS) /\ o[2][3] = RoundXY(e.on, tolS)
    [] e.t = "qc"    -> o[1] = "curve" /\ Len(o[2]) = 3 /\ o[2][3] = RoundXY(e.on, tolS)
                         /\ TieOK(o[2][1][1], e.c1[1]) /\ TieOK(o[2][1][2], e.c1[2])
                         /\ TieOK(o[2][2][1], e.c2[1]) /\ TieOK(o[2][2][2], e.c2[2])
\* Zero-length line segments (after rounding) are not drawing operations: the charstring specialiser drops
\* "0 0 rlineto", the unoptimised encoder keeps it.  Both sides are compared without them, and without a
\* (then) trailing line back to the start point.
RECURSIVE DropZeroLines(_, _, _, _)
DropZeroLines(segs, k, prev, tolS) ==
  IF k > Len(segs) THEN <<>>
  ELSE LET e == segs[k]  on == RoundXY(e.on, tolS) IN
       IF e.t = "line" /\ on = prev THEN DropZeroLines(segs, k + 1, prev, tolS)
       ELSE <<e>> \o DropZeroLines(segs, k + 1, on, tolS)
NormSegs(e, tolS) ==
  LET st == RoundXY(e.start, tolS)
      s1 == DropZeroLines(e.segs, 1, st, tolS)
  IN IF Len(s1) > 0 /\ s1[Len(s1)].t = "line" /\ RoundXY(s1[Len(s1)].on, tolS) = st
     THEN SubSeq(s1, 1, Len(s1) - 1) ELSE s1
ContourMatches(e, o, tolS) ==
  LET es == NormSegs(e, tolS) IN
  /\ o.start = RoundXY(e.start, tolS)
  /\ Len(o.segs) = Len(es)
  /\ \A k \in 1..Len(es) : SegMatches(es[k], o.segs[k], tolS)
OutlineMatches(exp, obs, tolS) ==
  /\ Len(obs) = Len(exp)
  /\ \A k \in 1..Len(exp) : ContourMatches(exp[k], obs[k], tolS)
\* order-insensitive variant (skipExportGlyphs may reorder contours): a bijection must exist; checked greedily
\* through counting, which is exact when matching is an equivalence (no "qc" segments) and sound otherwise.
OutlineMatchesBag(exp, obs, tolS) ==
  /\ Len(obs) = Len(exp)
  /\ \A k \in 1..Len(exp) :
        Cardinality({j \in 1..Len(obs) : ContourMatches(exp[k], obs[j], tolS)})
          >= Cardinality({j \in 1..Len(exp) : exp[j] = exp[k]})
  /\ \A j \in 1..Len(obs) : \E k \in 1..Len(exp) : ContourMatches(exp[k], obs[j], tolS)

\* ------------------------------------------------------------- TrueType ----
\* rotate a closed contour so that it starts at its first on-curve point
RotFirstOn(c) ==
  LET on == {i \in 1..Len(c) : IsOn(c[i])}
  IN IF on = {} \/ c[1][3] = "move" THEN c
     ELSE SubSeq(c, Min(on), Len(c)) \o SubSeq(c, 1, Min(on) - 1)
HasCubic(c) == \E i \in 1..Len(c) : c[i][3] = "curve"
TTPoint(p) == <<RoundInt(p[1]), RoundInt(p[2]), IF IsOn(p) THEN 1 ELSE 0>>
TTContour(c) == [k \in 1..Len(c) |-> TTPoint(c[k])]
\* observed glyph: [pts |-> <<x, y, on>>..., ends |-> ..., comps |-> ...] ; contour k of it
ObsContour(g, k) ==
  LET lo == IF k = 1 THEN 1 ELSE g.ends[k-1] + 2
      hi == g.ends[k] + 1
  IN SubSeq(g.pts, lo, hi)
OnCurves(c) == SelectSeq(c, LAMBDA p : p[3] = 1)

\* F2Dot14 component record expected for a kept reference (2x2 at scale 16384 = 256 * MS)
TTComp(c) == [b |-> c.b, m |-> <<256*c.m[1], 256*c.m[2], 256*c.m[3], 256*c.m[4]>>,
              d |-> <<RoundInt(c.d[1]), RoundInt(c.d[2])>>]
Overflows(g) == \E k \in 1..Len(g.comps) : \E e \in 1..4 : Abs(g.comps[k].m[e]) > 2*MS
Clamped(g)   == \E k \in 1..Len(g.comps) : \E e \in 1..4 : g.comps[k].m[e] = 2*MS

=============================================================================
