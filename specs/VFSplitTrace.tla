--------------------------- MODULE VFSplitTrace ---------------------------
(***************************************************************************)
(* Trace acceptor binding VFSplit.tla to compileVariableTTFs / CFF2s runs. *)
(* Record: tid, masters = << [name, disc, pos] >>, vfs = << [name, disc,   *)
(* lo, hi, dflt] >>, req = << names >>, and the observation:               *)
(*   calls = << << master names >> >>  one entry per interpolatable        *)
(*           pre-processing run (hook event IPreStart), in order,          *)
(*   bases = << <<vf name, master name>> >>  the master whose font info    *)
(*           each returned variable font carries (read from OS/2 vendor),  *)
(*   err   = "" | exception class.                                         *)
(* Model clauses only (a deviation that keeps the listed properties is     *)
(* reported as DRIFT): the run compiles exactly VFSplit!Groups, each       *)
(* variable font derives from VFSplit!Base, it raises iff VFSplit!Fails.   *)
(***************************************************************************)
EXTENDS Integers, Sequences, FiniteSets, FiniteSetsExt, SequencesExt, Json, IOUtils, TLC, TLCExt

Traces == ndJsonDeserialize(IOEnv.TRACE_FILE)
\* the functional statement of VFSplit.tla (its algorithm variables play no part here)
V == INSTANCE VFSplit WITH PerVF <- FALSE, HoistDefault <- FALSE, Discs <- {}, Positions <- {}, MaxVFs <- 0,
                           Doc <- <<>>, pc <- "", vi <- 0, needed <- {}, base <- <<>>, calls <- <<>>, last <- <<>>, failed <- FALSE
VARIABLE i
Has(r, f) == f \in DOMAIN r
D(t) == [masters |-> t.masters, vfs |-> t.vfs, req |-> {t.req[k] : k \in 1..Len(t.req)}]
NameSet(t, S) == {t.masters[m].name : m \in S}
ObsCalls(t) == {{t.calls[c][k] : k \in 1..Len(t.calls[c])} : c \in 1..Len(t.calls)}
Clauses(t) ==
  LET d == D(t) IN
  IF t.err # "" THEN << <<"raises-iff-a-requested-font-lacks-its-default", V!Fails(d)>> >>
  ELSE << <<"raises-iff-a-requested-font-lacks-its-default", ~V!Fails(d)>>,
          <<"calls-are-groups", ~V!Fails(d) => ObsCalls(t) = {NameSet(t, g) : g \in V!Groups(d)}>>,
          <<"each-needed-source-compiled-once", Len(t.calls) = Cardinality(ObsCalls(t))
                                                /\ \A a, b \in ObsCalls(t) : a # b => a \cap b = {}>>,
          <<"base-is-own-default", ~V!Fails(d) =>
               \A k \in V!Requested(d) : \E j \in 1..Len(t.bases) :
                  t.bases[j][1] = d.vfs[k].name /\ t.bases[j][2] = t.masters[V!Base(d, d.vfs[k])].name>>,
          <<"returns-the-requested-fonts", {t.bases[j][1] : j \in 1..Len(t.bases)} = {d.vfs[k].name : k \in V!Requested(d)}>> >>
Init == i = 1
Next == /\ i <= Len(Traces)
        /\ LET t == Traces[i]  cl == Clauses(t)  bad == {k \in 1..Len(cl) : ~cl[k][2]}
           IN PrintT(<<"VERDICT", t.tid, "none", IF bad = {} THEN "none" ELSE cl[Min(bad)][1]>>)
        /\ i' = i + 1
Spec == Init /\ [][Next]_i
=============================================================================
