----------------------------- MODULE KernTrace -----------------------------
(***************************************************************************)
(* Trace acceptor for property C05 (and the kerning part of C10 / C13):    *)
(* the compiled GPOS / GDEF of a real compile is interpreted with          *)
(* OTPos.tla and compared, for every script / language system / admissible *)
(* glyph pair, with the UFO kerning value computed by UfoKerning.tla.      *)
(* Record: tid, n (number of glyphs), glyphs[gid+1] = [scripts, bidi],     *)
(* kerning, groups, q, tags = << [tag, script, rtl] >>, F = [gpos, gdef].  *)
(***************************************************************************)
EXTENDS OTPos, UfoKerning, Json, IOUtils, TLC, TLCExt

Traces == ndJsonDeserialize(IOEnv.TRACE_FILE)
VARIABLE i

Has(r, f) == f \in DOMAIN r
G(t, g) == t.glyphs[g + 1]
Scripts(t, g) == Rng(G(t, g).scripts)
Bidi(t, g) == Rng(G(t, g).bidi)
Neutral(t, g) == Scripts(t, g) = {} \/ "Zyyy" \in Scripts(t, g) \/ "Zinh" \in Scripts(t, g)
Exported(t) == 0..(t.n - 1)

\* can glyph g occur in a run of the script of tag record tr ?
Admissible(t, tr, g) == Neutral(t, g) \/ (tr.script \notin {"Zyyy", "Zinh"} /\ tr.script \in Scripts(t, g))
\* the writer is specified to drop pairs that mix right-to-left (R, AL) with left-to-right (L, EN, AN) glyphs
Mixed(t, a, b) == {"R", "L"} \subseteq (Bidi(t, a) \cup Bidi(t, b))
HasKern(t, tr, lang) == FeatureTags(t.F, tr.tag, lang) \cap {"kern", "dist"} # {}

Expected(t, a, b) == Quant(Lookup(t.kerning, t.groups, Exported(t), a, b), t.q)

(***************************************************************************)
(* Known finding F-C05-1: the deciding UFO entry has a class side and the  *)
(* union of its members' bidi types contains both R and L; the writer      *)
(* drops the whole class pair.                                             *)
(***************************************************************************)
Known_C05_1(t, a, b) ==
  LET d == Deciding(t.kerning, t.groups, Exported(t), a, b) IN
  d # 0 /\ (~IsGlyphKey(t.kerning[d].l) \/ ~IsGlyphKey(t.kerning[d].r)) /\
  LET ms == KeyGlyphs(t.groups, t.kerning[d].l, 1, Exported(t)) \cup KeyGlyphs(t.groups, t.kerning[d].r, 2, Exported(t))
  IN {"R", "L"} \subseteq UNION {Bidi(t, g) : g \in ms}
\* Known finding F-C05-2: two script-neutral glyphs under a right-to-left script get no x-placement
\* (neutral = no script of strong direction by the Unicode Script property: common, inherited -- which includes
\* combining marks -- or unencoded; the direction-split writer classifies by that property)
DirNeutral(t, g) == Rng(G(t, g).sc) \subseteq {"Zyyy", "Zinh"}
Known_C05_2(t, a, b) == DirNeutral(t, a) /\ DirNeutral(t, b)

\* Known finding F-C05-3 (consequence of F-C05-1 for a MIXED pair): the deciding entry -- an exception with a class side
\* whose members mix R and L -- is dropped as a whole, and a less specific entry that also covers the pair still applies
Covers(t, k, a, b) == a \in KeyGlyphs(t.groups, t.kerning[k].l, 1, Exported(t)) /\ b \in KeyGlyphs(t.groups, t.kerning[k].r, 2, Exported(t))
Known_C05_3(t, a, b, adv) ==
  \* (the deciding entry itself is dropped because the pair is mixed -- a glyph-glyph exception -- or because its class side
  \*  mixes R and L members; what distinguishes the finding is that ANOTHER entry covering the pair supplies the value)
  /\ \E k \in 1..Len(t.kerning) : k # Deciding(t.kerning, t.groups, Exported(t), a, b) /\ Covers(t, k, a, b) /\ Quant(t.kerning[k].v, t.q) = adv

\* Known finding F-C05-4: the source declares no glyph classes (no public.openTypeCategories, no GDEF in the feature file), so
\* the kern writer treats every glyph as a base and puts all pairs in the lookup that IGNORES MARKS -- while the mark writer's
\* markClass statements make feaLib classify the attaching glyphs as marks in the compiled GDEF: a pair with such a glyph
\* can never apply
Declared(t) == Has(t, "declared") /\ t.declared
Known_C05_4(t, a, b, adv) == ~Declared(t) /\ Has(t, "declared") /\ (IsMarkGlyph(t.F, a) \/ IsMarkGlyph(t.F, b)) /\ adv = 0

\* Known finding F-C05-5 (same root as F-C05-1: a class pair is treated as a whole): the deciding entry has a class side one of whose
\* members is a left-to-right glyph (a digit, say); the writer then emits the left-to-right value record for the whole class pair,
\* and its member pairs made of right-to-left-script glyphs with NEUTRAL bidi class get the advance but no x-placement
Known_C05_5(t, a, b) ==
  LET d == Deciding(t.kerning, t.groups, Exported(t), a, b) IN
  d # 0 /\ (~IsGlyphKey(t.kerning[d].l) \/ ~IsGlyphKey(t.kerning[d].r)) /\
  LET ms == KeyGlyphs(t.groups, t.kerning[d].l, 1, Exported(t)) \cup KeyGlyphs(t.groups, t.kerning[d].r, 2, Exported(t))
  IN "L" \in UNION {Bidi(t, g) : g \in ms}

AllLangs(t) == UNION {Languages(t.F, t.tags[k].tag) : k \in 1..Len(t.tags)}
Triples(t) == {x \in (1..Len(t.tags)) \X AllLangs(t) \X Exported(t) \X Exported(t) :
                  LET k == x[1]  lang == x[2]  a == x[3]  b == x[4] IN
                  /\ lang \in Languages(t.F, t.tags[k].tag)
                  \* every language system of a script for which kerning is registered at all (a language system that other
                  \* generated features created but kerning skipped applies 0 to every pair)
                  /\ \E l2 \in Languages(t.F, t.tags[k].tag) : HasKern(t, t.tags[k], l2)
                  /\ Admissible(t, t.tags[k], a) /\ Admissible(t, t.tags[k], b)}

AdvOff(t)  == {x \in Triples(t) : ~Mixed(t, x[3], x[4]) /\ ~Known_C05_1(t, x[3], x[4])
                                  /\ PairValue(t.F, t.tags[x[1]].tag, x[2], x[3], x[4]).adv # Expected(t, x[3], x[4])}
AdvKnown4(t) == {x \in AdvOff(t) : Known_C05_4(t, x[3], x[4], PairValue(t.F, t.tags[x[1]].tag, x[2], x[3], x[4]).adv)}
AdvBad(t) == AdvOff(t) \ AdvKnown4(t)
AdvKnown(t) == {x \in Triples(t) : ~Mixed(t, x[3], x[4]) /\ Known_C05_1(t, x[3], x[4])
                                  /\ PairValue(t.F, t.tags[x[1]].tag, x[2], x[3], x[4]).adv # Expected(t, x[3], x[4])}
MixedOff(t) == {x \in Triples(t) : Mixed(t, x[3], x[4])
                                  /\ PairValue(t.F, t.tags[x[1]].tag, x[2], x[3], x[4]).adv \notin {0, Expected(t, x[3], x[4])}}
MixedKnown(t) == {x \in MixedOff(t) : Known_C05_3(t, x[3], x[4], PairValue(t.F, t.tags[x[1]].tag, x[2], x[3], x[4]).adv)}
MixedBad(t) == MixedOff(t) \ MixedKnown(t)
RtlWanted(t, x) == t.tags[x[1]].rtl /\ "L" \notin (Bidi(t, x[3]) \cup Bidi(t, x[4])) /\ ~Mixed(t, x[3], x[4])
PlcKnown5(t) == {x \in Triples(t) : RtlWanted(t, x) /\ ~Known_C05_2(t, x[3], x[4]) /\ ~Known_C05_1(t, x[3], x[4]) /\ Known_C05_5(t, x[3], x[4])
                                  /\ LET v == PairValue(t.F, t.tags[x[1]].tag, x[2], x[3], x[4]) IN v.plc # v.adv}
PlcBad(t)  == {x \in Triples(t) : RtlWanted(t, x) /\ ~Known_C05_2(t, x[3], x[4]) /\ ~Known_C05_1(t, x[3], x[4]) /\ ~Known_C05_5(t, x[3], x[4])
                                  /\ LET v == PairValue(t.F, t.tags[x[1]].tag, x[2], x[3], x[4]) IN v.plc # v.adv}
PlcKnown(t) == {x \in Triples(t) : RtlWanted(t, x) /\ Known_C05_2(t, x[3], x[4])
                                  /\ LET v == PairValue(t.F, t.tags[x[1]].tag, x[2], x[3], x[4]) IN v.plc # v.adv}
LtrPlcBad(t) == {x \in Triples(t) : ~t.tags[x[1]].rtl /\ PairValue(t.F, t.tags[x[1]].tag, x[2], x[3], x[4]).plc # 0}
YBad(t)    == {x \in Triples(t) : PairValue(t.F, t.tags[x[1]].tag, x[2], x[3], x[4]).yany # 0}

Witness(S) == IF S = {} THEN <<>> ELSE CHOOSE x \in S : TRUE

Init == i = 1
Next ==
  /\ i <= Len(Traces)
  /\ LET t == Traces[i]
         ab == AdvBad(t)  mb == MixedBad(t)  pb == PlcBad(t)  yb == YBad(t)  lb == LtrPlcBad(t)
         p == IF ab # {} THEN "advance-equals-ufo-value"
              ELSE IF mb # {} THEN "mixed-direction-zero-or-value"
              ELSE IF pb # {} THEN "rtl-placement-equals-advance"
              ELSE IF lb # {} THEN "ltr-no-placement"
              ELSE IF yb # {} THEN "no-vertical-or-second-record" ELSE "none"
         w == IF ab # {} THEN Witness(ab) ELSE IF mb # {} THEN Witness(mb) ELSE IF pb # {} THEN Witness(pb)
              ELSE IF lb # {} THEN Witness(lb) ELSE Witness(yb)
     IN PrintT(<<"VERDICT", t.tid, p, "none", Cardinality(Triples(t)), Cardinality(AdvKnown(t)), Cardinality(PlcKnown(t)),
                 ToString(w), Cardinality(MixedKnown(t)), Cardinality(AdvKnown4(t)), Cardinality(PlcKnown5(t))>>)
  /\ i' = i + 1
Spec == Init /\ [][Next]_i
=============================================================================
