----------------------------- MODULE ColorTrace -----------------------------
(***************************************************************************)
(* Trace acceptor binding ColorLayers.tla to compiled colour fonts.        *)
(* Record: the abstract font of ColorLayers.tla plus the observation       *)
(*   order (compiled glyph order), colr = << [base, layers = <<name, idx>>]*)
(*   >> sorted by base glyph id as stored, cpal = palettes in bytes,       *)
(*   encoded = names reachable through the cmap.                           *)
(* Model clauses ("M"): a deviation is reported as DRIFT.                  *)
(***************************************************************************)
EXTENDS ColorLayers, Json, IOUtils, TLC, TLCExt
Traces == ndJsonDeserialize(IOEnv.TRACE_FILE)
VARIABLE i
AsSet(cl) == {<<cl[k].base, cl[k].layers>> : k \in 1..Len(cl)}
Clauses(t) ==
  << <<"colr-records-equal-model", AsSet(t.colr) = AsSet(ColorLayers(t))>>,
     <<"alternates-exported", Copied(t) \subseteq Rng(t.order)>>,
     <<"no-other-glyphs-added", Rng(t.order) \subseteq Rng(t.glyphs) \cup Copied(t) \cup {".notdef"}>>,
     <<"alternates-unencoded", Copied(t) \cap Rng(t.encoded) = {}>>,
     <<"cpal-equals-palettes", t.cpal = Palettes(t)>>,
     <<"mapping-well-formed", WellFormed(t)>> >>
Init == i = 1
Next == /\ i <= Len(Traces)
        /\ LET t == Traces[i]  cl == Clauses(t)  bad == {k \in 1..Len(cl) : ~cl[k][2]}
           IN PrintT(<<"VERDICT", t.tid, "none", IF bad = {} THEN "none" ELSE cl[Min(bad)][1]>>)
        /\ i' = i + 1
Spec == Init /\ [][Next]_i
=============================================================================
