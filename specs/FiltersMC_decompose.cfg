SPECIFICATION Spec
CONSTANTS
  TSet <- TSQuick
  FilterKinds <- DecomposeOnly
INVARIANT ModelAgrees
INVARIANT C15_RenderPreserved
INVARIANT C14_OutsidersUntouched
INVARIANT C14_ReportsChanges
CHECK_DEADLOCK FALSE
