SPECIFICATION Spec
CONSTANTS
  MaxEntries = 1
INVARIANT C05_Strict
CHECK_DEADLOCK FALSE
