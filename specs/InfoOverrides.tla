--------------------------- MODULE InfoOverrides ---------------------------
(***************************************************************************)
(* Variable-font info overrides (designspace <variable-font> lib key       *)
(* public.fontInfo), InfoCompiler (infoCompiler.py): after the masters are *)
(* merged, each variable font's name / OS/2 / hhea / head / post fields    *)
(* are recompiled from a TEMPORARY info object = its base master's info    *)
(* with the overrides set on it.  Several variable fonts may share a base  *)
(* master; they are compiled one after the other.                          *)
(*   Copy = TRUE  : the temporary object is a copy (the code)              *)
(*   Copy = FALSE : the overrides are set on the master's own info object  *)
(*                  (seeded changes C08-c, C16-g): state leaks from one    *)
(*                  variable font to the next and into the caller's source *)
(* TLC checks both obligations over every assignment of override sets to   *)
(* the variable fonts and every compile order.                             *)
(***************************************************************************)
EXTENDS Integers, Sequences, FiniteSets, TLC

CONSTANTS Copy, Attrs, VFs
\* master values are 0; variable font v overrides attribute a with value v (v >= 1) when a \in over[v]
VARIABLES over, minfo, out, done
vars == <<over, minfo, out, done>>
Init == /\ over \in [VFs -> SUBSET Attrs] /\ minfo = [a \in Attrs |-> 0] /\ out = [v \in VFs |-> <<>>] /\ done = {}
Compile(v) ==
  /\ v \notin done
  /\ LET temp == [a \in Attrs |-> IF a \in over[v] THEN v ELSE minfo[a]] IN
     /\ out' = [out EXCEPT ![v] = temp]
     /\ minfo' = IF Copy THEN minfo ELSE temp
  /\ done' = done \cup {v} /\ UNCHANGED over
Next == \E v \in VFs : Compile(v)
Spec == Init /\ [][Next]_vars
\* C07: the caller's master is never modified
SourceUntouched == minfo = [a \in Attrs |-> 0]
\* C16: explicit overrides win, everything else falls back to the MASTER's value -- whatever was compiled before
OwnOverridesOnly == \A v \in done : out[v] = [a \in Attrs |-> IF a \in over[v] THEN v ELSE 0]
=============================================================================
