--------------------------- MODULE PipelineTrace ---------------------------
(***************************************************************************)
(* Trace acceptor for static compiles (compileOTF / compileTTF) recorded   *)
(* through the UFO2FT_VERIF hooks.  One NDJSON record = one compile:       *)
(*   tid, flavor ("cff" | "tt"), opts, src (source default layer),         *)
(*   events = << PreStart, Filter*, Preprocessed, Outlines, ..., >>,       *)
(*   ret = projection of the saved-and-reloaded font (or err).             *)
(* A record with a field `master` is one master of an interpolatable     *)
(* compile: it carries no events and only the final clauses apply.        *)
(* The specification's state is the working glyph set `gs`; each event is  *)
(* one action: the model successor is computed with the operators of       *)
(* Filters.tla (model clause "M") and the listed properties are evaluated  *)
(* on the observed states (property clauses "P").  Verdict lines are total.*)
(***************************************************************************)
EXTENDS Filters, Outline, Json, IOUtils, TLC, TLCExt

Traces == ndJsonDeserialize(IOEnv.TRACE_FILE)

VARIABLES i, j, gs, pc, pf, mf, synced
vars == <<i, j, gs, pc, pf, mf, synced>>

SetOf(seq) == {seq[k] : k \in 1..Len(seq)}
Has(r, f) == f \in DOMAIN r
T == Traces[i]
Skip == SetOf(T.opts.skip)

IncSet(ev, g) ==
  CASE ev.inc.kind = "all"         -> DOMAIN g
    [] ev.inc.kind = "hasContours" -> {n \in DOMAIN g : Len(g[n].cs) > 0}
    [] OTHER                       -> SetOf(ev.inc.names)

\* model successor of a Filter event; abstract filters resynchronise from the log
Abstract(ev) == ev.name \notin {"DecomposeComponents", "DecomposeTransformedComponents", "FlattenComponents",
                                "ReverseContourDirection", "SkipExportGlyphs"}
FilterSucc(ev, g) ==
  CASE ev.name = "DecomposeComponents"            -> DecomposeModel(g, IncSet(ev, g)).gs
    [] ev.name = "DecomposeTransformedComponents" -> DecomposeTransformedModel(g, IncSet(ev, g)).gs
    [] ev.name = "FlattenComponents"              -> FlattenModel(g, IncSet(ev, g)).gs
    [] ev.name = "ReverseContourDirection"        -> ReverseModel(g, IncSet(ev, g)).gs
    [] OTHER                                      -> ev.gs

Note(cur, name, ok) == IF cur = "none" /\ ~ok THEN name ELSE cur

\* --------------------------------------------------------------------------
\* declarative expectations on the final font, stated on the SOURCE
\* --------------------------------------------------------------------------
\* declared source: the default layer plus (colour fonts) the alternates '<glyph>.<layer>' the source's colour layers define
FSrc == IF Has(T, "srcExtra") THEN T.srcExtra @@ T.src ELSE T.src
Exported == (DOMAIN FSrc) \ Skip
TolS == T.opts.tolS

CffGlyphOK(n) ==
  /\ n \in DOMAIN T.ret.outline
  /\ IF Skip = {} THEN OutlineMatches(ExpCFF(FSrc, n), T.ret.outline[n], TolS)
     ELSE OutlineMatchesBag(ExpCFF(FSrc, n), T.ret.outline[n], TolS)
AdvOK(n) == n \in DOMAIN T.ret.adv /\ T.ret.adv[n] = OtRound(FSrc[n].w, PS)

\* TrueType: expected pre-processed glyph set, computed declaratively from the source
S1 == SkipExportSet(FSrc, Skip)
S2 == [n \in DOMAIN S1 |-> IF IsMixed(S1[n]) THEN DecomposeGlyph(S1, n) ELSE S1[n]]
S3 == IF T.opts.flatten THEN [n \in DOMAIN S2 |-> IF HasComps(S2[n]) THEN FlattenGlyph(S2, n) ELSE S2[n]] ELSE S2

TTExpContour(c) ==      \* what a line/quadratic contour becomes
  IF T.opts.convertCubics THEN (IF T.opts.reverse THEN RevContour(RotFirstOn(c)) ELSE RotFirstOn(c))
  ELSE (IF T.opts.reverse THEN RevContour(c) ELSE c)

TTSimpleOK(n, cs) ==    \* cs: the expected (already resolved) contours of the glyph in source direction
  LET g == T.ret.glyf[n] IN
  /\ g.comps = <<>>
  /\ Len(g.ends) = Len(cs)
  /\ \A k \in 1..Len(cs) :
        IF HasCubic(cs[k])
        THEN \* cubic segments are approximated: explicit on-curve points are preserved (rounded, reversed)
             /\ T.opts.convertCubics
             /\ OnCurves(ObsContour(g, k)) = OnCurves(TTContour(TTExpContour(cs[k])))
        ELSE ObsContour(g, k) = TTContour(TTExpContour(cs[k]))

TTGlyphOK(n) ==
  LET e == S3[n] IN
  /\ n \in DOMAIN T.ret.glyf
  /\ IF ~HasComps(e) THEN TTSimpleOK(n, e.cs)
     ELSE IF Overflows(e) THEN TTSimpleOK(n, ResolveNoRev(S3, n))
     ELSE IF Clamped(e) THEN TRUE
     ELSE T.ret.glyf[n].pts = <<>> /\
          [k \in 1..Len(T.ret.glyf[n].comps) |->
              [b |-> T.ret.glyf[n].comps[k].b, m |-> T.ret.glyf[n].comps[k].m, d |-> T.ret.glyf[n].comps[k].d]]
            = [k \in 1..Len(e.comps) |-> TTComp(e.comps[k])]

RetAsSet == [n \in DOMAIN T.ret.glyf |-> [cs |-> <<>>, comps |-> T.ret.glyf[n].comps]]
TTRefsOK ==
  /\ \A n \in DOMAIN T.ret.glyf : \A k \in 1..Len(T.ret.glyf[n].comps) :
        T.ret.glyf[n].comps[k].b \in SetOf(T.ret.order)
  /\ T.ret.maxp.maxComponentElements = Max({0} \cup {Len(T.ret.glyf[n].comps) : n \in DOMAIN T.ret.glyf})
  /\ T.ret.maxp.maxComponentDepth = Max({0} \cup {Depth(RetAsSet, n) : n \in DOMAIN T.ret.glyf})
  /\ T.opts.flatten => \A n \in DOMAIN T.ret.glyf : Depth(RetAsSet, n) <= 1

FinalClauses ==
  IF Has(T.ret, "err") THEN
     << <<"compiles", "P", T.ret.err = T.opts.expectErr>> >>
  ELSE
  << <<"compiles",            "P", T.opts.expectErr = "">>,
     <<"skipped-absent",      "P", SetOf(T.ret.order) \cap Skip = {}>>,
     <<"exported-present",    "P", Exported \subseteq SetOf(T.ret.order)>>,
     <<"advance-rounded",     "P", \A n \in Exported : AdvOK(n)>>,
     \* a 'CFF ' table declares each glyph's advance itself (width operand / defaultWidthX): it is the hmtx advance
     <<"cff-width-equals-advance", "P", Has(T.ret, "cffAdv") => \A n \in DOMAIN T.ret.cffAdv : n \in DOMAIN T.ret.adv /\ T.ret.cffAdv[n] = T.ret.adv[n]>>,
     <<"outline-equals-source", "P", T.flavor = "cff" => \A n \in Exported : CffGlyphOK(n)>>,
     <<"tt-glyph",            "P", T.flavor = "tt" => \A n \in Exported : TTGlyphOK(n)>>,
     <<"tt-references",       "P", T.flavor = "tt" => TTRefsOK>>,
     <<"layout-unchanged",    "P", Has(T.ret, "layoutSame") => T.ret.layoutSame>>,
     <<"order-filtered",      "P", Has(T, "noskipOrder") =>
                                      T.ret.order = SelectSeq(T.noskipOrder, LAMBDA n : n \notin Skip)>>,
     <<"cmap-excludes-skipped", "P", Has(T.ret, "cmapNames") => SetOf(T.ret.cmapNames) \cap Skip = {}>>,
     <<"cu2qu-error",         "P", Has(T.ret, "errMilli") => T.ret.errMilli <= T.opts.tolMilli>>,
     \* before rounding to the grid the converted splines stay within the CONFIGURED conversion error (+ sampling slack)
     <<"cu2qu-error-unrounded", "P", Has(T.ret, "preErrMilli") => T.ret.preErrMilli <= T.opts.preTolMilli>>,
     <<"model-final-cff",     "M", (T.flavor = "cff" /\ pc = "post" /\ synced) =>
                                      \A n \in DOMAIN gs \ {".notdef"} :
                                         n \in DOMAIN T.ret.outline /\ OutlineMatches(ExpCFF(gs, n), T.ret.outline[n], TolS)>> >>

FirstFailing(cl, kind) ==
  LET bad == {k \in 1..Len(cl) : cl[k][2] = kind /\ ~cl[k][3]}
  IN IF bad = {} THEN "none" ELSE cl[Min(bad)][1]

\* --------------------------------------------------------------------------
\* actions
\* --------------------------------------------------------------------------
Init == i = 1 /\ j = 0 /\ gs = <<>> /\ pc = "call" /\ pf = "none" /\ mf = "none" /\ synced = TRUE

Events == T.events
Ev == Events[j]

\* Call: CopyLayers -- the working glyph set is a copy of the source default layer
Call ==
  /\ i <= Len(Traces) /\ j = 0
  /\ gs' = T.src /\ pc' = "copied" /\ j' = 1 /\ pf' = "none" /\ mf' = "none" /\ synced' = TRUE /\ UNCHANGED i

\* one hook event = one action
Step ==
  /\ i <= Len(Traces) /\ j >= 1 /\ j <= Len(Events)
  /\ LET ev == Ev
         srcOK == ev.srcSame
     IN
     \* (srcExempt: colour fonts, where the colour-layer filter is known to record its mapping in the caller's lib --
     \*  finding F-C07-2, decided by the C07 check; here it must not hide the outline clauses)
     /\ pf' = Note(pf, "source-untouched@" \o ev.ev, T.opts.inplace \/ srcOK \/ (Has(T.opts, "srcExempt") /\ T.opts.srcExempt))
     /\ CASE ev.ev = "PreStart" ->
               \* _GlyphSet.from_layer(copy, skipExportGlyphs): SkipExportGlyphsFilter on the copy
               LET m == SkipExportModel(gs, Skip).gs IN
               /\ gs' = (IF Has(ev, "gs") THEN ev.gs ELSE m)
               /\ mf' = Note(Note(mf, "grammar@PreStart", pc = "copied"), "model-successor@PreStart", Has(ev, "gs") => ev.gs = m)
               /\ pc' = "filters" /\ synced' = synced
          [] ev.ev = "Filter" ->
               \* a numerically inexact stage (cu2qu, remove-overlaps) has no exact projection: the event
               \* carries no glyph set, the model stops tracking (synced = FALSE) until the next exact log
               IF Has(ev, "gs")
               THEN /\ gs' = ev.gs /\ synced' = TRUE /\ pc' = pc
                    /\ mf' = Note(Note(mf, "grammar@Filter", pc = "filters"), "model-successor@" \o ev.name,
                                  synced => ev.gs = FilterSucc(ev, gs))
               ELSE /\ gs' = gs /\ synced' = FALSE /\ pc' = pc
                    /\ mf' = Note(mf, "grammar@Filter", pc = "filters")
          [] ev.ev = "Preprocessed" ->
               /\ gs' = gs /\ synced' = synced
               /\ mf' = Note(Note(mf, "grammar@Preprocessed", pc = "filters"), "model-successor@Preprocessed",
                             (synced /\ Has(ev, "gs")) => ev.gs = gs)
               /\ pc' = "pre"
          [] ev.ev = "Outlines" ->
               /\ gs' = gs /\ synced' = synced /\ pc' = "outlines"
               /\ mf' = Note(mf, "grammar@Outlines", pc = "pre")
          [] ev.ev = "Postprocessed" ->
               /\ gs' = gs /\ synced' = synced /\ pc' = "post"
               /\ mf' = Note(mf, "grammar@Postprocessed", pc \in {"outlines", "features", "renamed"})
          [] ev.ev = "Features" ->
               /\ gs' = gs /\ synced' = synced /\ pc' = "features" /\ mf' = Note(mf, "grammar@Features", pc = "outlines")
          [] ev.ev \in {"PostCFF", "Renamed"} ->
               /\ gs' = gs /\ synced' = synced /\ pc' = "renamed" /\ mf' = Note(mf, "grammar@" \o ev.ev, pc \in {"outlines", "features", "renamed"})
          [] OTHER -> gs' = gs /\ pc' = pc /\ mf' = mf /\ synced' = synced
  /\ j' = j + 1 /\ UNCHANGED i

\* Return / Raise: evaluate the final clauses, print the verdict, move to the next trace
Return ==
  /\ i <= Len(Traces) /\ j = Len(Events) + 1
  /\ LET cl == FinalClauses
         p == IF pf # "none" THEN pf ELSE FirstFailing(cl, "P")
         m == IF mf # "none" THEN mf
              ELSE IF ~Has(T.ret, "err") /\ pc # "post" /\ ~Has(T, "master") THEN "grammar@Return" ELSE FirstFailing(cl, "M")
     IN PrintT(<<"VERDICT", T.tid, p, m>>)
  /\ i' = i + 1 /\ j' = 0 /\ gs' = <<>> /\ pc' = "call" /\ pf' = "none" /\ mf' = "none" /\ synced' = TRUE

Next == Call \/ Step \/ Return
Spec == Init /\ [][Next]_vars
=============================================================================
