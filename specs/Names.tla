-------------------------------- MODULE Names --------------------------------
(***************************************************************************)
(* Production glyph names (postProcessor._build_production_names,          *)
(* _build_production_name, _unique_name).  A name is a sequence of code    *)
(* points, so that "name + '.N'" can collide with an existing name.        *)
(* glyphs : name |-> [uni : -1 or first code point]                        *)
(* ps     : name |-> supplied PostScript name (function, possibly empty)   *)
(***************************************************************************)
EXTENDS Integers, Sequences, FiniteSets, SequencesExt, FiniteSetsExt

DOT == 46
US == 95
HexDigit(d) == IF d < 10 THEN 48 + d ELSE 55 + d
RECURSIVE HexStr(_)
HexStr(n) == IF n < 16 THEN <<HexDigit(n)>> ELSE Append(HexStr(n \div 16), HexDigit(n % 16))
Pad4(s) == IF Len(s) >= 4 THEN s ELSE [k \in 1..(4 - Len(s)) |-> 48] \o s
Hex4(n) == Pad4(HexStr(n))
RECURSIVE DecStr(_)
DecStr(n) == IF n < 10 THEN <<48 + n>> ELSE Append(DecStr(n \div 10), 48 + (n % 10))
UNI == <<117, 110, 105>>      \* "uni"
U == <<117>>                  \* "u"

Positions(s, c) == {k \in 1..Len(s) : s[k] = c}
\* "[0-9a-zA-Z_.]"
LegalChar(c) == (c >= 48 /\ c <= 57) \/ (c >= 65 /\ c <= 90) \/ (c >= 97 /\ c <= 122) \/ c = US \/ c = DOT
StripIllegal(s) == SelectSeq(s, LegalChar)

\* split a sequence at every occurrence of c
RECURSIVE SplitAt(_, _)
SplitAt(s, c) ==
  LET P == Positions(s, c) IN
  IF P = {} THEN <<s>> ELSE <<SubSeq(s, 1, Min(P) - 1)>> \o SplitAt(SubSeq(s, Min(P) + 1, Len(s)), c)
RECURSIVE JoinWith(_, _)
JoinWith(parts, c) == IF Len(parts) = 0 THEN <<>> ELSE IF Len(parts) = 1 THEN parts[1]
                      ELSE parts[1] \o <<c>> \o JoinWith(Tail(parts), c)

RECURSIVE BuildName(_, _, _, _)
BuildName(glyphs, ps, usePs, name) ==
  IF usePs THEN (IF name \in DOMAIN ps /\ Len(ps[name]) > 0 THEN ps[name] ELSE name)
  ELSE IF glyphs[name].uni >= 0
       THEN (IF glyphs[name].uni > 65535 THEN U ELSE UNI) \o Hex4(glyphs[name].uni)
  ELSE LET dots == Positions(name, DOT)
           base == IF dots = {} THEN name ELSE SubSeq(name, 1, Max(dots) - 1)
           suf == IF dots = {} THEN <<>> ELSE SubSeq(name, Max(dots) + 1, Len(name))
       IN IF dots # {} /\ base \in DOMAIN glyphs
          THEN BuildName(glyphs, ps, usePs, base) \o <<DOT>> \o suf
          ELSE LET first == IF dots = {} THEN name ELSE SubSeq(name, 1, Min(dots) - 1)
                   rest == IF dots = {} THEN <<>> ELSE SubSeq(name, Min(dots) + 1, Len(name))
                   stems == SplitAt(first, US)
                   parts == IF dots = {} THEN stems ELSE [k \in 1..Len(stems) |-> stems[k] \o <<DOT>> \o rest]
               IN IF Len(parts) > 1 /\ \A k \in 1..Len(parts) : parts[k] \in DOMAIN glyphs
                  THEN IF \A k \in 1..Len(parts) : glyphs[parts[k]].uni > 0 /\ glyphs[parts[k]].uni <= 65535
                       THEN UNI \o FlattenSeq([k \in 1..Len(parts) |-> Hex4(glyphs[parts[k]].uni)])
                       ELSE JoinWith([k \in 1..Len(parts) |-> BuildName(glyphs, ps, usePs, parts[k])], US)
                  ELSE name

\* _unique_name: seen is a function name |-> next counter
RECURSIVE NextFree(_, _, _)
NextFree(name, n, seen) == IF (name \o <<DOT>> \o DecStr(n)) \in DOMAIN seen THEN NextFree(name, n + 1, seen) ELSE n
UniqueName(name, seen) ==
  IF name \in DOMAIN seen
  THEN LET n == NextFree(name, seen[name], seen)
           nn == name \o <<DOT>> \o DecStr(n)
       IN [name |-> nn, seen |-> [x \in DOMAIN seen \cup {nn} |-> IF x = nn THEN 1 ELSE IF x = name THEN n + 1 ELSE seen[x]]]
  ELSE [name |-> name, seen |-> [x \in DOMAIN seen \cup {name} |-> IF x = name THEN 1 ELSE seen[x]]]

MaxLen == 63
ValidName(name, prod) ==
  IF name # prod
  THEN LET v == StripIllegal(prod) IN IF Len(v) > MaxLen THEN StripIllegal(name) ELSE v
  ELSE StripIllegal(name)

\* the rename loop over the glyph order (glyphs not in the source are left alone and do not enter `seen`)
RECURSIVE RenameLoop(_, _, _, _, _, _, _)
RenameLoop(order, k, glyphs, ps, usePs, seen, acc) ==
  IF k > Len(order) THEN acc
  ELSE IF order[k] \notin DOMAIN glyphs THEN RenameLoop(order, k + 1, glyphs, ps, usePs, seen, Append(acc, order[k]))
  ELSE LET r == UniqueName(ValidName(order[k], BuildName(glyphs, ps, usePs, order[k])), seen)
       IN RenameLoop(order, k + 1, glyphs, ps, usePs, r.seen, Append(acc, r.name))
Rename(order, glyphs, ps, usePs) == RenameLoop(order, 1, glyphs, ps, usePs, <<>>, <<>>)

IsPrefix2(p, s) == Len(p) <= Len(s) /\ SubSeq(s, 1, Len(p)) = p
Distinct(s) == \A a, b \in 1..Len(s) : a # b => s[a] # s[b]
=============================================================================
