SPECIFICATION Spec
INVARIANT C12_SameDrawing
INVARIANT C12_RaisesIffUnsupported
PROPERTY ContentStable
CHECK_DEADLOCK FALSE
