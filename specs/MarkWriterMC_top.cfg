SPECIFICATION Spec
CONSTANTS
  NG = 3
  Keys <- Keys3
  WithCats = FALSE
  WithLig = FALSE
INVARIANT TopWins
CHECK_DEADLOCK FALSE
