------------------------------ MODULE MetricsMC ------------------------------
(* every advance sequence of length <= 5 over {0, 300, 500}: the precomputation loop = the declarative count *)
EXTENDS Metrics, TLC
VARIABLES adv, pc
Init == adv = <<>> /\ pc = "pick"
Next == pc = "pick" /\ \E L \in 0..5 : \E a \in [1..L -> {0, 300, 500}] : adv' = a /\ pc' = "done"
Spec == Init /\ [][Next]_<<adv, pc>>
C04_NumLong == pc = "done" => NumLong(adv) = NumLongDecl(adv)
=============================================================================
