SPECIFICATION Spec
CONSTANTS
  Glyphs = {"a", "b"}
  LayerLib = TRUE
  KeepUfoList = FALSE
INVARIANT ListedAreSkipped
CHECK_DEADLOCK FALSE
