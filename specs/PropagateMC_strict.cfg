SPECIFICATION Spec
CONSTANT Full = FALSE
CHECK_DEADLOCK FALSE
INVARIANT NeverModelled
