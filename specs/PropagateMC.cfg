SPECIFICATION Spec
CHECK_DEADLOCK FALSE
INVARIANT OnlyAppended
INVARIANT Follows
INVARIANT NoDuplicateName
INVARIANT NeverOverrides
INVARIANT Idempotent
INVARIANT Complete
