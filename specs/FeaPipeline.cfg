SPECIFICATION Spec
CONSTANTS CopyOnBuild = TRUE
 HasLTR = FALSE
INVARIANT TypeOK
INVARIANT VariableSurvives
PROPERTY OnlyAdds
CHECK_DEADLOCK FALSE
