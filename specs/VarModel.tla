------------------------------ MODULE VarModel ------------------------------
(***************************************************************************)
(* Interpolation of masters on ONE axis with masters at integer design     *)
(* locations (the default among them): the variation model is piecewise    *)
(* linear between adjacent masters.  Values are exact scaled integers; the *)
(* harness only emits locations for which the divisions below are exact.   *)
(* A master family is a sequence of [loc, gs] sorted by loc.               *)
(***************************************************************************)
EXTENDS GlyphSet

Lin(a, b, l0, l1, loc) == (a * (l1 - loc) + b * (loc - l0)) \div (l1 - l0)

\* index k such that locs[k] <= loc <= locs[k+1]   (locs strictly increasing, loc within range)
Segment(locs, loc) ==
  IF \E k \in 1..Len(locs) : locs[k] = loc
  THEN LET k == CHOOSE k \in 1..Len(locs) : locs[k] = loc IN IF k = Len(locs) THEN k - 1 ELSE k
  ELSE CHOOSE k \in 1..(Len(locs) - 1) : locs[k] < loc /\ loc < locs[k + 1]

BlendVal(vals, locs, loc) ==
  IF Len(locs) = 1 THEN vals[1]
  ELSE LET k == Segment(locs, loc) IN Lin(vals[k], vals[k + 1], locs[k], locs[k + 1], loc)

\* blend of the same-named glyph of all masters that have it (point compatible).  A master in which the glyph is EMPTY
\* (no contours, no components) does not take part when the default master's glyph is not empty
\* (instantiator.collect_glyph_masters, the "S.closed" rule inherited from ufoProcessor).
IsEmptyGlyph(g) == Len(g.cs) = 0 /\ Len(g.comps) = 0
BlendGlyph(gss, locs, dflt, n, loc) ==
  LET have == SelectSeq([k \in 1..Len(gss) |-> k],
                        LAMBDA k : n \in DOMAIN gss[k] /\ (IsEmptyGlyph(gss[dflt][n]) \/ ~IsEmptyGlyph(gss[k][n])))
      L == [j \in 1..Len(have) |-> locs[have[j]]]
      g(j) == gss[have[j]][n]
      g1 == g(1)
      B(f(_)) == BlendVal([j \in 1..Len(have) |-> f(g(j))], L, loc)
  IN [cs |-> [c \in 1..Len(g1.cs) |-> [q \in 1..Len(g1.cs[c]) |->
                 << B(LAMBDA x : x.cs[c][q][1]), B(LAMBDA x : x.cs[c][q][2]), g1.cs[c][q][3] >>]],
      comps |-> [c \in 1..Len(g1.comps) |->
                 [b |-> g1.comps[c].b,
                  m |-> << B(LAMBDA x : x.comps[c].m[1]), B(LAMBDA x : x.comps[c].m[2]),
                           B(LAMBDA x : x.comps[c].m[3]), B(LAMBDA x : x.comps[c].m[4]) >>,
                  d |-> << B(LAMBDA x : x.comps[c].d[1]), B(LAMBDA x : x.comps[c].d[2]) >>]],
      anchors |-> [a \in 1..Len(g1.anchors) |->
                 [g1.anchors[a] EXCEPT !.x = B(LAMBDA x : x.anchors[a].x), !.y = B(LAMBDA x : x.anchors[a].y)]],
      w |-> B(LAMBDA x : x.w), h |-> B(LAMBDA x : x.h), u |-> g1.u]

\* geometry rounding (round_geometry=True): every coordinate, offset, anchor and advance to the nearest integer,
\* halves up; 2x2 entries are not rounded to integers (fontMath keeps them)
RoundS(v) == PS * OtRound(v, PS)
RoundGlyph(g) ==
  [g EXCEPT !.cs = [c \in 1..Len(g.cs) |-> [q \in 1..Len(g.cs[c]) |-> <<RoundS(g.cs[c][q][1]), RoundS(g.cs[c][q][2]), g.cs[c][q][3]>>]],
            !.comps = [c \in 1..Len(g.comps) |-> [g.comps[c] EXCEPT !.d = <<RoundS(g.comps[c].d[1]), RoundS(g.comps[c].d[2])>>]],
            !.anchors = [a \in 1..Len(g.anchors) |-> [g.anchors[a] EXCEPT !.x = RoundS(@), !.y = RoundS(@)]],
            !.w = RoundS(g.w), !.h = RoundS(g.h)]
=============================================================================
