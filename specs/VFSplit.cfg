SPECIFICATION Spec
CONSTANTS
  PerVF = FALSE
  HoistDefault = FALSE
  Discs = {0, 1}
  Positions = {0, 1, 2}
  MaxVFs = 2
INVARIANT RaisesIffNoDefault
INVARIANT NeededIsUnion
INVARIANT CompiledOnce
INVARIANT JointDecisions
INVARIANT CallsAreGroups
INVARIANT BaseIsOwnDefault
CHECK_DEADLOCK FALSE
