SPECIFICATION Spec
CONSTANTS
  Fresh = TRUE
  Fonts = {1, 2, 3}
  LibWriters <- LW
INVARIANT OwnWriters
PROPERTY ArgumentUntouched
CHECK_DEADLOCK FALSE
