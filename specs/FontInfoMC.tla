----------------------------- MODULE FontInfoMC -----------------------------
(* every subset of the metrics cluster present/absent x two values each (spec-valid: ascender >= 0 >= descender):
   unsigned fields never negative, explicit values win, the hhea fallback chain is consistent *)
EXTENDS FontInfo, TLC
Cluster == {"unitsPerEm", "ascender", "descender", "openTypeOS2TypoLineGap", "openTypeHheaAscender", "openTypeOS2WinAscent",
            "openTypeOS2WinDescent", "openTypeOS2TypoAscender"}
ValChoices(a) == CASE a = "unitsPerEm" -> {4 * 1000, 4 * 2048}
                [] a = "ascender" -> {4 * 750 + 2, 4 * 1900}
                [] a = "descender" -> {-(4 * 250) - 2, 0}
                [] a = "openTypeOS2TypoLineGap" -> {0, 4 * 90 + 2}
                [] a = "openTypeHheaAscender" -> {4 * 1000}
                [] a = "openTypeOS2WinAscent" -> {4 * 950 + 1}
                [] a = "openTypeOS2WinDescent" -> {4 * 300}
                [] a = "openTypeOS2TypoAscender" -> {4 * 700}
VARIABLES pc, p, v
Init == pc = 0 /\ p = {} /\ v = [a \in Cluster |-> 0]
Pick == pc = 0 /\ \E P \in SUBSET Cluster :
           \E u \in ValChoices("unitsPerEm"), a \in ValChoices("ascender"), d \in ValChoices("descender"),
              g \in ValChoices("openTypeOS2TypoLineGap") :
           /\ p' = P /\ pc' = 1
           /\ v' = [x \in Cluster |-> CASE x = "unitsPerEm" -> u [] x = "ascender" -> a [] x = "descender" -> d
                                        [] x = "openTypeOS2TypoLineGap" -> g
                                        [] OTHER -> CHOOSE c \in ValChoices(x) : TRUE]
Next == Pick
Spec == Init /\ [][Next]_<<pc, p, v>>
C16_Unsigned == pc = 1 => Field(p, v, "usWinAscent") >= 0 /\ Field(p, v, "usWinDescent") >= 0 /\ Field(p, v, "sTypoLineGap") >= 0
C16_ExplicitWins == pc = 1 => \A f \in DOMAIN NumFields : NumFields[f] \in p => Field(p, v, f) = OtR4(v[NumFields[f]])
C16_Chain == (pc = 1 /\ "openTypeHheaAscender" \notin p /\ "openTypeOS2WinAscent" \notin p)
                         => Val(p, v, "openTypeHheaAscender") = Val(p, v, "openTypeOS2WinAscent")
=============================================================================
