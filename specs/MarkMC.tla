------------------------------- MODULE MarkMC -------------------------------
(***************************************************************************)
(* Design check for the mark writer's pairing / lookup ordering rule:      *)
(* one lookup per mark class, lookups sorted by class name, the LAST       *)
(* applying lookup wins.  For every assignment of anchor classes           *)
(* {top, top.alt, bottom} to one base and two marks (as base-side or       *)
(* mark-side anchors, distinct coordinates per anchor) the offset applied  *)
(* to (base, mark) is one of the source-defined candidates, and it is      *)
(* absent exactly when no class is shared.                                 *)
(***************************************************************************)
EXTENDS Integers, Sequences, FiniteSets, FiniteSetsExt, TLC

Classes == <<"bottom", "top", "top.alt">>          \* in sorted order
CIdx == 1..3
VARIABLES pc, baseHas, markHas
vars == <<pc, baseHas, markHas>>
Marks == {"m1", "m2"}

Init == pc = 0 /\ baseHas = {} /\ markHas = [m \in Marks |-> {}]
PickBase == pc = 0 /\ baseHas' \in SUBSET CIdx /\ pc' = 1 /\ UNCHANGED markHas
PickMarks == pc = 1 /\ markHas' \in [Marks -> SUBSET CIdx] /\ pc' = 2 /\ UNCHANGED baseHas
Next == PickBase \/ PickMarks
Spec == Init /\ [][Next]_vars

\* coordinates: base anchor of class c at (10c, 100c); mark m's anchor of class c at (c + off(m), 7c)
BaseX(c) == 10 * c
BaseY(c) == 100 * c
MarkX(m, c) == c + (IF m = "m1" THEN 1 ELSE 2)
MarkY(m, c) == 7 * c

\* the writer: a class is usable when both sides exist somewhere; one lookup per usable class, sorted by name
Usable == {c \in CIdx : c \in baseHas /\ \E m \in Marks : c \in markHas[m]}
\* lookup c applies to (base, m) iff base has anchor c and m is in mark class c
Applies(c, m) == c \in Usable /\ c \in baseHas /\ c \in markHas[m]
Applied(m) == LET S == {c \in CIdx : Applies(c, m)} IN IF S = {} THEN <<FALSE, 0, 0>> ELSE <<TRUE, BaseX(Max(S)) - MarkX(m, Max(S)), BaseY(Max(S)) - MarkY(m, Max(S))>>
Cands(m) == {<<BaseX(c) - MarkX(m, c), BaseY(c) - MarkY(m, c)>> : c \in baseHas \cap markHas[m]}

C06_Design == pc = 2 => \A m \in Marks :
                 IF Cands(m) = {} THEN ~Applied(m)[1] ELSE Applied(m)[1] /\ <<Applied(m)[2], Applied(m)[3]>> \in Cands(m)
\* the more specific class (sorted later: "top.alt" after "top") wins when both could attach
C06_SpecificWins == pc = 2 => \A m \in Marks : ({2, 3} \subseteq (baseHas \cap markHas[m])) => Applied(m)[2] = BaseX(3) - MarkX(m, 3)
=============================================================================
