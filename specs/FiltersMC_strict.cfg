SPECIFICATION Spec
CONSTANTS
  TSet <- TSQuick
  FilterKinds <- XformOnly
INVARIANT C15_MatrixApplied_Strict
CHECK_DEADLOCK FALSE
