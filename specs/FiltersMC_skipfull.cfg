SPECIFICATION Spec
CONSTANTS
  TSet <- TSFull
  FilterKinds <- SkipOnly
INVARIANT ModelAgrees
INVARIANT C13_SkipExport
INVARIANT C14_OutsidersUntouched
INVARIANT C14_ReportsChanges
CHECK_DEADLOCK FALSE
