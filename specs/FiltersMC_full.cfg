SPECIFICATION Spec
CONSTANTS
  TSet <- TSFull
  FilterKinds <- AllKinds
INVARIANT ModelAgrees
INVARIANT C15_RenderPreserved
INVARIANT C15_FlattenDepth
INVARIANT C13_SkipExport
INVARIANT C14_OutsidersUntouched
INVARIANT C14_ReportsChanges
INVARIANT C15_MatrixApplied
CHECK_DEADLOCK FALSE
