#!/bin/sh
# Offline setup: parse every specification with SANY (fails loudly on a broken spec) and create build dirs.
set -e
cd "$(dirname "$0")"
mkdir -p build/tlc build/run build/cases evidence replays
export PYTHONWARNINGS=ignore
/venv/bin/python - <<'PY'
import glob, os, sys
sys.path.insert(0, os.getcwd())
from harness import tlc
bad = 0
for p in sorted(glob.glob("specs/*.tla")):
    ok, out = tlc.sany(os.path.basename(p))
    if not ok:
        bad += 1
        print("SANY FAILED:", p); print(out[-2000:])
print("specs parsed:", len(glob.glob("specs/*.tla")), "failed:", bad)
sys.exit(1 if bad else 0)
PY
